"""C17 - PETS model: ensemble consistency, bootstraps and plan evaluation (structural part)."""
from __future__ import annotations

import ast
import os
import re
from fractions import Fraction

from ..cfg import CFG
from ..loops import dotted
from ..nf import NF, Scope, Poly, parse_expr
from ..repo import Repo, loc, short, AnalysisError, positional_params, param_names, ModuleInfo, bind_call
from ..shapes import ShapeEngine, Fn, doc_shapes, DrawShape
from ..sem import same_ingredients

EXPLANATION = (
    "Symbolic shapes are pushed through the vmapped log-variance bounding wrappers of GaussianMLPEnsemble (function values built in "
    "__init__ are interpreted: vmap strips / re-adds the mapped axis): every public prediction method must return mean and (log-)variance of "
    "identical shape (one variance per output), and the distribution built by base_distribution must get loc and scale of identical shape; "
    "the prediction methods are interpreted for batches and for a single input vector (the bounding function is found by its use: applied directly, through an attribute, helper methods / closures, or under vmaps); "
    "the ts_inf call site is followed to the distribution it samples from. Plan evaluation is also interpreted with ordered merged axes (reshape merges in memory order, repeat = (axis, n), tile = (rep, axis)): "
    "operands combined entry by entry whose merged axes run in different orders are a definite mix-up. Formula identities: aggregate == (mean_0 mu, mean_0 exp(lv) + var_0 mu); "
    "soft bounding == max - softplus(max - lv) then min + softplus(. - min); gaussian_nll and the ensemble loss; evaluate_plans == particle "
    "mean of the horizon-summed model rewards of the broadcast actions and trajectories[:, :, :-1]. Bootstraps: indices drawn with "
    "replacement as an (n_ensemble, n) matrix, per epoch a permutation along axis 1 (each index once), truncated to a multiple of "
    "batch_size by a guarded negative slice, reshaped (n_ensemble, batch_size, -1) and transposed (2, 0, 1) so the member axis is never "
    "merged. The Pendulum reward is compared, as a normal form, with the cost expression parsed from the installed gymnasium source. "
    "Roles are positions of the recorded signatures (never parameter or local names); the index pipeline, the wrappers and the bounding function are "
    "found through dataflow (reaching definitions, the vmap that maps them), array idioms with several spellings (positional / keyword axis, "
    "newaxis / None, trailing full slices, clip before / after indexing, exp(-v) / 1/exp(v)) are brought to one normal form on both sides. A "
    "difference is reported only when the value that was read is built from the documented ingredients (or is a definite shape / constant / path); "
    "any other form is undecided."
)
TRUSTED = ["jax.vmap / nnx.vmap in_axes semantics, nnx.split / merge of the stacked ensemble state", "jax.random.permutation(axis=1) permutes every row; choice(replace=True) draws with replacement", "installed gymnasium Pendulum source is the environment's reward"]
RULES = {
    "R1-one-variance-per-output": "__call__ / aggregate / base_predict return mean and (log-)variance of identical shape (.., n_outputs); base_distribution builds loc and scale_diag of identical shape - for batches (n_samples, n_features) and, for aggregate / base_predict / base_distribution, for a single input vector (n_features,) -> (n_outputs,); the bounds are never mapped by a wrapper; the ts_inf call site obtains such a pair and one independent draw per output dimension",
    "R2-aggregate": "aggregate == (mean(means, 0), mean(exp(log_vars), 0) + var(means, 0)) with log_vars soft-bounded",
    "R3-nll": "bounding == min + softplus(max - softplus(max - lv) - min); gaussian_nll == mean(0.5*(mu - y)^2 * exp(-lv)) + 0.5*mean(lv); ensemble loss == sum(nll) + 0.01*(sum(max_lv) - sum(min_lv))",
    "R4-bootstraps": "bootstrap == choice(key, n, (n_ensemble, int(train_size*n)), replace=True); per epoch permutation(axis=1), guarded truncation to a multiple of batch_size, reshape(n_ensemble, batch_size, -1).transpose(2,0,1); train_epoch indexes X[batch], Y[batch] per scan step",
    "R5-plan-evaluation": "expected_returns == mean over particles of sum over the horizon of reward_model(actions broadcast over particles, trajectories[:, :, :-1]); actions and observations handed to the reward model are paired entry by entry (merged axes keep the order they were merged in: reshape / repeat / tile), one return per plan",
    "R6-pendulum": "pendulum_reward == -(norm_angle(theta)^2 + 0.1*theta_dot^2 + 0.001*u^2) with u clipped to the environment's max torque; forms parsed from gymnasium's pendulum.py",
}

PE = "rl_blox.blox.probabilistic_ensemble."
ENS = PE + "GaussianMLPEnsemble"
_NP = ("jax.numpy.", "numpy.", "jax.lax.", "jax.nn.", "jax.")


def _env(fn):
    return {p: Poly.atom(p, {p}, {p}) for p in param_names(fn)}


def _m(repo, cq, name):
    m = repo.method(cq, name)      # follows the (repo-internal) MRO: a method moved to a base class / mixin is still the class's method
    if m is None:
        raise AnalysisError(f"{cq}.{name} not found (anchor vanished)")
    owner, fn = m
    fn._module = repo.cls(owner)._module
    return fn


def _roles(fn, n, site, skip_self=False):
    """Names of the first ``n`` parameters of the recorded signature (roles are positions, never names; keyword-only parameters keep their place)."""
    ps = param_names(fn)
    if skip_self and ps and ps[0] in ("self", "cls"):
        ps = ps[1:]
    if len(ps) < n or fn.args.vararg is not None:
        raise AnalysisError(f"{site}: signature {ps} changed (anchor vanished)")
    return ps[:n]


def _spec_env(fn, recorded, site, skip_self=False):
    """Environment for a documented formula written with the recorded parameter names: each recorded name denotes the parameter at its position."""
    return {r: Poly.atom(p, {p}, {p}) for r, p in zip(recorded, _roles(fn, len(recorded), site, skip_self))}


_UNREAD = re.compile(r"φ\(|⟦|λ\[|\b\w+__i\d+\b")


def _unread(p: Poly) -> bool:
    return bool(_UNREAD.search(p.canon()))


def _decide(ck, rule, site, key, got: Poly, want, shown: str, why: str, where, extra=()):
    """Equal to (one of) the documented normal form(s) -> holds.  Different -> a violation only when the value that was read is built from the
    documented ingredients (then the two normal forms denote different functions); anything else is a form this rule does not read."""
    wants = want if isinstance(want, (list, tuple)) else [want]
    ok = any(got == w for w in wants)
    if not ok and (_unread(got) or not same_ingredients(got, wants[0], extra)):
        raise AnalysisError(f"{site}: {key} is `{got.canon()[:110]}` (unrecognised form)")
    ck.ob(rule, site, key, ok, shown, "" if ok else why, where)
    return ok


# ---- one spelling for array idioms that have several (applied to copies of the analysed functions and to the documented formulas alike) -----
_REDUCERS = {"mean", "sum", "var", "std", "max", "min", "prod", "argmax", "argmin", "any", "all", "amax", "amin"}


class _Spelling(ast.NodeTransformer):
    """reduce(x, k) / x.reduce(k) -> axis=k;  jnp.newaxis -> None;  x[i, :] / x[i, ...] -> x[i];  clip(x, lo, hi)[i] -> clip(x[i], lo, hi) for scalar
    bounds (see also _index_into_clip, which does the same on normal forms).  Every rewrite yields the same array, element for element."""

    def __init__(self, repo, mi):
        self.repo, self.mi = repo, mi

    def _lib(self, f):
        r = self.repo.resolve_expr(self.mi, f) if isinstance(f, (ast.Name, ast.Attribute)) else None
        return r if r and r.startswith(_NP) else None

    def visit_Call(self, n):
        self.generic_visit(n)
        f = n.func
        if isinstance(f, ast.Attribute) and f.attr in _REDUCERS and not any(k.arg in ("axis", None) for k in n.keywords) and not any(isinstance(a, ast.Starred) for a in n.args):
            root = f
            while isinstance(root, ast.Attribute):
                root = root.value
            pos = 1 if self._lib(f) else (0 if not (isinstance(root, ast.Name) and self.repo.resolve_name(self.mi, root.id)) else None)
            if pos is not None and len(n.args) == pos + 1:
                n.keywords = [ast.keyword(arg="axis", value=n.args[pos])] + list(n.keywords)
                n.args = n.args[:pos]
        if isinstance(f, ast.Attribute) and f.attr == "expand_dims" and (self._lib(f) or "").endswith(".expand_dims") and not any(isinstance(a, ast.Starred) for a in n.args) and all(k.arg == "axis" for k in n.keywords) \
                and len(n.args) + len(n.keywords) == 2 and n.args:
            ax = n.keywords[0].value if n.keywords else n.args[1]
            if isinstance(ax, ast.Constant) and isinstance(ax.value, int) and not isinstance(ax.value, bool) and 0 <= ax.value <= 4:
                # expand_dims(x, k) is x[:, .., None] with k full slices in front
                idx = [ast.Slice(lower=None, upper=None, step=None) for _ in range(ax.value)] + [ast.Constant(value=None)]
                return ast.copy_location(ast.Subscript(value=n.args[0], slice=idx[0] if len(idx) == 1 else ast.Tuple(elts=idx, ctx=ast.Load()), ctx=ast.Load()), n)
        return n

    def visit_Assign(self, n):
        """`a, b, *rest = x` for a side-effect-free x (a name / attribute chain) -> `a = x[0]; b = x[1]; rest = x[2:]` (the same entries; `rest` is a
        list of them where the slice is a tuple - as a shape / sequence of entries the same)."""
        self.generic_visit(n)
        t = n.targets[0] if len(n.targets) == 1 else None
        chain = n.value
        while isinstance(chain, ast.Attribute):
            chain = chain.value
        if isinstance(t, (ast.Tuple, ast.List)) and len(t.elts) >= 2 and isinstance(t.elts[-1], ast.Starred) and isinstance(t.elts[-1].value, ast.Name) and all(isinstance(x, ast.Name) for x in t.elts[:-1]) \
                and isinstance(chain, ast.Name) and chain.id not in {x.id for x in t.elts[:-1]} | {t.elts[-1].value.id}:
            from ..expand import clone
            out = [ast.Assign(targets=[x], value=ast.Subscript(value=clone(n.value), slice=ast.Constant(value=i), ctx=ast.Load()), type_comment=None) for i, x in enumerate(t.elts[:-1])]
            out.append(ast.Assign(targets=[t.elts[-1].value], value=ast.Subscript(value=clone(n.value), slice=ast.Slice(lower=ast.Constant(value=len(t.elts) - 1), upper=None, step=None), ctx=ast.Load()), type_comment=None))
            return [ast.fix_missing_locations(ast.copy_location(x, n)) for x in out]
        return n

    def visit_Attribute(self, n):
        self.generic_visit(n)
        if n.attr == "newaxis" and isinstance(n.ctx, ast.Load) and self.repo.resolve_expr(self.mi, n) in ("numpy.newaxis", "jax.numpy.newaxis"):
            return ast.copy_location(ast.Constant(value=None), n)
        return n

    def visit_Subscript(self, n):
        self.generic_visit(n)
        if not isinstance(n.ctx, ast.Load):
            return n
        if isinstance(n.slice, ast.Tuple) and len(n.slice.elts) >= 2:
            el = list(n.slice.elts)
            full = lambda x: (isinstance(x, ast.Slice) and x.lower is None and x.upper is None and x.step is None)
            if isinstance(el[-1], ast.Constant) and el[-1].value is Ellipsis:
                el.pop()
            elif not any(isinstance(x, ast.Constant) and x.value is Ellipsis for x in el):
                while len(el) > 1 and full(el[-1]):
                    el.pop()
            if len(el) != len(n.slice.elts):
                n.slice = el[0] if len(el) == 1 else ast.copy_location(ast.Tuple(elts=el, ctx=ast.Load()), n.slice)
        v = n.value
        if isinstance(v, ast.Call) and (self._lib(v.func) or "").endswith(".clip") and v.args and not isinstance(v.args[0], ast.Starred) and all(k.arg is not None for k in v.keywords) \
                and all(self._scalar(a) for a in list(v.args[1:]) + [k.value for k in v.keywords]):
            # clipping with scalar bounds is element-wise: clip(x, lo, hi)[i] is clip(x[i], lo, hi)
            inner = ast.copy_location(ast.Subscript(value=v.args[0], slice=n.slice, ctx=ast.Load()), n)
            return ast.copy_location(ast.Call(func=v.func, args=[inner] + list(v.args[1:]), keywords=list(v.keywords)), n)
        return n

    def _scalar(self, e):
        if isinstance(e, ast.UnaryOp) and isinstance(e.op, (ast.USub, ast.UAdd)):
            return self._scalar(e.operand)
        if isinstance(e, ast.Constant):
            return isinstance(e.value, (int, float)) and not isinstance(e.value, bool)
        if isinstance(e, ast.Name):
            d = self.mi.defs.get(e.id)
            return isinstance(d, (ast.Assign, ast.AnnAssign)) and d.value is not None and self._scalar(d.value)
        return False


def _spelled(ck, repo, fn, mi=None):
    """Copy of a function (positions kept) in the canonical spelling; the original tree is not touched."""
    from ..expand import clone
    mi = mi or fn._module
    new = _Spelling(repo, mi).visit(clone(fn))
    ast.fix_missing_locations(new)
    for parent in ast.walk(new):
        for child in ast.iter_child_nodes(parent):
            child._parent = parent
    new._parent = getattr(fn, "_parent", None)
    new._module = mi
    new._qual = getattr(fn, "_qual", fn.name)
    for x in ast.walk(new):
        if isinstance(x, ast.FunctionDef):
            x._module = mi
    ck._keep = getattr(ck, "_keep", []) + [new]      # the CFG cache is keyed by id(fn)
    return new


def _spec(nf, repo, mi, text, env, self_class=None):
    e = _Spelling(repo, mi).visit(parse_expr(text))
    ast.fix_missing_locations(e)
    return nf.poly(e, Scope(None, mi, env, "spec", self_class=self_class), None)


def _exp_merged(nf, p: Poly, depth: int = 0) -> Poly:
    """exp(a)^k * exp(b) -> exp(k*a + b), also under mean / sum: one normal form for x / exp(v) and x * exp(-v)."""
    if p.elems is not None or depth > 6:
        return p
    out = Poly({}, p.deps, p.gdeps)
    for mono, c in p.terms.items():
        term, expo = Poly({(): c}), None
        for a, k in mono:
            m = nf.meta.get(a, {})
            fn = m.get("fn", "")
            if fn.split(".")[-1] == "exp" and len(m.get("args", [])) == 1 and not m.get("kws"):
                e = _exp_merged(nf, m["args"][0], depth + 1).scale(k)
                expo = e if expo is None else expo + e
            elif fn in ("mean", "sum") and m.get("args") and k > 0:
                term = term * nf._libcall(fn, [_exp_merged(nf, m["args"][0], depth + 1)] + list(m["args"][1:]), dict(m.get("kws", {})), None).pow(k)
            else:
                term = term * Poly({((a, k),): Fraction(1)})
        if expo is not None and not expo.is_zero():
            term = term * nf._mkcall("exp", [expo], {})
        out = out + term
    return out.with_meta(p.deps, p.gdeps)


def _mean_of_axis_sum(nf, p: Poly, fn):
    """mean(sum(X, axis=k)) (mean over everything that is left) == n_k * mean(X), n_k the length of axis k of X: written with the name the
    docstring gives that axis when every documented array X is built from has the same rank and the same name there (the operands are combined
    entry by entry).  Returns (normal form, names used).  Anything else is left as it is."""
    docs = doc_shapes(fn)
    m, used = {}, set()
    for a in p.atoms():
        ma = nf.meta.get(a, {})
        if ma.get("fn", "").split(".")[-1] != "mean" or len(ma.get("args", [])) != 1 or ma.get("kws"):
            continue
        mi_ = nf.meta.get(ma["args"][0].single_atom() or "", {})
        if mi_.get("fn", "").split(".")[-1] != "sum" or len(mi_.get("args", [])) != 1 or set(mi_.get("kws", {})) != {"axis"}:
            continue
        k = mi_["kws"]["axis"].const_value()
        X = mi_["args"][0]
        deps = set(X.deps)
        if k is None or k != int(k) or not deps or any(d not in docs for d in deps) or len({len(docs[d]) for d in deps}) != 1:
            continue
        k = int(k)
        rank = len(docs[next(iter(deps))])
        names = {docs[d][k] for d in deps} if -rank <= k < rank else set()
        if len(names) != 1 or not re.fullmatch(r"[A-Za-z_]\w*", next(iter(names))):
            continue
        n = names.pop()
        used.add(n)
        m[a] = Poly.atom(n) * nf._libcall("mean", [X], {}, None)
    return (p.subst(m) if m else p), used


def _index_into_clip(nf, p: Poly) -> Poly:
    """clip(x, lo, hi)[i] -> clip(x[i], lo, hi) for constant bounds (clipping is element-wise): one normal form for both orders."""
    m = {}
    for a in p.atoms():
        ms = nf.meta.get(a, {})
        base = ms["args"][0] if ms.get("fn") == "subscript" and len(ms.get("args", [])) == 1 else None
        mc = nf.meta.get(base.single_atom() or "", {}) if base is not None else {}
        if mc.get("fn", "").split(".")[-1] == "clip" and len(mc.get("args", [])) == 3 and not mc.get("kws") and a.startswith(base.canon() + "[") and a.endswith("]"):
            xs = [x for x in mc["args"] if x.const_value() is None]
            cs = [x for x in mc["args"] if x.const_value() is not None]
            if len(xs) == 1 and len(cs) == 2:
                sub = nf._reg(Poly.atom(f"{xs[0].canon()}{a[len(base.canon()):]}", xs[0].deps, xs[0].gdeps), "subscript", [xs[0]])
                m[a] = nf._mkcall(mc["fn"], [sub] + sorted(cs, key=lambda c_: c_.const_value()), {})
    return p.subst(m) if m else p


def _returned(nf, fn, mi, env, site, self_class=None):
    """(normal form, CFG node) of the single returned expression."""
    cfg = nf.cfg_of(fn)
    rets = [n for n in cfg.nodes if n.kind == "stmt" and isinstance(n.ast, ast.Return) and n.ast.value is not None]
    if len(rets) != 1:
        raise AnalysisError(f"{site}: {len(rets)} return statements (unrecognised form)")
    sc = Scope(cfg, mi, env, site, self_class=self_class)
    return nf.poly(rets[0].ast.value, sc, rets[0].id), rets[0]


def _vmap_axes(repo, mi, call):
    """(in_axes expression | None, out_axes expression | None) of `vmap(f, in_axes, out_axes)` / `partial(vmap, ...)` / `vmap(in_axes=...)`, or None
    when the call is not a vmap."""
    if not isinstance(call, ast.Call) or not isinstance(call.func, (ast.Name, ast.Attribute)):
        return None
    r = repo.resolve_expr(mi, call.func)
    args = list(call.args)
    if r == "functools.partial" and args and isinstance(args[0], (ast.Name, ast.Attribute)) and repo.resolve_expr(mi, args[0]) in ("jax.vmap", "flax.nnx.vmap"):
        args = args[1:]
    elif r not in ("jax.vmap", "flax.nnx.vmap"):
        return None
    kw = {k.arg: k.value for k in call.keywords}
    return kw.get("in_axes", args[1] if len(args) > 1 else None), kw.get("out_axes", args[2] if len(args) > 2 else None)


def _literal_axes(repo, mi, fn, site):
    """The shape engine reads the axes of a vmap from the literal; a named / computed axes value would be read as the default.  Such a wrapper is
    a form this check does not read (never evidence)."""
    for c in ast.walk(fn):
        ax = _vmap_axes(repo, mi, c)
        for a in (ax or ()):
            if a is not None:
                try:
                    ast.literal_eval(a)
                except Exception:
                    raise AnalysisError(f"{site}: vmap axes `{short(a, 40)}` are not written as a literal (unrecognised form)")


def _referenced_functions(repo, init):
    """name -> (FunctionDef, module) of the functions of the package that __init__ refers to by name (handed to vmap, stored on self, called)."""
    imi = init._module
    locals_ = {n.name for n in ast.walk(init) if isinstance(n, ast.FunctionDef) and n is not init}
    out = {}
    for x in ast.walk(init):
        if isinstance(x, ast.Name) and isinstance(x.ctx, ast.Load) and x.id not in locals_ and x.id not in out:
            r = repo.resolve_expr(imi, x)
            if r and r.startswith(repo.PKG + ".") and repo.has(r):
                m2, node = repo.lookup(r)
                if isinstance(node, ast.FunctionDef):
                    out[x.id] = (node, m2)
    return out


def _bounding_function(repo):
    """The element-wise bounding function (log_var, min, max): the one function of three arguments that the prediction methods apply to the soft
    bounds (directly, through an attribute of the object, or through vmap wrappers) - found by its use, not by its name or by how it is wrapped."""
    apps = _interpretation(repo)["applications"]
    c = {id(a["fn"]): (a["fn"], a["mi"]) for a in apps if a["operands"][1:] == [("O",), ("O",)]}      # operands as handed to the (outermost wrapper of the) function
    if not c:
        # a helper introduced after the freeze is expanded at its call sites (E9): the bound then stands in place in the methods, its definition is
        # the three-argument helper that was expanded into them
        meth = {}
        for caller, callee, _mode in getattr(repo, "inlined", []):
            if caller.startswith(ENS + ".") and repo.has(callee):
                m2, node = repo.lookup(callee)
                ps = positional_params(node) if isinstance(node, ast.FunctionDef) else []
                if len(ps) == 3 and ps[0] not in ("self", "cls"):
                    c[id(node)] = (node, m2)
                elif len(ps) == 2 and ps[0] in ("self", "cls") and node.args.vararg is None and node.args.kwarg is None and not node.args.kwonlyargs \
                        and {"min_log_var", "max_log_var"} <= {x.attr for x in ast.walk(node) if isinstance(x, ast.Attribute) and isinstance(x.value, ast.Name) and x.value.id == ps[0] and isinstance(x.ctx, ast.Load)}:
                    # the bound as a method of the object (or of a base class / mixin): one argument, the two live bounds are read from the object itself
                    node._c17_owner = callee.rsplit(".", 1)[0]
                    meth[id(node)] = (node, m2)
        c = c or meth      # a method that merely hands the object's bounds to a three-argument function is a wrapper of that function
    if len(c) != 1:
        raise AnalysisError(f"{ENS}: {len(c)} three-argument functions are applied to (log-variance, min_log_var, max_log_var) by the prediction methods (unrecognised form)")
    return next(iter(c.values()))


def _match_as_if(s: ast.Match):
    """`match subject:` over literal patterns (`case 2:`, `case 2 | 3:`, `case _:`; no guards, no captures) as the `if subject == 2: ... elif ...: ... else:`
    chain it abbreviates (a value pattern compares with ==; the subject is a side-effect-free read).  None for any other pattern."""
    if not isinstance(s.subject, (ast.Name, ast.Attribute, ast.Subscript)):
        return None
    arms = []
    for c in s.cases:
        if c.guard is not None:
            return None
        pats = c.pattern.patterns if isinstance(c.pattern, ast.MatchOr) else [c.pattern]
        if len(pats) == 1 and isinstance(pats[0], ast.MatchAs) and pats[0].pattern is None and pats[0].name is None:
            arms.append((None, c.body))
            break      # nothing after the wildcard can run
        if not all(isinstance(p_, ast.MatchValue) and isinstance(p_.value, ast.Constant) for p_ in pats):
            return None
        tests = [ast.Compare(left=s.subject, ops=[ast.Eq()], comparators=[p_.value]) for p_ in pats]
        arms.append((tests[0] if len(tests) == 1 else ast.BoolOp(op=ast.Or(), values=tests), c.body))
    chain = []
    for test, body in reversed(arms):
        chain = list(body) if test is None else [ast.If(test=test, body=list(body), orelse=chain)]
    if len(chain) != 1 or not isinstance(chain[0], ast.If):
        return None
    return ast.fix_missing_locations(ast.copy_location(chain[0], s))


class _Dist(tuple):
    """("tuple", [loc shape, scale shape]) of a diagonal Gaussian."""


class _Drawn(tuple):
    """Shape of a random sample."""


class _Record(tuple):
    """("tuple", [field values]) of a NamedTuple instance; `fields` holds the field names in declaration order."""
    fields: tuple = ()


def _record_fields(repo, mi, f):
    """(field names, {field: default expression}) when `f` names a NamedTuple class of the package (fields in declaration order), else None."""
    if not isinstance(f, (ast.Name, ast.Attribute)):
        return None
    r = repo.resolve_expr(mi, f)
    if not r or not r.startswith(repo.PKG + ".") or not repo.has(r):
        return None
    m2, node = repo.lookup(r)
    if not isinstance(node, ast.ClassDef) or node.keywords or len(node.bases) != 1 or not isinstance(node.bases[0], (ast.Name, ast.Attribute)) or repo.resolve_expr(m2, node.bases[0]) != "typing.NamedTuple":
        return None
    if any(isinstance(x, ast.FunctionDef) and x.name in ("__new__", "__getattr__", "__getattribute__") for x in node.body):
        return None
    fields = [x for x in node.body if isinstance(x, ast.AnnAssign) and isinstance(x.target, ast.Name)]
    return [x.target.id for x in fields], {x.target.id: x.value for x in fields if x.value is not None}


class _Shapes(ShapeEngine):
    """The shared shape engine with three more readings, all of them plain Python semantics (nothing is assumed about the analysed code):
      * `match` over literals is the if / elif chain it abbreviates (any other `match` forgets the shapes of the names it assigns);
      * `self.<method>(...)` of a method of the analysed class is interpreted like any other call (parameters bound by position after `self`), so a
        prediction path split into helper methods - or one prediction method built on another - is followed;
      * a diagonal Gaussian remembers (loc, scale); `.sample(seed=..)` of it has their common shape and stays marked as random: reduced to a single
        number and then broadcast over an array it is one draw shared by all components (the engine's `shared-draw`);
      * a rank-1 query of a prediction method documented for batches is not held against the call site when `accept_vector_queries` is set (the
        caller sets it when the methods were shown to treat a single input vector as the property demands);
      * a function defined inside a method and returned / stored (a closure that is applied later, possibly by another function) reads `self.<attr>`
        of the object it was defined on."""

    def __init__(self, *a, **k):
        super().__init__(*a, **k)
        self.distributions = []      # (qual, loc shape, scale shape) of every diagonal-Gaussian constructed during the interpretation
        self.member_calls = []       # (qual of the interpreted method of the class, result)
        self.applications = []       # every interpreted application of a three-argument function: fn, module, in_axes of the vmaps around it, operand shapes it sees
        self._chains = []            # vmap chains being applied: (function values of the chain, innermost FunctionDef, [in_axes outermost first], operand shapes)

    def stmt(self, s, env, ctx):
        if isinstance(s, ast.Match):
            chain = _match_as_if(s)
            if chain is not None:
                return super().stmt(chain, env, ctx)
            for x in ast.walk(s):
                if isinstance(x, ast.Name) and isinstance(x.ctx, ast.Store):
                    env[x.id] = None
                elif isinstance(x, (ast.MatchAs, ast.MatchStar)) and x.name:
                    env[x.name] = None
            return None
        r = super().stmt(s, env, ctx)
        if isinstance(s, ast.FunctionDef):
            f = ctx["fnenv"].get(s.name)
            while isinstance(f, Fn) and f.kind in ("vmap", "scan"):
                f = f.args[0]
            if isinstance(f, Fn) and f.kind == "def":
                f.self_attrs = ctx["self"]
        return r

    accept_vector_queries = False

    def assign(self, t, v, env, ctx):
        if isinstance(t, (ast.Tuple, ast.List)) and sum(isinstance(x, ast.Starred) for x in t.elts) == 1:
            # a, b, *rest = seq: the starred name takes what the others leave
            k = next(i for i, x in enumerate(t.elts) if isinstance(x, ast.Starred))
            after = len(t.elts) - k - 1
            d = list(v[1]) if isinstance(v, tuple) and len(v) == 2 and v[0] in ("dims", "tuple") and v[1] is not None else None
            if d is None or len(d) < len(t.elts) - 1:
                for el in t.elts:
                    self.assign(el.value if isinstance(el, ast.Starred) else el, None, env, ctx)
                return
            one = (lambda x: ("dim", x)) if v[0] == "dims" else (lambda x: x)
            mid = d[k:len(d) - after]
            for el, x in list(zip(t.elts[:k], d[:k])) + list(zip(t.elts[k + 1:], d[len(d) - after:])):
                self.assign(el, one(x), env, ctx)
            self.assign(t.elts[k].value, ("dims", tuple(mid)) if v[0] == "dims" else ("tuple", mid), env, ctx)
            return
        return super().assign(t, v, env, ctx)

    def _ev(self, e, env, ctx):
        if isinstance(e, ast.Attribute) and isinstance(e.value, ast.Name) and isinstance(env.get(e.value.id), _Record):
            rec = env[e.value.id]      # field of a NamedTuple carrier: the value it was constructed with
            if e.attr in rec.fields:
                return rec[1][rec.fields.index(e.attr)]
        return super()._ev(e, env, ctx)

    def alarm(self, mi, node, kind, text, qual):
        if kind == "rank-mismatch-call" and getattr(self, "_vector_query", 0):
            return None
        return super().alarm(mi, node, kind, text, qual)

    def call(self, e, env, ctx):
        f = e.func
        if isinstance(f, ast.Attribute) and f.attr == "sample" and not e.args and all(k.arg in ("seed", "key") for k in e.keywords):
            recv = self.ev(f.value, env, ctx)
            if isinstance(recv, _Dist):
                shp = self.broadcast(list(recv[1]), ctx["mi"], e, ctx["qual"])
                return _Drawn(shp) if shp is not None else None
        rf = _record_fields(self.repo, ctx["mi"], f) if isinstance(f, ast.Name) and f.id not in env and f.id not in ctx["fnenv"] else None
        if rf is not None and not any(isinstance(a, ast.Starred) for a in e.args) and all(k.arg is not None for k in e.keywords) and len(e.args) <= len(rf[0]):
            # a NamedTuple carrier: positional arguments fill the fields in declaration order, keywords by name, defaults otherwise
            given = {**dict(zip(rf[0], e.args)), **{k.arg: k.value for k in e.keywords}}
            if set(given) <= set(rf[0]) and len(given) == len(e.args) + len(e.keywords):
                rec = _Record(("tuple", [self.ev(given[n], env, ctx) if n in given else (self.ev(rf[1][n], {}, ctx) if n in rf[1] else None) for n in rf[0]]))
                rec.fields = tuple(rf[0])
                return rec
        vector_query = False
        if self.accept_vector_queries and isinstance(f, ast.Attribute) and isinstance(f.value, ast.Name) and ctx.get("ptypes", {}).get(f.value.id) == ENS and e.args and not isinstance(e.args[0], ast.Starred):
            a0 = self.ev(e.args[0], env, ctx)
            vector_query = self.is_shape(a0) and a0 is not None and len(a0) == 1
        self._vector_query = getattr(self, "_vector_query", 0) + int(vector_query)
        try:
            r = super().call(e, env, ctx)
        finally:
            self._vector_query -= int(vector_query)
        if isinstance(f, ast.Attribute) and f.attr in ("MultivariateNormalDiag", "Normal") and _pair(r) is not None:
            self.distributions.append((ctx["qual"], r[1][0], r[1][1]))
            r = _Dist(r)
        return r

    def subscript(self, e, env, ctx):
        r = super().subscript(e, env, ctx)
        v = e.value
        if self.is_shape(r) and r is not None and (isinstance(v, ast.Name) or (isinstance(v, ast.Call) and isinstance(v.func, ast.Attribute) and v.func.attr == "sample")):
            base = env.get(v.id) if isinstance(v, ast.Name) else self.call(v, env, ctx)
            if isinstance(base, _Drawn):
                return DrawShape() if r == () else _Drawn(r)
        return r

    def analyse(self, fn, mi, qual, arg_shapes, fnenv=None, depth=0, self_attrs=None):
        ps = positional_params(fn)
        if depth > 0 and len(ps) == 3 and ps[0] not in ("self", "cls"):
            top = self._chains[-1] if self._chains else None
            seen = [arg_shapes.get(p_) for p_ in ps]
            mine = bool(top and top[1] is fn)
            self.applications.append({"fn": fn, "mi": mi, "site": qual, "chain": list(top[2]) if mine else [], "shapes": seen, "operands": list(top[3]) if mine and len(top[3]) == 3 else seen})
        r = super().analyse(fn, mi, qual, arg_shapes, fnenv, depth, self_attrs)
        if depth > 0 and qual.startswith(ENS + ".") and "<" not in qual:
            self.member_calls.append((qual, r))
        return r

    def apply(self, fv, args, kws, node, ctx):
        if fv.kind == "method":
            fn, mi, cq = fv.args
            if ctx["depth"] >= self.max_depth:
                return None
            env = dict(zip(positional_params(fn)[1:], args))
            env.update(kws)
            return self.analyse(fn, mi, f"{cq}.{fn.name}", env, {}, ctx["depth"] + 1, ctx["self"])
        own = getattr(fv, "self_attrs", None)
        if fv.kind == "def" and own is not None and own is not ctx["self"]:
            ctx = {**ctx, "self": own}
        if fv.kind == "vmap" and not (self._chains and any(fv is m_ for m_ in self._chains[-1][0])):
            members, axes, f = [], [], fv
            while f.kind == "vmap":
                members.append(f)
                axes.append(f.args[1])
                f = f.args[0]
            self._chains.append((members, f.args[0] if f.kind == "def" else None, axes, list(args)))
            try:
                return super().apply(fv, args, kws, node, ctx)
            finally:
                self._chains.pop()
        return super().apply(fv, args, kws, node, ctx)


def _factors(d):
    return list(d[1:]) if isinstance(d, tuple) and d and d[0] == "x" else [d]


def _product(fs):
    fs = [f for f in fs if f != 1]
    return 1 if not fs else fs[0] if len(fs) == 1 else ("x",) + tuple(fs)


class _Axes(_Shapes):
    """Shapes whose merged axes remember HOW they were merged.  An axis that combines several axes is the ordered product ("x", major, .., minor) of
    the axes it was made from, in memory order: `reshape` merges adjacent source axes in source order (whatever order the target *size* is written
    in - `a * b` and `b * a` are the same number) and splits a product only in that order; `repeat(x, n, axis)` makes (axis, n); `tile(x, reps)`
    makes (rep, axis).  Two operands that are combined element by element and carry the same factors in a different order pair entry (s, p) of
    one with entry (s', p') of the other: a definite mix-up (alarm `merged-axes-misaligned`).  Anything not read stays unknown and never alarms."""

    def _ev(self, e, env, ctx):
        if isinstance(e, (ast.Tuple, ast.List)) and any(isinstance(x, ast.Starred) for x in e.elts):
            out = []      # (a, b, *rest) is (a, b) + rest
            for x in e.elts:
                if isinstance(x, ast.Starred):
                    d = self.dims_of_value(self.ev(x.value, env, ctx))
                    if d is None:
                        return None
                    out += [("dim", y) for y in d]
                else:
                    out.append(self.ev(x, env, ctx))
            return ("tuple", out)
        if isinstance(e, ast.BinOp) and isinstance(e.op, ast.Mult):
            a, b = self.ev(e.left, env, ctx), self.ev(e.right, env, ctx)
            isdim = lambda v: isinstance(v, tuple) and len(v) == 2 and v[0] == "dim" and v[1] is not None
            if isdim(a) and isdim(b):
                return ("dim", _product(_factors(a[1]) + _factors(b[1])))
        return super()._ev(e, env, ctx)

    def _int(self, e, env, ctx):
        """A Python int the expression certainly denotes (literal, `x.ndim`, sums / differences of these) or None."""
        if isinstance(e, ast.Constant) and isinstance(e.value, int) and not isinstance(e.value, bool):
            return e.value
        if isinstance(e, ast.Attribute) and e.attr == "ndim":
            v = self.ev(e.value, env, ctx)
            return len(v) if self.is_shape(v) and v is not None else None
        if isinstance(e, ast.BinOp) and isinstance(e.op, (ast.Add, ast.Sub)):
            a, b = self._int(e.left, env, ctx), self._int(e.right, env, ctx)
            return None if a is None or b is None else (a + b if isinstance(e.op, ast.Add) else a - b)
        return None

    def _reps(self, e, env, ctx):
        """Entries of a repetition tuple: ints / dimension symbols, None when not read."""
        if isinstance(e, (ast.Tuple, ast.List)):
            out = []
            for x in e.elts:
                k = self._int(x, env, ctx)
                if k is None:
                    v = self.ev(x, env, ctx)
                    k = v[1] if isinstance(v, tuple) and len(v) == 2 and v[0] == "dim" else None
                if k is None:
                    return None
                out.append(k)
            return out
        if isinstance(e, ast.BinOp) and isinstance(e.op, ast.Add):
            a, b = self._reps(e.left, env, ctx), self._reps(e.right, env, ctx)
            return None if a is None or b is None else a + b
        if isinstance(e, ast.BinOp) and isinstance(e.op, ast.Mult):
            for seq, n in ((e.left, e.right), (e.right, e.left)):
                a, k = self._reps(seq, env, ctx) if isinstance(seq, (ast.Tuple, ast.List)) else None, self._int(n, env, ctx)
                if a is not None and k is not None and k >= 0:
                    return a * k
        return None

    def libcall(self, short, name, e, args, kw, env, ctx, method=False):
        a0 = args[0] if args else None
        if short == "tile" and not method:
            r_e = kw.get("reps", e.args[1] if len(e.args) > 1 else None)
            reps = self._reps(r_e, env, ctx) if r_e is not None else None
            if reps is None or not self.is_shape(a0) or a0 is None or len(reps) > len(a0):
                return None
            reps = [1] * (len(a0) - len(reps)) + reps
            return tuple(d if r == 1 else (None if d is None else _product([r] + _factors(d))) for d, r in zip(a0, reps))
        if short == "repeat" and not method:
            n_e, ax_e = kw.get("repeats", e.args[1] if len(e.args) > 1 else None), kw.get("axis", e.args[2] if len(e.args) > 2 else None)
            ax = self.lit(ax_e, None) if ax_e is not None else None
            n = self.dim_of(n_e, env, ctx) if n_e is not None else None
            if not self.is_shape(a0) or a0 is None or not isinstance(ax, int) or isinstance(ax, bool) or n is None or not -len(a0) <= ax < len(a0):
                return None
            ax %= len(a0)
            return tuple((None if d is None else _product(_factors(d) + _factors(n))) if i == ax else d for i, d in enumerate(a0))
        return super().libcall(short, name, e, args, kw, env, ctx, method)

    def reshape(self, src, tgt, mi, node, qual):
        isprod = lambda d: isinstance(d, tuple) and bool(d) and d[0] == "x"
        if src is None or not any(isprod(d) for d in list(src) + list(tgt)):
            return super().reshape(src, tgt, mi, node, qual)
        F = [f for d in src for f in _factors(d) if f != 1]      # the source axes, major to minor
        want = [[f for f in _factors(t) if f != 1] if t != -1 else None for t in tgt]
        if sum(1 for w in want if w is None) > 1 or any(f is None for w in want if w is not None for f in w):
            return tuple(None for _ in tgt)
        free = len(F) - sum(len(w) for w in want if w is not None)
        if free < 0:
            return tuple(None for _ in tgt)
        out, j, broken = [], 0, False
        for w in want:
            k = free if w is None else len(w)
            got = F[j:j + k]
            j += k
            if broken or len(got) != k or (k > 1 and any(f is None for f in got)):
                out.append(None)
            elif w is None or sorted(map(str, got)) == sorted(map(str, w)):
                out.append(_product(got))      # merged / split in source order
            elif k == 1 and (got[0] is None or (str(got[0]) not in {str(f) for w2 in want if w2 for f in w2} and str(w[0]) not in set(map(str, F)))):
                out.append(w[0])      # a size written in another way (e.g. H+1-1 for H): the same axis
            else:
                # the factors are there, but not in this order: a reshape cannot reorder axes
                if sorted(map(str, F)) == sorted(str(f) for w2 in want if w2 for f in w2) and len(set(map(str, F))) == len(F) and all(isinstance(f, str) for f in F):
                    self.alarm(mi, node, "reshape-permutes", f"reshape of {src} to {tuple(tgt)} takes the merged axes apart in another order than they were merged ({F}): entries of different samples / particles are mixed", qual)
                broken = True
                out.append(None)
        return tuple(out)

    def broadcast(self, shapes, mi, node, qual):
        known = [s_ for s_ in shapes if s_ is not None and self.is_shape(s_)]
        if len(known) >= 2:
            rank = max(len(s_) for s_ in known)
            for i in range(1, rank + 1):
                col = [s_[-i] for s_ in known if len(s_) >= i]
                prods = [d for d in col if isinstance(d, tuple) and d and d[0] == "x"]
                for a in prods:
                    for b in prods:
                        if a < b and a != b and sorted(map(str, a[1:])) == sorted(map(str, b[1:])) and len(set(map(str, a[1:]))) == len(a) - 1:
                            self.alarm(mi, node, "merged-axes-misaligned", f"operands of shapes {' , '.join(str(s_) for s_ in known)} are combined element by element, but one merged axis runs over {list(a[1:])} (major to minor) and the other over {list(b[1:])}: "
                                       f"entry k of one belongs to another ({', '.join(map(str, a[1:]))}) combination than entry k of the other", qual)
        return super().broadcast(shapes, mi, node, qual)


def _methods_as_functions(repo, attrs):
    """Plain methods of the class (through the repository-internal MRO) as function values of `self`, unless __init__ stored something under the name."""
    for cq in repo.mro(ENS):
        c = repo.cls(cq)
        for m in c.body:
            if isinstance(m, ast.FunctionDef) and not m.decorator_list and m.name not in attrs and not (m.name.startswith("__") and m.name != "__call__") and positional_params(m)[:1] == ["self"] \
                    and m.args.vararg is None and m.args.kwarg is None:
                attrs[m.name] = ("fn", Fn("method", m, c._module, ENS))


def _class_self(repo, se):
    """Interpret GaussianMLPEnsemble.__init__ to obtain the function values stored on self."""
    init = _m(repo, ENS, "__init__")
    _literal_axes(repo, init._module, init, ENS + ".__init__")
    attrs = {}
    locals_ = {n.name for n in ast.walk(init) if isinstance(n, ast.FunctionDef) and n is not init}
    fnenv = {nm: Fn("def", f, m, {}) for nm, (f, m) in _referenced_functions(repo, init).items() if nm not in locals_}
    p_e, _sh, p_f, p_o = _roles(init, 4, ENS + ".__init__", skip_self=True)     # recorded: n_ensemble, shared_head, n_features, n_outputs
    env = {p_e: ("dim", "E"), p_o: ("dim", "O"), p_f: ("dim", "F")}
    # the member network (first parameter of the local forward functions / lambdas) returns (mean, log-variance), one entry per output
    for x in ast.walk(init):
        if isinstance(x, (ast.FunctionDef, ast.Lambda)) and x is not init and x.args.args:
            se.module_tuple_out.setdefault(x.args.args[0].arg, ["O", "O"])
    se.analyse(init, init._module, ENS + ".__init__", env, fnenv, 0, attrs)
    # seeds for properties / parameters (documented: one bound per output)
    attrs.update({"min_log_var": ("O",), "max_log_var": ("O",), "ensemble": ("E",), "n_outputs": ("dim", "O"), "n_ensemble": ("dim", "E")})
    _methods_as_functions(repo, attrs)
    return attrs


_ARRAY_FACTS = ("shape", "ndim", "dtype", "size")


def r0_live_bounds(ck, repo):
    """The soft bounds are functions of trainable parameters: every forward path must read them when it runs.  A value of such a
    property that is evaluated in __init__ and stored (attribute, partial argument, default) is the bound at construction time."""
    cls = repo.cls(ENS)
    mi = cls._module
    props = {}
    for cq in repo.mro(ENS):
        for m in repo.cls(cq).body:
            if isinstance(m, ast.FunctionDef) and m.name not in props and any(dotted(d) in ("property", "functools.cached_property", "cached_property") for d in m.decorator_list):
                selfname = m.args.args[0].arg if m.args.args else "self"
                props[m.name] = {x.attr for x in ast.walk(m) if isinstance(x, ast.Attribute) and isinstance(x.value, ast.Name) and x.value.id == selfname}
    init = _m(repo, ENS, "__init__")
    imi = init._module
    # parameters created in __init__ (nnx.Param): properties that read them are trainable quantities
    trainable = set()
    for st in ast.walk(init):
        tgts = st.targets if isinstance(st, ast.Assign) else [st.target] if isinstance(st, ast.AnnAssign) and st.value is not None else []
        if len(tgts) == 1 and isinstance(tgts[0], ast.Attribute) and dotted(tgts[0].value) == "self" and isinstance(st.value, ast.Call) and isinstance(st.value.func, (ast.Name, ast.Attribute)) \
                and (repo.resolve_expr(imi, st.value.func) or "").endswith("nnx.Param"):
            trainable.add(tgts[0].attr)
    live = {p for p, reads in props.items() if reads & trainable}
    ck.need(live, f"{ENS}: no property over trainable parameters found (anchor vanished)")

    def eager_loads(node):
        """Attribute loads self.<live property> whose *value* is evaluated when ``node`` is (not inside a lambda / nested def body, not a mere
        read of the array's shape / dtype, which training does not change)."""
        out = []
        stack = [node]
        while stack:
            x = stack.pop()
            if isinstance(x, (ast.Lambda, ast.FunctionDef)) and x is not node:
                continue
            if isinstance(x, ast.Attribute) and x.attr in _ARRAY_FACTS and isinstance(x.value, ast.Attribute) and isinstance(x.value.value, ast.Name) and x.value.value.id == "self" and x.value.attr in live:
                continue
            if isinstance(x, ast.Attribute) and isinstance(x.value, ast.Name) and x.value.id == "self" and x.attr in live and isinstance(x.ctx, ast.Load):
                out.append(x)
            stack.extend(ast.iter_child_nodes(x))
        return out
    frozen = []
    for st in init.body:
        for sub in ast.walk(st):
            tgts = sub.targets if isinstance(sub, ast.Assign) else [sub.target] if isinstance(sub, ast.AnnAssign) and sub.value is not None else []
            if any(isinstance(t, ast.Attribute) and dotted(t.value) == "self" for t in tgts):
                frozen += [(sub, x) for x in eager_loads(sub.value)]
    ck.ob("R3-nll", ENS + ".__init__", "bounds-read-at-call-time", not frozen, f"properties over trainable parameters: {sorted(live)}",
          "" if not frozen else f"`{short(frozen[0][0], 80)}` stores the value of `self.{frozen[0][1].attr}` at construction: the forward paths keep using the initial bounds after the bound parameters are trained / restored", loc(imi, frozen[0][0]) if frozen else loc(imi, init))


_DIMS = {"E", "N", "O", "F"}


def _known_shape(s):
    return isinstance(s, tuple) and all(isinstance(d, int) or d in _DIMS for d in s)


def _pair(r):
    return r[1] if isinstance(r, tuple) and len(r) == 2 and r[0] == "tuple" and isinstance(r[1], list) and len(r[1]) == 2 else None


# (method, shapes of (x[, i]), tag, leading axes of the documented result).  The property quantifies over batches AND single input vectors: the
# member / aggregate predictions are interpreted for both ranks (the joint forward pass documents ranks 2 and 3 only and rejects anything else).
_CASES = [("__call__", [("N", "F")], "ensemble", ("E", "N")), ("__call__", [("E", "N", "F")], "per-member", ("E", "N")), ("aggregate", [("N", "F")], "agg", ("N",)), ("base_predict", [("N", "F"), ()], "member", ("N",)),
          ("base_distribution", [("N", "F"), ()], "dist", ("N",)),
          ("aggregate", [("F",)], "agg-vector", ()), ("base_predict", [("F",), ()], "member-vector", ()), ("base_distribution", [("F",), ()], "dist-vector", ())]


def _rejects_some_inputs(repo, fn):
    """The method validates its input (raise / assert / chex assertion): the shapes derived for a rank it may reject are no evidence."""
    for x in ast.walk(fn):
        if isinstance(x, (ast.Raise, ast.Assert)):
            return True
        if isinstance(x, ast.Call) and isinstance(x.func, (ast.Name, ast.Attribute)) and (repo.resolve_expr(fn._module, x.func) or "").startswith("chex.assert"):
            return True
    return False


def _interpretation(repo):
    """One symbolic interpretation of the prediction methods (all cases), shared by the rules: result shapes, alarms, and every application of a
    three-argument function that was met on the way (this is how the bounding function and its wrappers are found)."""
    c = getattr(repo, "_c17_interpretation", None)
    if c is None:
        se = _Shapes(repo, max_depth=5)
        se.merge_out = ["O", "O"]
        attrs = _class_self(repo, se)
        se.class_self[ENS] = attrs
        results = []
        for meth, shapes, tag, want_lead in _CASES:
            fn = _m(repo, ENS, meth)
            site = f"{ENS}.{meth}"
            _literal_axes(repo, fn._module, fn, site)
            argsh = dict(zip(_roles(fn, len(shapes), site, skip_self=True), shapes))      # recorded: (x) / (x, i)
            se.alarms = []
            r = se.analyse(fn, fn._module, site, dict(argsh), {}, 0, dict(attrs))
            results.append({"meth": meth, "shapes": shapes, "tag": tag, "want_lead": want_lead, "fn": fn, "site": site, "r": r, "alarms": list(se.alarms)})
        c = {"attrs": attrs, "results": results, "applications": list(se.applications)}
        try:
            repo._c17_interpretation = c
        except Exception:
            pass
    return c


def r1_shapes(ck, repo):
    interp = _interpretation(repo)
    attrs = interp["attrs"]
    vectors_ok = True
    for res in interp["results"]:
        meth, shapes, tag, want_lead, fn, site, r, alarms = (res[k] for k in ("meth", "shapes", "tag", "want_lead", "fn", "site", "r", "alarms"))
        vector = tag.endswith("-vector")
        dist = tag.startswith("dist")
        pr = _pair(r)
        want = want_lead + ("O",)
        what = "(loc, scale)" if dist else "(mean, variance)"
        # a single vector yields one mean and one variance per output: (O,) - or (1, O) when the method lifts the vector to a batch of one
        ok = pr is not None and pr[0] == pr[1] and (pr[1] == want or (vector and pr[1] == (1, "O")))
        # evidence = both shapes were derived completely and differ from the documented one; a shape the engine lost on the way is no evidence
        decided = pr is not None and _known_shape(pr[0]) and _known_shape(pr[1])
        if vector and not ok and _rejects_some_inputs(repo, fn):
            raise AnalysisError(f"{site}: validates its input; what it yields for a single input vector {shapes[0]} was not determined (unrecognised form)")
        if not ok and not decided and not alarms:
            raise AnalysisError(f"{site}: symbolic shapes of {what} could not be determined for x {shapes[0]} (got {pr if pr is not None else r}): restructured beyond what the shape engine follows")
        vectors_ok = vectors_ok and (ok or not vector)
        if ok or decided:
            key = (f"vector-input:{tag[:-7]}" if vector else "loc-scale-shapes" if dist else f"mean-var-shapes:{tag}")
            why = "" if ok else (f"loc and scale_diag must both be {want}" if dist else f"mean and variance must both have shape {want}: one variance per output dimension (a second output axis means every scalar was broadcast against the per-output bounds)")
            if vector and not ok:
                why = f"for a single input vector the {'scale' if dist else 'variance'} has shape {pr[1]} (mean {pr[0]}), not {want}: the wrapper around the bounding function strips the output axis of the (n_outputs,) log-variance, so every scalar is broadcast against all n_outputs bounds (row j holds output j's raw log-variance bounded by every output's bounds)"
            ck.ob("R1-one-variance-per-output", site, key, bool(ok), f"x {shapes[0]} -> {what} = ({pr[0]}, {pr[1]})", why, loc(fn._module, fn))
        for rel, line, kind, text, qual in alarms:
            ck.ob("R1-one-variance-per-output", site, f"shape:{kind}" + (":vector" if vector else ""), False, kind, text, f"{rel}:{line}")
    # ts_inf call site
    q = "rl_blox.algorithm.pets.ts_inf"
    fn = repo.func(q)
    _literal_axes(repo, fn._module, fn, q)
    p_key, p_idx, p_acts, p_obs = _roles(fn, 4, q)      # recorded: key, model_idx, acts, obs, dynamics_model
    se2 = _Shapes(repo, max_depth=5)
    se2.merge_out = ["O", "O"]
    se2.class_self[ENS] = attrs
    se2.accept_vector_queries = vectors_ok      # the member methods treat a single input vector like a batch of one: a rank-1 query is as good as a (1, F) one
    se2.analyse(fn, fn._module, q, {p_key: (), p_idx: (), p_acts: ("H", "A"), p_obs: ("O",)}, {}, 0, {})
    shared = [a for a in se2.alarms if a[2] == "shared-draw"]
    ck.ob("R1-one-variance-per-output", q, "independent-noise-per-dimension", not shared, "random draws in the particle propagation", "" if not shared else "; ".join(a[3] for a in shared)[:300] + " (the member distribution is a diagonal Gaussian with independent dimensions)", loc(fn._module, fn))
    bad = [a for a in se2.alarms if a[2] != "shared-draw"]
    # what the member query yields at this call site: the diagonal Gaussians that were constructed while the particle propagation was interpreted (in
    # the method, a helper method or a closure it returned) and the (mean, variance) pairs of the documented prediction methods
    seen = [(q_, a_, b_) for q_, a_, b_ in se2.distributions] + [(q_, _pair(r_)[0], _pair(r_)[1]) for q_, r_ in se2.member_calls if _pair(r_) is not None and q_.rsplit(".", 1)[1] in ("__call__", "aggregate", "base_predict")]
    seen = [(q_, a_, b_) for q_, a_, b_ in seen if _known_shape(a_) and _known_shape(b_)]
    if not bad and not seen:
        raise AnalysisError(f"{q}: the query of the member model was not followed to a (mean, variance) / (loc, scale) of known shape (unrecognised form)")
    mism = [(q_, a_, b_) for q_, a_, b_ in seen if a_ != b_ and max(a_.count("O"), b_.count("O")) >= 2]      # e.g. loc (O,) with scale (1, O) is the same distribution
    why_q = "; ".join(a[3] for a in bad)[:300] or "; ".join(f"{q_.rsplit('.', 1)[1]} yields shapes {a_} and {b_} for this query: not one variance per output dimension" for q_, a_, b_ in mism)[:300]
    ck.ob("R1-one-variance-per-output", q, "member-query-rank", not bad and not mism, f"base_distribution(hstack((obs (O,), act (A,)))...) -> {[(a_, b_) for _q, a_, b_ in seen][:2]}; alarms {[a[2] for a in bad]}",
          why_q, loc(fn._module, fn))
    # the two vmaps of ts_inf: read from the decorators (literal axes, see _literal_axes), outer = samples, inner = particles
    axes = []
    for d in fn.decorator_list:
        ax = _vmap_axes(repo, fn._module, d)
        if ax is not None:
            if ax[0] is None or (ax[1] is not None and ast.literal_eval(ax[1]) != 0):
                raise AnalysisError(f"{q}: vmap `{short(d, 60)}` without in_axes / with out_axes (unrecognised form)")
            v = ast.literal_eval(ax[0])
            axes.append(tuple(v) if isinstance(v, (tuple, list)) else v)
    if len(axes) != 2:
        raise AnalysisError(f"{q}: {len(axes)} vmap decorators found, the sample / particle mapping is applied elsewhere (unrecognised form)")
    ok = sorted(axes, key=repr) == sorted([(0, None, 0, None, None), (0, 0, None, None, None)], key=repr)
    ck.ob("R1-one-variance-per-output", q, "vmap-axes", ok, f"in_axes {axes}", "" if ok else "outer vmap over samples (keys, actions), inner over particles (keys, model indices)", loc(fn._module, fn))
    # the wrappers map the data only: a mapped bound pairs bound j with sample j.  (How many axes a wrapper strips is decided by the shapes above:
    # the bounding function is element-wise, so it may be applied directly - the (n_outputs,) bounds broadcast over the trailing axis at any rank - or
    # under vmaps; a wrapper of any depth that yields the documented shapes yields the documented values.)
    init = _m(repo, ENS, "__init__")
    bf, _bmi = _bounding_function(repo)
    apps = [a for a in interp["applications"] if a["fn"] is bf]
    maps_bound = lambda ax: (isinstance(ax, int) and not isinstance(ax, bool)) or (isinstance(ax, (tuple, list)) and any(a is not None for a in list(ax)[1:3]))
    ok = not any(maps_bound(ax) for a in apps for ax in a["chain"])
    forms = sorted({f"vmap depth {len(a['chain'])}, in_axes {a['chain']}" if a["chain"] else "applied directly (bounds broadcast over the trailing axis)" for a in apps}) or ["expanded in place (bounds broadcast over the trailing axis)"]
    ck.ob("R1-one-variance-per-output", ENS + ".__init__", "wrapper-depths", ok, f"`{bf.name}` is " + "; ".join(forms),
          "" if ok else "the wrappers map the leading axes of the log-variance; the bounds (one per output) are never mapped", loc(init._module, init))


def r2_r3_formulas(ck, repo, nf):
    site = ENS + ".aggregate"
    fn = _spelled(ck, repo, _m(repo, ENS, "aggregate"))
    mi = fn._module
    (px,) = _roles(fn, 1, site, skip_self=True)      # recorded: x
    env = {px: Poly.atom(px, {px}, {px})}
    got, _ret = _returned(nf, fn, mi, env, site, self_class=ENS)
    # the joint forward pass: the attribute that maps the member forward over the members with the input shared (in_axes (0, None)), whatever its name
    init0 = _m(repo, ENS, "__init__")
    shared = [st.targets[0].attr for st in ast.walk(init0) if isinstance(st, ast.Assign) and len(st.targets) == 1 and isinstance(st.targets[0], ast.Attribute) and dotted(st.targets[0].value) == "self"
              and (_vmap_axes(repo, init0._module, st.value) or (None,))[0] is not None and ShapeEngine.lit(_vmap_axes(repo, init0._module, st.value)[0], None) in ((0, None), [0, None])]
    F = f"self.{shared[0] if len(shared) == 1 else '_forward_ensemble'}(self.ensemble, x)"
    senv = {"x": env[px]}
    w0 = _spec(nf, repo, mi, f"jnp.mean({F}[0], axis=0)", senv, ENS)
    wv = _spec(nf, repo, mi, f"jnp.var({F}[0], axis=0)", senv, ENS)
    raw_lv = _spec(nf, repo, mi, f"{F}[1]", senv, ENS)
    ck.need(got.elems is not None and len(got.elems) == 2, f"{site}: must return (mean, variance) (unrecognised form)")
    init = _m(repo, ENS, "__init__")
    imi = init._module
    own = {t.attr for st in ast.walk(init) if isinstance(st, (ast.Assign, ast.AnnAssign)) for t in (st.targets if isinstance(st, ast.Assign) else [st.target]) if isinstance(t, ast.Attribute) and dotted(t.value) == "self"}
    BOUNDS = ("exp", "mean", "var", "min_log_var", "max_log_var", "axis", "softplus") + tuple(sorted(own))      # the wrappers are attributes of the object, whatever they are called
    ok0 = got.elems[0] == w0
    if not ok0 and (_unread(got.elems[0]) or not same_ingredients(got.elems[0], w0)):
        raise AnalysisError(f"{site}: mean `{got.elems[0].canon()[:110]}` (unrecognised form)")
    # variance = mean over members of exp(bounded log-variance) + variance over members of the means; the bounding function is
    # whatever the class applies to the raw log-variance (its form is R3), here only its position in the formula matters
    if _unread(got.elems[1]) or not same_ingredients(got.elems[1], wv + raw_lv, BOUNDS):
        raise AnalysisError(f"{site}: variance `{got.elems[1].canon()[:120]}` (unrecognised form)")
    rest = got.elems[1] - wv
    ok1, why1 = False, ""
    m_mean = nf.meta.get(rest.single_atom() or "", {})
    if m_mean.get("fn", "").split(".")[-1] == "mean" and m_mean.get("args") and m_mean.get("kws", {}).get("axis") is not None and m_mean["kws"]["axis"].canon() == "0":
        m_exp = nf.meta.get(m_mean["args"][0].single_atom() or "", {})
        if m_exp.get("fn", "").split(".")[-1] == "exp" and m_exp.get("args"):
            X = m_exp["args"][0]
            mx = nf.meta.get(X.single_atom() or "", {})
            if X == raw_lv:
                why1 = "the raw (unbounded) log-variance is exponentiated"
            elif mx and any(a_ == raw_lv for a_ in mx.get("args", [])):
                ok1 = True
            else:
                # the bounding written out in place (a method / helper that was expanded): it must be the documented two-stage soft bound
                wb = _spec(nf, repo, mi, f"self.min_log_var + nnx.softplus(self.max_log_var - nnx.softplus(self.max_log_var - {F}[1]) - self.min_log_var)", senv, ENS)
                if X == wb:
                    ok1 = True
                elif same_ingredients(X, wb):
                    why1 = f"the log-variance is bounded by `{X.canon()[:90]}`, not by min + softplus(max - softplus(max - lv) - min)"
                else:
                    raise AnalysisError(f"{site}: exponent `{X.canon()[:80]}` is not a bounded form of the members' log-variance (unrecognised form)")
        else:
            why1 = "the member variances are not exp(log-variance)"
    else:
        why1 = "the variance is not mean_0(exp(lv)) + var_0(mu)"
    ok = ok0 and ok1
    ck.ob("R2-aggregate", site, "law-of-total-variance", ok, f"({got.canon()[:170]}", "" if ok else f"must return (mean_0(mu), mean_0(exp(lv)) + var_0(mu)) over the member axis 0{': ' + why1 if why1 else ''}", loc(mi, fn))
    # soft bounding: the function that the wrappers map (found through the vmaps, not by its name)
    sl, imi = _bounding_function(repo)
    ssite = ENS + ".__init__.<locals>.safe_log_var"
    owner = getattr(sl, "_c17_owner", None)
    sl = _spelled(ck, repo, sl, imi)
    if owner is None:
        e2 = _env(sl)
        g2, _r2 = _returned(nf, sl, imi, e2, ssite)
        w2 = _spec(nf, repo, imi, "min_log_var + nnx.softplus(max_log_var - nnx.softplus(max_log_var - log_var) - min_log_var)", _spec_env(sl, ("log_var", "min_log_var", "max_log_var"), ssite))
    else:
        # method form: bound(self, log_var) reads the two bounds from the object - the same formula over self.min_log_var / self.max_log_var
        ssite = f"{owner}.{sl.name}"
        e2 = _spec_env(sl, ("log_var",), ssite, skip_self=True)
        g2, _r2 = _returned(nf, sl, imi, dict(e2), ssite, self_class=owner)
        w2 = _spec(nf, repo, imi, "self.min_log_var + nnx.softplus(self.max_log_var - nnx.softplus(self.max_log_var - log_var) - self.min_log_var)", e2, owner)
    _decide(ck, "R3-nll", ssite, "soft-bounds", g2, w2, f"{g2.canon()[:150]}", f"must be min + softplus(max - softplus(max - lv) - min): `{w2.canon()}`", loc(imi, sl))
    for attr, lo, hi in (("min_log_var", "-20.0", "0.0"), ("max_log_var", "-4.0", "5.0")):
        p = _spelled(ck, repo, _m(repo, ENS, attr))
        psite = f"{ENS}.{attr}"
        gp, _rp = _returned(nf, p, p._module, {}, psite, self_class=ENS)
        wp = _spec(nf, repo, repo.func(PE + "constrained_param")._module, f"constrained_param(self.raw_{attr}.value, {lo}, {hi})", {}, ENS)
        _decide(ck, "R3-nll", psite, "constrained", gp, wp, f"return {gp.canon()[:120]}", f"bound must be constrained_param(raw, {lo}, {hi}) (finite by construction)", loc(p._module, p), extra=("constrained_param",))
    for q, recorded, text, key, why in (
            (PE + "constrained_param", ("x", "min_val", "max_val"), "min_val + (max_val - min_val) * jax.nn.sigmoid(x)", "sigmoid-interval", "must be min + (max - min) * sigmoid(x)"),
            (PE + "gaussian_nll", ("mean_pred", "log_var_pred", "Y"), "jnp.mean(0.5 * (mean_pred - Y) ** 2 * jnp.exp(-log_var_pred)) + 0.5 * jnp.mean(log_var_pred)", "closed-form", "must be mean(0.5 (mu-y)^2 exp(-lv)) + 0.5 mean(lv)")):
        f = _spelled(ck, repo, repo.func(q))
        g, _r = _returned(nf, f, f._module, _env(f), q)
        w = _spec(nf, repo, f._module, text, _spec_env(f, recorded, q))
        g, w = _exp_merged(nf, g), _exp_merged(nf, w)
        g, sizes = _mean_of_axis_sum(nf, g, f)      # a sum over one axis under the overall mean: the element mean times the length of that axis
        _decide(ck, "R3-nll", q, key, g, w, g.canon()[:150], f"{why}: difference `{(g - w).canon()[:120]}`" + (f" ({', '.join(sorted(sizes))}: documented length of the axis that is summed before the mean is taken)" if sizes else ""), loc(f._module, f), extra=tuple(sizes))
    q = PE + "gaussian_ensemble_loss"
    f = _spelled(ck, repo, repo.func(q))
    nf2 = NF(repo, inline_depth=1, no_inline={PE + "gaussian_nll"})
    g, _r = _returned(nf2, f, f._module, _env(f), q)
    w = _spec(nf2, repo, f._module, "gaussian_nll(model(X)[0], model(X)[1], Y).sum() + 0.01 * (model.max_log_var.sum() - model.min_log_var.sum())", _spec_env(f, ("model", "X", "Y"), q))
    _decide(ck, "R3-nll", q, "nll-plus-boundary-penalty", g, w, g.canon()[:150], "must be sum(nll(mean, log_var, Y)) + 0.01*(sum(max_lv) - sum(min_lv))", loc(f._module, f))


def _deref(cfg, e, at, depth=0):
    """(expression, node where it is evaluated): a local name with one reaching plain assignment stands for the assigned expression."""
    while isinstance(e, ast.Name) and depth < 10:
        ds = cfg.defs_of(at, e.id)
        if len(ds) != 1 or ds[0].kind != "assign" or ds[0].value is None:
            break
        e, at, depth = ds[0].value, ds[0].node, depth + 1
    return e, at


def _array_op(repo, mi, e, names):
    """`recv.<op>(*args)` or `jnp.<op>(recv, *args)` for op in names -> (op, recv, args, keywords) else None."""
    if not isinstance(e, ast.Call) or not isinstance(e.func, ast.Attribute) or e.func.attr not in names or any(k.arg is None for k in e.keywords) or any(isinstance(a, ast.Starred) for a in e.args):
        return None
    kws = {k.arg: k.value for k in e.keywords}
    r = repo.resolve_expr(mi, e.func)
    if r and r.startswith(_NP):
        recv = e.args[0] if e.args else kws.pop("a", kws.pop("x", None))
        return (e.func.attr, recv, list(e.args[1:]), kws) if recv is not None else None
    return e.func.attr, e.func.value, list(e.args), kws


def _display(args, kws, *names):
    """Elements of a shape / axes argument given as one tuple / list, as separate arguments or under a keyword; None when it is not a display."""
    a = list(args)
    for n in names:
        if n in kws:
            a = a + [kws[n]]
    if len(a) == 1 and isinstance(a[0], (ast.Tuple, ast.List)):
        a = list(a[0].elts)
    if not a or any(isinstance(x, (ast.Starred, ast.Tuple, ast.List)) for x in a):
        return None
    return a


def _closed(cfg, e, at, matrices, depth=0):
    """Copy of a scalar expression with its local names replaced by what they stand for (see _deref); every name of the index matrix (the
    bootstrap matrix and its per-epoch permutations all have its shape) is written IDX, its row length IDX.shape[1]."""
    from ..expand import clone

    class T(ast.NodeTransformer):
        def visit_Name(self, n):
            if n.id in matrices:
                return ast.copy_location(ast.Name(id="IDX", ctx=ast.Load()), n)
            if depth < 8 and isinstance(n.ctx, ast.Load):
                v, at2 = _deref(cfg, n, at)
                if v is not n and not isinstance(v, ast.Name):
                    return _closed(cfg, v, at2, matrices, depth + 1)
                ds = cfg.defs_of(at2, v.id)
                if len(ds) == 1 and ds[0].kind == "unpack" and len(ds[0].path) == 1 and isinstance(ds[0].path[0], int) and ds[0].value is not None:      # a, b = t  ->  b is t[1]
                    return _closed(cfg, ast.copy_location(ast.Subscript(value=ds[0].value, slice=ast.Constant(value=ds[0].path[0]), ctx=ast.Load()), n), ds[0].node, matrices, depth + 1)
                return v if v.id not in matrices else ast.copy_location(ast.Name(id="IDX", ctx=ast.Load()), n)
            return n

        def visit_Subscript(self, n):
            self.generic_visit(n)
            if isinstance(n.value, ast.Attribute) and n.value.attr == "shape" and isinstance(n.value.value, ast.Name) and n.value.value.id == "IDX" \
                    and isinstance(n.slice, ast.UnaryOp) and isinstance(n.slice.op, ast.USub) and isinstance(n.slice.operand, ast.Constant) and n.slice.operand.value == 1:
                n.slice = ast.copy_location(ast.Constant(value=1), n.slice)      # the index matrix is (n_ensemble, n): its last axis is axis 1
            return n
    return ast.fix_missing_locations(T().visit(clone(e)))


def r4_bootstraps(ck, repo, nf):
    q = PE + "bootstrap"
    f = _spelled(ck, repo, repo.func(q))
    g, _r = _returned(nf, f, f._module, _env(f), q)
    senv = _spec_env(f, ("n_ensemble", "train_size", "n_samples", "key"), q)
    wants = [_spec(nf, repo, f._module, t, senv) for t in ("jax.random.choice(key, n_samples, shape=(n_ensemble, int(train_size * n_samples)), replace=True)", "jax.random.choice(key, n_samples, shape=(n_ensemble, int(train_size * n_samples)))")]      # replace=True is the default
    _decide(ck, "R4-bootstraps", q, "index-matrix", g, wants, g.canon(), f"must be {wants[0].canon()}: one row of indices (with replacement) per member", loc(f._module, f), extra=("replace",))
    q = PE + "train_ensemble"
    f = repo.func(q)
    mi = f._module
    cfg = nf.cfg_of(f)
    MODEL, OPT, TS, PX, PY, _NE, BS, _KEY = _roles(f, 8, q)      # recorded: model, optimizer, train_size, X, Y, n_epochs, batch_size, key
    env = _env(f)
    sc = Scope(cfg, mi, env, q)
    tef = repo.func(PE + "train_epoch")
    calls = [c for n in cfg.nodes if n.ast is not None and n.kind == "stmt" for c in ast.walk(n.ast) if isinstance(c, ast.Call) and isinstance(c.func, (ast.Name, ast.Attribute)) and repo.resolve_expr(mi, c.func) == PE + "train_epoch"]
    ck.need(len(calls) == 1, f"{q}: {len(calls)} train_epoch calls found (unrecognised form)")
    call = calls[0]
    at = cfg.node_of(call).id
    epochs = cfg.enclosing_loops(at)
    ck.need(epochs, f"{q}: epoch loop not found (unrecognised form)")
    ck.need(not any(isinstance(a, ast.Starred) for a in call.args) and not any(k.arg is None for k in call.keywords), f"{q}: train_epoch is called with star arguments (unrecognised form)")
    tb = bind_call(tef, call)
    tp = _roles(tef, 5, PE + "train_epoch")      # recorded: model, optimizer, X, Y, indices
    if any(tb.get(p) is None or isinstance(tb.get(p), list) for p in tp):
        raise AnalysisError(f"{q}: train_epoch call `{short(call, 80)}` does not bind {tp} (unrecognised form)")
    gota = [nf.poly(tb[p], sc, at) for p in tp[:4]]
    wanta = [env[MODEL], env[OPT], env[PX], env[PY]]
    ok_args = gota == wanta
    if not ok_args and any(_unread(g_) or not same_ingredients(g_, wanta[0] + wanta[1] + wanta[2] + wanta[3]) for g_ in gota):
        raise AnalysisError(f"{q}: train_epoch arguments `{[g_.canon()[:40] for g_ in gota]}` (unrecognised form)")
    ck.ob("R4-bootstraps", q, "train-epoch-arguments", ok_args, f"train_epoch({', '.join(g_.canon()[:40] for g_ in gota)}, ...)", "" if ok_args else "members must be trained on (X, Y) through the batched bootstrap indices", loc(mi, call))
    # batched indices: <matrix>.reshape(d0, d1, d2).transpose(p) read through local names: the member axis stays the leading reshape axis (never
    # merged with another axis), is moved to position 1, and the last axis has batch_size entries (the scanned axis 0 is the batch number)
    bv, bat = _deref(cfg, tb[tp[4]], at)
    btxt = short(bv, 100)
    tr = _array_op(repo, mi, bv, ("transpose", "permute_dims"))
    rs_e, rs_at = _deref(cfg, tr[1], bat) if tr else (bv, bat)
    rs = _array_op(repo, mi, rs_e, ("reshape",))
    resized = any(isinstance(x, ast.Call) and isinstance(x.func, (ast.Name, ast.Attribute)) and (repo.resolve_expr(mi, x.func) or dotted(x.func)).endswith("resize") for e_ in (bv, rs_e) for x in ast.walk(e_))
    if rs is None and not resized:
        raise AnalysisError(f"{q}: batching of the bootstrap indices `{btxt[:80]}` is not a reshape + transpose this check can read")
    src = rs[1] if rs else next(x.args[0] for e_ in (bv, rs_e) for x in ast.walk(e_) if isinstance(x, ast.Call) and isinstance(x.func, (ast.Name, ast.Attribute)) and (repo.resolve_expr(mi, x.func) or dotted(x.func)).endswith("resize") and x.args)
    # the per-epoch pipeline behind the reshaped matrix: permutation (one per epoch), at most one column truncation, copies through local names
    shuffles, truncs, matrices, unread, seen, guards_of = [], [], set(), [], set(), {}

    def walk(e, at_, depth=0, guards=()):
        if depth > 12:
            unread.append(e)
        elif isinstance(e, ast.IfExp):
            # `a if c else b`: the matrix is a when c holds, b otherwise (what is read below either arm runs under that outcome of c)
            walk(e.body, at_, depth + 1, guards + ((e.test, at_, True),))
            walk(e.orelse, at_, depth + 1, guards + ((e.test, at_, False),))
        elif isinstance(e, ast.Name):
            ds = cfg.defs_of(at_, e.id)
            matrices.add(e.id)
            if not ds or any(d.kind != "assign" or d.value is None for d in ds):
                unread.append(e)
            for d in ds:
                if (d.node, d.name) not in seen and d.kind == "assign" and d.value is not None:
                    seen.add((d.node, d.name))
                    walk(d.value, d.node, depth + 1, guards)
        elif isinstance(e, ast.Subscript):
            truncs.append((e, at_))
            guards_of[id(e)] = guards
            walk(e.value, at_, depth + 1, guards)
        elif isinstance(e, ast.Call) and isinstance(e.func, (ast.Name, ast.Attribute)) and repo.resolve_expr(mi, e.func) in ("jax.random.permutation", "jax.random.choice", "jax.random.shuffle", "numpy.random.permutation"):
            shuffles.append((e, at_, repo.resolve_expr(mi, e.func)))
        elif isinstance(e, ast.Call) and isinstance(e.func, (ast.Name, ast.Attribute)) and repo.resolve_expr(mi, e.func) in ("jax.numpy.asarray", "jax.numpy.array", "numpy.asarray", "jax.numpy.copy") and len(e.args) == 1 and not e.keywords:
            walk(e.args[0], at_, depth + 1, guards)
        else:
            unread.append(e)
    walk(src, rs_at)
    if unread or not shuffles:
        raise AnalysisError(f"{q}: the per-epoch index pipeline behind `{short(src, 40)}` contains `{short(unread[0], 50) if unread else 'no shuffle'}` (unrecognised form)")
    # permutation along axis 1 of the bootstrap matrix
    boot_names, bad, shown = set(), "", []
    for c_, n_, r_ in shuffles:
        shown.append(short(c_, 70))
        if any(isinstance(a, ast.Starred) for a in c_.args) or any(k.arg is None for k in c_.keywords):
            raise AnalysisError(f"{q}: `{short(c_, 60)}` (unrecognised form)")
        kw_ = {k.arg: k.value for k in c_.keywords}
        sig = ["key", "x", "axis", "independent"] if r_.endswith("permutation") else ["key", "a", "shape", "replace", "p", "axis"]
        b_ = {**dict(zip(sig, c_.args)), **kw_}
        x_ = b_.get("x" if r_.endswith("permutation") else "a")
        if not isinstance(x_, ast.Name):
            raise AnalysisError(f"{q}: `{short(c_, 60)}` does not shuffle a named index matrix (unrecognised form)")
        boot_names.add((x_.id, n_))
        if r_.endswith("choice"):
            rep = b_.get("replace")
            if rep is not None and not (isinstance(rep, ast.Constant) and rep.value is True):
                raise AnalysisError(f"{q}: `{short(c_, 60)}`: a draw that may be without replacement (unrecognised form)")
            bad = bad or "the epoch's indices are drawn with replacement from the member's row: an index can be visited several times per epoch"
            continue
        if not r_.endswith("permutation"):
            raise AnalysisError(f"{q}: `{short(c_, 60)}` (unrecognised form)")
        ax = nf.poly(b_["axis"], sc, n_).const_value() if b_.get("axis") is not None else 0
        if ax is None:
            raise AnalysisError(f"{q}: permutation axis `{short(b_['axis'], 30)}` is not a constant (unrecognised form)")
        if ax not in (1, -1):
            bad = bad or f"permutation along axis {ax} of the (member, sample) matrix exchanges the rows of the members instead of shuffling every member's own row"
    if not bad and len(shuffles) != 1:
        raise AnalysisError(f"{q}: {len(shuffles)} shuffles reach the batching `{shown[:2]}` (unrecognised form)")
    ck.ob("R4-bootstraps", q, "permutation-per-epoch", not bad, "; ".join(shown)[:160], bad and bad + " (each epoch must visit a permutation of every member's own bootstrap row: permutation(key, bootstrap_indices, axis=1))", loc(mi, shuffles[0][0]))
    ck.note("train_ensemble shuffles with the carried key (`shuffle_key` is unused): deterministic, not a C17 obligation")
    boot_defs = {}
    for nm, n_ in sorted(boot_names):      # the shuffled matrix, through copies, down to the statement that draws it
        e_, at_ = ast.Name(id=nm, ctx=ast.Load()), n_
        for _ in range(10):
            matrices.add(e_.id)
            ds = cfg.defs_of(at_, e_.id)
            if len(ds) == 1 and ds[0].kind == "assign" and isinstance(ds[0].value, ast.Name):
                e_, at_ = ds[0].value, ds[0].node
                continue
            for d in ds:
                boot_defs[(d.node, d.name)] = d
            break
    BSc = env[BS].canon()
    # reshape / transpose layout
    okm, whym = None, ""
    if rs is not None:
        dexp, d_at = _display(rs[2], rs[3], "shape", "newshape"), rs_at
        if dexp is not None and len(dexp) == 1 and isinstance(dexp[0], ast.Name):
            # the target shape held in a local name: read the display where it was built (its entries are evaluated there)
            dv, dn = _deref(cfg, dexp[0], rs_at)
            if isinstance(dv, (ast.Tuple, ast.List)) and not any(isinstance(x, (ast.Starred, ast.Tuple, ast.List)) for x in dv.elts):
                dexp, d_at = list(dv.elts), dn
        msc = Scope(cfg, mi, env, q)
        msc.opaque_names = set(matrices)
        member_forms = {nf.poly(parse_expr(f"{MODEL}.n_ensemble"), Scope(None, mi, env, q), None).canon()} | {t.format(m) for m in matrices for t in ("{}.shape[0]", "len({})")}

        def kind(e):
            c = nf.poly(e, msc, d_at).canon()
            return "member" if c in member_forms else "batch" if c == BSc else "rest" if c == "-1" else ("?", c)
        dims = [kind(e) for e in dexp] if dexp is not None else None
        if tr is not None:
            pexp = _display(tr[2], tr[3], "axes")
            try:
                perm = [ast.literal_eval(a) for a in pexp] if pexp is not None else None
            except Exception:
                perm = None
            if dims is not None and perm is not None and len(dims) == 3 and sorted(perm) == [0, 1, 2]:
                okm = dims[0] == "member" and perm[1] == 0 and dims[perm[2]] == "batch"
                if not okm and any(isinstance(d, tuple) for d in dims):
                    raise AnalysisError(f"{q}: reshape{tuple(d if isinstance(d, str) else d[1] for d in dims)} of the index matrix (unrecognised form)")
                if dims[0] != "member":
                    whym = f"the leading reshape axis is the `{dims[0]}` axis, not the member axis: bootstrap rows of different members are merged, members see each other's samples"
                elif not okm:
                    whym = f"after reshape{tuple(dims)} and transpose{tuple(perm)} the layout is not (batch number, member, batch_size)"
        elif dims and dims[0] != "member" and (dims[0] in ("rest", "batch") or "member" in dims[1:]):
            okm, whym = False, f"reshape{tuple(d if isinstance(d, str) else d[1] for d in dims)} of the (member, sample) index matrix does not keep the member axis leading: rows of different members are merged into one batch axis, members see each other's bootstrap samples"
    if okm is None and resized:
        # resize works on the *flattened* array: dropping the incomplete batch this way cuts every member row at the wrong offset
        okm, whym = False, "jnp.resize truncates the flattened (member, sample) matrix: unless the row length is a multiple of batch_size, the rows of members 1.. start inside the previous member's bootstrap sample"
    if okm is None:
        raise AnalysisError(f"{q}: batching of the bootstrap indices `{btxt[:80]}` is not a reshape + transpose this check can read")
    ck.ob("R4-bootstraps", q, "member-axis-preserved", okm, f"indices = {btxt}", whym, loc(mi, bv))
    # truncation to a multiple of batch_size: IDX[:, :up]
    penv = {BS: env[BS]}
    spec = lambda t: nf.poly(parse_expr(t.replace("B", BS)), Scope(None, mi, penv, q), None)
    r_txt = "(IDX.shape[1] % B)"
    ok_t, why = False, ""
    if rs is None:
        truncs, ok_t = [], None      # resize form: reported above, there is no column truncation to read
    elif len(truncs) > 1:
        raise AnalysisError(f"{q}: {len(truncs)} slicings of the index matrix `{[short(t_, 40) for t_, _ in truncs][:2]}` (unrecognised form)")
    elif not truncs:
        why = "no truncation: reshape(n_ensemble, batch_size, -1) fails or mixes rows when the bootstrap size is not a multiple of batch_size"
    else:
        v, tn = truncs[0]
        el = list(v.slice.elts) if isinstance(v.slice, ast.Tuple) else []
        rows_all = len(el) == 2 and ((isinstance(el[0], ast.Slice) and el[0].lower is None and el[0].upper is None and el[0].step is None) or (isinstance(el[0], ast.Constant) and el[0].value is Ellipsis))
        if not (rows_all and isinstance(el[1], ast.Slice) and el[1].step is None and el[1].upper is not None and (el[1].lower is None or (isinstance(el[1].lower, ast.Constant) and el[1].lower.value == 0))):
            raise AnalysisError(f"{q}: `{short(v, 60)}` is not a truncation of the columns `[:, :k]` (unrecognised form)")
        up = nf.poly(_closed(cfg, el[1].upper, tn, matrices), Scope(None, mi, penv, q), None)
        if up == spec(f"-{r_txt}"):
            tests = [(nf.poly(_closed(cfg, cfg.nodes[b_].ast.test, b_, matrices), Scope(None, mi, penv, q), None).canon(), lab_) for b_, lab_ in cfg.control_deps(tn) if cfg.nodes[b_].kind == "test" and isinstance(cfg.nodes[b_].ast, ast.If)]
            tests += [(nf.poly(_closed(cfg, t_, n_, matrices), Scope(None, mi, penv, q), None).canon(), lab_) for t_, n_, lab_ in guards_of.get(id(v), ())]      # conditional expressions around the slice
            nonzero = {spec(t.replace("r", r_txt)).canon() for t in ("r", "-r", "r != 0", "-r != 0", "r > 0", "r >= 1", "-r < 0", "-r <= -1", "bool(r)", "bool(-r)")}
            zero = {spec(t.replace("r", r_txt)).canon() for t in ("r == 0", "-r == 0", "not r", "not -r", "r <= 0", "r < 1", "-r >= 0")}
            if any((c_ in nonzero and lab_) or (c_ in zero and not lab_) for c_, lab_ in tests):
                ok_t = True
            elif tests:
                raise AnalysisError(f"{q}: the truncation `[:, :-r]` runs under `{tests[0][0][:60]}` (unrecognised form)")
            else:
                why = "`[:, :-r]` with r = n % batch_size is applied unconditionally: for r == 0 the slice is empty, the epoch has no batch and the members are not trained at all"
        elif up in (spec(f"IDX.shape[1] - {r_txt}"), spec("(IDX.shape[1] // B) * B")):
            ok_t = True
        elif _unread(up) or not same_ingredients(up, spec(f"IDX.shape[1] - {r_txt} + (IDX.shape[1] // B)")):
            raise AnalysisError(f"{q}: columns kept up to `{up.canon()[:80]}` (unrecognised form)")
        else:
            why = f"columns kept up to `{up.canon()[:80]}`: not the largest multiple of batch_size"
    if ok_t is not None:
        ck.ob("R4-bootstraps", q, "truncate-to-complete-batches", ok_t, f"{[short(t_, 60) for t_, _ in truncs]}", "" if ok_t else why, loc(mi, truncs[0][0]) if truncs else loc(mi, f))
    # the matrix that is shuffled is the bootstrap sample, drawn once before the epochs
    bd = list(boot_defs.values())
    bfn = repo.func(PE + "bootstrap")
    if len(bd) != 1 or bd[0].kind != "assign" or not isinstance(bd[0].value, ast.Call) or not isinstance(bd[0].value.func, (ast.Name, ast.Attribute)) or repo.resolve_expr(mi, bd[0].value.func) != PE + "bootstrap":
        raise AnalysisError(f"{q}: the shuffled matrix `{sorted(n for n, _ in boot_names)}` is not the result of one bootstrap(...) call (unrecognised form)")
    bb = bind_call(bfn, bd[0].value)
    bp = _roles(bfn, 3, PE + "bootstrap")      # recorded: n_ensemble, train_size, n_samples
    if any(bb.get(p_) is None or isinstance(bb.get(p_), list) for p_ in bp):
        raise AnalysisError(f"{q}: `{short(bd[0].value, 80)}` does not bind {bp} (unrecognised form)")
    gotb = [nf.poly(bb[p_], sc, bd[0].node) for p_ in bp]
    ssc = Scope(None, mi, env, q)
    wantb = [[nf.poly(parse_expr(f"{MODEL}.n_ensemble"), ssc, None)], [env[TS]], [nf.poly(parse_expr(t_.format(a_)), ssc, None) for a_ in (PX, PY) for t_ in ("len({})", "{}.shape[0]")]]
    okb = all(g_ in w_ for g_, w_ in zip(gotb, wantb))
    if not okb and any(_unread(g_) or not same_ingredients(g_, wantb[0][0] + wantb[1][0] + wantb[2][0] + wantb[2][1] + wantb[2][2]) for g_ in gotb):
        raise AnalysisError(f"{q}: bootstrap({', '.join(g_.canon()[:40] for g_ in gotb)}, ...) (unrecognised form)")
    once = not (set(epochs) & set(cfg.enclosing_loops(bd[0].node)))
    ok = okb and once
    ck.ob("R4-bootstraps", q, "bootstrap-once", ok, f"{bd[0].name} = {short(bd[0].value, 90)}", "" if ok else "the bootstrap sample of each member (n_ensemble rows of int(train_size * len(X)) indices) is drawn once, before the epochs", loc(mi, bd[0].value))
    # train_epoch scan body
    q = PE + "train_epoch"
    f = _spelled(ck, repo, repo.func(q))
    from .c05 import grad_sites
    from ..expand import load_known
    sites = grad_sites(repo, f, f._module)
    if len(sites) != 1:
        raise AnalysisError(f"{q}: {len(sites)} gradient applications (unrecognised idiom)")
    st_ = sites[0]
    body = getattr(st_["app"], "_parent", None)
    while body is not None and not isinstance(body, ast.FunctionDef):
        body = getattr(body, "_parent", None)
    if body is None or body is f:
        raise AnalysisError(f"{q}: the gradient step is not taken in a local scan body (unrecognised idiom)")
    bparams = _roles(body, 4, q + ".<locals>." + body.name)      # recorded: mod_opt, X, Y, batch
    bcfg = nf.cfg_of(body)
    benv = {p_: Poly.atom(p_, {p_}, {p_}) for p_ in param_names(body)}
    bsc2 = Scope(bcfg, f._module, benv, q)
    try:
        bat2 = bcfg.node_of(st_["app"]).id
    except KeyError:
        raise AnalysisError(f"{q}: gradient application not found in the scan body's flow graph")
    lossq = repo.resolve_expr(f._module, st_["loss"]) if isinstance(st_["loss"], (ast.Name, ast.Attribute)) else None
    if lossq != PE + "gaussian_ensemble_loss" and not (lossq and lossq in load_known() and repo.has(lossq)):
        raise AnalysisError(f"{q}: differentiated function `{short(st_['loss'], 50) if st_['loss'] is not None else None}` (unrecognised form)")
    Xp, Yp, Bp = bparams[1], bparams[2], bparams[3]
    ok = lossq == PE + "gaussian_ensemble_loss" and st_["argnums"] == [0]
    shown = f"{lossq.rsplit('.', 1)[-1]} differentiated w.r.t. {st_['argnums']}"
    if lossq == PE + "gaussian_ensemble_loss":
        lfn = repo.func(lossq)
        app = st_["app"]
        if any(isinstance(a, ast.Starred) for a in app.args) or any(k.arg is None for k in app.keywords):
            raise AnalysisError(f"{q}: `{short(app, 60)}` (unrecognised form)")
        lb = bind_call(lfn, app)
        lp = _roles(lfn, 3, lossq)      # recorded: model, X, Y
        if any(lb.get(p_) is None or isinstance(lb.get(p_), list) for p_ in lp[1:]):
            raise AnalysisError(f"{q}: `{short(app, 60)}` does not bind {lp[1:]} (unrecognised form)")
        a_ = [nf.poly(lb[p_], bsc2, bat2) for p_ in lp[1:]]
        w_ = [nf.poly(parse_expr(f"{p_}[{Bp}]"), Scope(None, f._module, benv, q), None) for p_ in (Xp, Yp)]
        okxy = a_ == w_
        if not okxy and any(_unread(g_) or not same_ingredients(g_, w_[0] + w_[1]) for g_ in a_):
            raise AnalysisError(f"{q}: the loss is evaluated on `{[g_.canon()[:40] for g_ in a_]}` (unrecognised form)")
        ok = ok and okxy
        shown = f"loss(model, {a_[0].canon()[:40]}, {a_[1].canon()[:40]}), batch of shape (n_ensemble, batch_size); differentiated w.r.t. {st_['argnums']}"
    ck.ob("R4-bootstraps", q, "member-batches", ok, shown, "" if ok else "each scan step must evaluate (and differentiate w.r.t. the model) the ensemble loss of member i on X[batch[i]], Y[batch[i]]", loc(f._module, body))
    # the scan runs over axis 0 of the index array only: in_axes read from the scan application (decorator or call wrapping the body)
    scans = [d for d in body.decorator_list if isinstance(d, ast.Call)] + [c for c in ast.walk(f) if isinstance(c, ast.Call) and c.args and isinstance(c.args[0], ast.Name) and c.args[0].id == body.name]
    scans = [c for c in scans if isinstance(c.func, (ast.Name, ast.Attribute)) and repo.resolve_expr(f._module, c.func) in ("flax.nnx.scan",)]
    ia = [k.value for c in scans for k in c.keywords if k.arg == "in_axes"]
    if len(scans) != 1 or len(ia) != 1 or not isinstance(ia[0], (ast.Tuple, ast.List)) or len(ia[0].elts) != 4:
        raise AnalysisError(f"{q}: the scan over the batches `{[short(c, 60) for c in scans][:1]}` (unrecognised form)")
    axes = []
    for x in ia[0].elts:
        if isinstance(x, ast.Constant) and (x.value is None or (isinstance(x.value, int) and not isinstance(x.value, bool))):
            axes.append(x.value)
        elif isinstance(x, (ast.Name, ast.Attribute)) and (repo.resolve_expr(f._module, x) or "").endswith("nnx.Carry"):
            axes.append("Carry")
        else:
            raise AnalysisError(f"{q}: scan axis `{short(x, 30)}` (unrecognised form)")
    ok = axes == ["Carry", None, None, 0]
    ck.ob("R4-bootstraps", q, "scan-over-batches", ok, f"in_axes={axes}", "" if ok else "the scan must run over the leading (batch-number) axis of the index array only", loc(f._module, body))


def r5_plans(ck, repo, nf):
    q = "rl_blox.algorithm.pets.evaluate_plans"
    f0 = repo.func(q)
    f = _spelled(ck, repo, f0)
    mi = f._module
    PA, PT, PR = _roles(f, 3, q)      # recorded: actions, trajectories, reward_model
    env = _env(f)
    senv = _spec_env(f, ("actions", "trajectories", "reward_model"), q)
    g, ret = _returned(nf, f, mi, env, q)
    w_act = _spec(nf, repo, mi, "jnp.broadcast_to(actions[:, jnp.newaxis], (actions.shape[:2][0], trajectories.shape[1], actions.shape[:2][1]) + actions.shape[2:])", senv)
    w_obs = _spec(nf, repo, mi, "trajectories[:, :, :-1]", senv)
    shown = g.canon()[:170]
    # reduce_2(reduce_1(reward_model(a, o), axis=k1), axis=k2): read layer by layer
    layers, cur = [], g
    for _ in range(2):
        m_ = nf.meta.get(cur.single_atom() or "", {})
        if m_.get("fn") not in ("sum", "mean") or not m_.get("args") or len(m_["args"]) != 1 or set(m_.get("kws", {})) - {"axis"}:
            break
        ax = m_["kws"]["axis"].const_value() if "axis" in m_.get("kws", {}) else "all"
        layers.append((m_["fn"], ax))
        cur = m_["args"][0]
    m_ = nf.meta.get(cur.single_atom() or "", {})
    if len(layers) != 2 or m_.get("fn") != env[PR].canon() or len(m_.get("args", [])) != 2 or m_.get("kws") or _unread(g) or any(ax is None for _f, ax in layers):
        raise AnalysisError(f"{q}: expected returns `{shown[:110]}` are not reduce(reduce(reward_model(actions, observations))) (unrecognised form)")
    (f1, a1), (f2, a2) = layers[1], layers[0]      # inner, outer
    # rewards are (n_samples, n_particles, plan_horizon): the horizon is axis 2 == -1, afterwards the particles are axis 1 == -1
    ok_red = f1 == "sum" and f2 == "mean" and a1 in (-1, 2) and a2 in (-1, 1)
    why = "" if ok_red else f"{f2}(axis={a2}) of {f1}(axis={a1}) of the rewards (n_samples, n_particles, plan_horizon)"
    got_act, got_obs = m_["args"]
    ok_act = got_act == w_act
    if not ok_act and not same_ingredients(got_act, w_act):
        raise AnalysisError(f"{q}: actions handed to the reward model `{got_act.canon()[:100]}` (unrecognised form)")
    ok_obs = got_obs == w_obs
    if not ok_obs and not same_ingredients(got_obs, w_obs):
        raise AnalysisError(f"{q}: observations handed to the reward model `{got_obs.canon()[:100]}` (unrecognised form)")
    why = why or ("" if ok_act else "the actions are not broadcast over the particle axis") or ("" if ok_obs else f"the observations are `{got_obs.canon()[:60]}`, not the states the actions are taken in (trajectories[:, :, :-1])")
    ok = ok_red and ok_act and ok_obs
    ck.ob("R5-plan-evaluation", q, "sum-horizon-mean-particles", ok, shown, "" if ok else f"must be mean_particles(sum_horizon(reward_model(broadcast actions, trajectories[:, :, :-1]))): {why}", loc(mi, f))


def r5_axes(ck, repo):
    """Which plan / particle each entry belongs to, followed through broadcast / reshape / tile / repeat (ordered merged axes): the actions and
    the observations handed to the reward model must be paired entry by entry, and the result has one expected return per plan."""
    q = "rl_blox.algorithm.pets.evaluate_plans"
    f0 = repo.func(q)
    PA, PT, PR = _roles(f0, 3, q)      # recorded: actions, trajectories, reward_model
    se = _Axes(repo)
    se.module_out = {}
    # the reward model is any function that combines its two arguments entry by entry over the leading axes
    r = se.analyse(f0, f0._module, q, {PA: ("S", "H", "A"), PT: ("S", "P", "H1", "O")}, {PR: Fn("lambda", ast.parse("lambda a, o: a[..., 0] + o[..., 0]", mode="eval").body, f0._module, {})}, 0, {})
    mixed = [a for a in se.alarms if a[2] in ("merged-axes-misaligned", "reshape-permutes")]
    for rel, line, kind, text, _qual in mixed:
        ck.ob("R5-plan-evaluation", q, f"axes:{kind}", False, kind, text + " (every particle of plan s must be rewarded for plan s's actions)", loc(f0._module, f0) if _qual.endswith("<lambda>") else f"{rel}:{line}")
    ok = r == ("S",)
    if not mixed and (r is None or not isinstance(r, tuple) or (r and r[0] in ("tuple", "dim", "dims", "fn")) or any(d is None or isinstance(d, tuple) for d in r)):
        raise AnalysisError(f"{q}: result shape {r} not inferred (unrecognised form)")
    if not mixed:
        ck.ob("R5-plan-evaluation", q, "one-return-per-plan", ok, f"actions (S,H,A), trajectories (S,P,H+1,O) -> {r}", "" if ok else "the result must have one expected return per candidate plan (S,)", loc(f0._module, f0))


def r6_pendulum(ck, repo, nf):
    q = "rl_blox.algorithm.pets_reward_models.pendulum_reward"
    f = _spelled(ck, repo, repo.func(q))
    mi = f._module
    g, _r = _returned(nf, f, mi, _env(f), q)
    g = _index_into_clip(nf, g)
    # the torque bound the code clips to (read from the clip in the returned value, wherever the constant lives)
    clips = [nf.meta[a] for a in g.atoms() if nf.meta.get(a, {}).get("fn", "").split(".")[-1] == "clip" and len(nf.meta[a].get("args", [])) == 3 and not nf.meta[a].get("kws")]
    bounds = sorted(a_.const_value() for a_ in clips[0]["args"] if a_.const_value() is not None) if len(clips) == 1 else []
    torque = bounds[1] if len(bounds) == 2 and bounds[0] == -bounds[1] else None
    MT = repr(float(torque)) if torque is not None else "2.0"
    # obs is (..., 3) = (cos, sin, theta_dot) and act is (..., 1) (asserted by the function): the components may be counted from either end
    senv = _spec_env(f, ("act", "obs"), q)
    want = [_index_into_clip(nf, _spec(nf, repo, mi, f"-(norm_angle(jnp.arccos(jnp.clip(obs[..., {c_}], -1.0, 1.0))) ** 2 + 0.1 * obs[..., {d_}] ** 2 + 0.001 * jnp.clip(act, -{MT}, {MT})[..., {u_}] ** 2)", senv))
            for c_ in (0, -3) for d_ in (2, -1) for u_ in (0, -1)]
    _decide(ck, "R6-pendulum", q, "cost-form", g, want, g.canon()[:170], f"differs from -(angle^2 + 0.1 thdot^2 + 0.001 u^2), u clipped to the torque limit, by `{(g - want[0]).canon()[:140]}`", loc(mi, f))
    path = "/venv/lib/python3.12/site-packages/gymnasium/envs/classic_control/pendulum.py"
    if not os.path.exists(path):
        ck.note("gymnasium source not found: R6 oracle cross-check skipped")
        return
    tree = ast.parse(open(path).read())
    gmi = ModuleInfo("gymnasium.envs.classic_control.pendulum", path, path, "", tree)
    gmi.imports["np"] = "numpy"
    costs = next((n.value for n in ast.walk(tree) if isinstance(n, ast.Assign) and dotted(n.targets[0]) == "costs"), None)
    an = next((n for n in tree.body if isinstance(n, ast.FunctionDef) and n.name == "angle_normalize"), None)
    mt = next((n.value for n in ast.walk(tree) if isinstance(n, ast.Assign) and dotted(n.targets[0]) == "self.max_torque"), None)
    if costs is None or an is None or mt is None:
        ck.note("gymnasium Pendulum source changed shape: R6 oracle cross-check skipped")
        return
    nfg = NF(repo, inline_calls=False)
    gc = nfg.poly(costs, Scope(None, gmi, {"th": Poly.atom("TH"), "thdot": Poly.atom("THDOT"), "u": Poly.atom("U")}), None)
    ours = nfg.poly(parse_expr("norm_angle(TH) ** 2 + 0.1 * THDOT**2 + 0.001 * (U**2)"), Scope(None, mi, {"TH": Poly.atom("TH"), "THDOT": Poly.atom("THDOT"), "U": Poly.atom("U")}), None)
    # same coefficient structure up to the name of the angle normaliser
    gtxt = gc.canon().replace("angle_normalize(TH)", "ANG")
    otxt = ours.canon().replace("rl_blox.algorithm.pets_reward_models.norm_angle(TH)", "ANG")
    ok = gtxt == otxt
    ck.ob("R6-pendulum", q, "coefficients-match-gymnasium", ok, f"gymnasium costs = {gtxt}; ours = {otxt}", "" if ok else "the reward model's cost coefficients differ from the environment's", path.split("site-packages/")[1])
    na = repo.func("rl_blox.algorithm.pets_reward_models.norm_angle")
    gp_, op_ = positional_params(an), positional_params(na)
    if len(gp_) != 1 or len(op_) != 1:
        raise AnalysisError("norm_angle / angle_normalize: expected one parameter (anchor changed)")
    try:
        p1 = nfg.return_poly_of(an, gmi, {gp_[0]: Poly.atom("X")}) if hasattr(nfg, "return_poly_of") else nfg.poly(next(n for n in ast.walk(an) if isinstance(n, ast.Return)).value, Scope(nfg.cfg_of(an), gmi, {gp_[0]: Poly.atom("X")}), nfg.cfg_of(an).node_of(next(n for n in ast.walk(an) if isinstance(n, ast.Return))).id)
        rn_ = next(n for n in ast.walk(na) if isinstance(n, ast.Return))
        p2 = nfg.poly(rn_.value, Scope(nfg.cfg_of(na), mi, {op_[0]: Poly.atom("X")}), nfg.cfg_of(na).node_of(rn_).id)
    except StopIteration:
        raise AnalysisError("norm_angle / angle_normalize: no return statement (anchor changed)")
    a1n, a2n = p1.canon(), p2.canon()
    if a1n != a2n and not same_ingredients(p2, p1, ("jax", "numpy", "jnp", "np")):
        raise AnalysisError(f"rl_blox.algorithm.pets_reward_models.norm_angle: `{a2n[:80]}` (unrecognised form)")
    ck.ob("R6-pendulum", "rl_blox.algorithm.pets_reward_models.norm_angle", "matches-angle-normalize", a1n == a2n, f"gymnasium {a1n}; ours {a2n}", "" if a1n == a2n else "angle normalisation differs from the environment's", loc(mi, na))
    if torque is None:
        ck.note("pendulum_reward: no symmetric torque clip with constant bounds was read (see cost-form): comparison with the environment's max_torque skipped")
        return
    try:
        gym_mt = float(ast.literal_eval(mt))
    except Exception:
        ck.note("gymnasium Pendulum max_torque is not a literal: R6 torque cross-check skipped")
        return
    ok = float(torque) == gym_mt
    ck.ob("R6-pendulum", q, "max-torque", ok, f"gymnasium max_torque = {ast.unparse(mt)}; ours = {float(torque)}", "" if ok else "the torque clip differs from the environment's", loc(mi, f))


def run(ck, repo: Repo, tier: str):
    nf = NF(repo, inline_depth=2)
    ck.guard(r0_live_bounds, ck, repo)
    ck.guard(r1_shapes, ck, repo)
    ck.guard(r2_r3_formulas, ck, repo, nf)
    ck.guard(r4_bootstraps, ck, repo, nf)
    ck.guard(r5_plans, ck, repo, nf)
    ck.guard(r5_axes, ck, repo)
    ck.guard(r6_pendulum, ck, repo, nf)


_E, _P, _R = "rl_blox/blox/probabilistic_ensemble.py", "rl_blox/algorithm/pets.py", "rl_blox/algorithm/pets_reward_models.py"
# The element-wise bounding function is bound to two attributes (member / whole ensemble); wrappers are re-introduced by the variants below.
_DOUBLE_WRAPPER = "        self._safe_log_var = nnx.vmap(\n            nnx.vmap(safe_log_var, in_axes=(0, None, None)),\n            in_axes=(0, None, None),\n        )\n"
_ALIAS_I, _ALIAS_E = "        self._safe_log_var_i = safe_log_var\n", "        self._safe_log_var = safe_log_var\n"
_LOCAL_BOUND = "        def safe_log_var(log_var, min_log_var, max_log_var):\n            log_var = max_log_var - nnx.softplus(max_log_var - log_var)\n            log_var = min_log_var + nnx.softplus(log_var - min_log_var)\n            return log_var\n"
_BOUND_CALL_E = "self._safe_log_var(\n            log_vars, self.min_log_var, self.max_log_var\n        )"
_BOUND_CALL_I = "self._safe_log_var_i(\n            log_var_i, self.min_log_var, self.max_log_var\n        )"
_CALL_DISPATCH = "        if x.ndim == 2:\n            means, log_vars = self._forward_ensemble(self.ensemble, x)\n        elif x.ndim == 3:\n            means, log_vars = self._forward_individual(self.ensemble, x)\n        else:\n            raise ValueError(f\"{x.shape=}\")\n"
_PLANS_BODY = "    n_samples, plan_horizon = actions.shape[:2]\n    action_shape = actions.shape[2:]\n    n_particles = trajectories.shape[1]\n\n    broadcasted_actions = jnp.broadcast_to(\n        actions[:, jnp.newaxis],\n        (n_samples, n_particles, plan_horizon) + action_shape,\n    )  # broadcast actions along particle axis\n    # TODO the reward model could be extended to include next observations\n    rewards = reward_model(broadcasted_actions, trajectories[:, :, :-1])\n    # sum along plan_horizon axis\n    returns = rewards.sum(axis=-1)\n"
MUTANTS = [
    # plan evaluation over one flat batch of rollouts: which (plan, particle) an entry belongs to is decided by how the axes were merged
    {"id": "c17-plans-flat-tiled-actions", "file": _P, "rule": "R5", "find": _PLANS_BODY, "replace": "    n_plans, horizon = actions.shape[:2]\n    n_part = trajectories.shape[1]\n    states = trajectories[:, :, :-1].reshape((n_plans * n_part, horizon) + trajectories.shape[3:])\n    controls = jnp.tile(actions, (n_part, 1, 1))\n    rewards = reward_model(controls, states)\n    returns = rewards.sum(axis=-1).reshape(n_plans, n_part)\n"},
    {"id": "c17-plans-flat-split-in-wrong-order", "file": _P, "rule": "R5", "find": _PLANS_BODY, "replace": "    n_plans, horizon = actions.shape[:2]\n    n_part = trajectories.shape[1]\n    states = trajectories[:, :, :-1].reshape((n_plans * n_part, horizon) + trajectories.shape[3:])\n    controls = jnp.repeat(actions, n_part, axis=0)\n    rewards = reward_model(controls, states)\n    returns = rewards.sum(axis=-1).reshape(n_part, n_plans).T\n"},
    # forms read since: `match` on the rank, prediction paths through helper methods / closures, a reshape target held in a local name
    {"id": "c17-call-match-swapped", "file": _E, "rule": "R1", "find": _CALL_DISPATCH, "replace": "        match x.ndim:\n            case 3:\n                means, log_vars = self._forward_ensemble(self.ensemble, x)\n            case 2:\n                means, log_vars = self._forward_individual(self.ensemble, x)\n            case _:\n                raise ValueError(f\"{x.shape=}\")\n"},
    {"id": "c17-closure-member-bound-vmapped", "file": _E, "rule": "R1-one-variance-per-output", "edits": [("        mean_i, log_var_i = base_model(x)\n        log_var_i = " + _BOUND_CALL_I + "\n        std_i = jnp.exp(0.5 * log_var_i)\n        return dist.MultivariateNormalDiag(loc=mean_i, scale_diag=std_i)",
                                                                                                           "        lo, hi = self.min_log_var, self.max_log_var\n\n        def member_distribution(inputs):\n            mu, raw = base_model(inputs)\n            bounded = jax.vmap(self._safe_log_var_i, in_axes=(0, None, None))(raw, lo, hi)\n            return dist.MultivariateNormalDiag(loc=mu, scale_diag=jnp.exp(0.5 * bounded))\n\n        return member_distribution(x)")]},
    {"id": "c17-named-shape-merges-members", "file": _E, "rule": "R4", "find": "        batched_indices = shuffled_indices.reshape(\n            model.n_ensemble, batch_size, -1\n        ).transpose([2, 0, 1])", "replace": "        layout = (batch_size, model.n_ensemble, -1)\n        batched_indices = shuffled_indices.reshape(layout).transpose([2, 1, 0])"},
    # single input vectors: a wrapper that strips the only (= output) axis of the member's (n_outputs,) log-variance -> (O, O)
    {"id": "c17-member-bound-vmapped", "file": _E, "rule": "R1-one-variance-per-output", "find": _ALIAS_I, "replace": "        self._safe_log_var_i = nnx.vmap(safe_log_var, in_axes=(0, None, None))\n"},
    {"id": "c17-ensemble-bound-double-vmapped", "file": _E, "rule": "R1-one-variance-per-output", "find": _ALIAS_E, "replace": _DOUBLE_WRAPPER},
    {"id": "c17-member-bound-vmapped-in-method", "file": _E, "rule": "R1-one-variance-per-output", "nth": 0, "find": "        log_var_i = " + _BOUND_CALL_I + "\n        return mean_i, jnp.exp(log_var_i)", "replace": "        log_var_i = jax.vmap(self._safe_log_var_i, in_axes=(0, None, None))(\n            log_var_i, self.min_log_var, self.max_log_var\n        )\n        return mean_i, jnp.exp(log_var_i)"},
    {"id": "c17-alias-maps-bounds", "file": _E, "rule": "R1", "find": _ALIAS_I, "replace": "        self._safe_log_var_i = nnx.vmap(safe_log_var, in_axes=(0, 0, 0))\n"},
    {"id": "c17-alias-bounds-frozen", "file": _E, "rule": "R3", "find": _ALIAS_I, "replace": "        self._upper_bound = self.max_log_var\n" + _ALIAS_I},
    {"id": "c17-tsinf-scalar-noise", "file": "rl_blox/algorithm/pets.py", "rule": "R1", "edits": [("        dist = dynamics_model.base_distribution(\n", "        mean, var = dynamics_model.base_predict(\n"), ("        delta_obs = dist.sample(seed=sampling_key)[0]", "        noise = jax.random.normal(sampling_key, dtype=mean.dtype)\n        delta_obs = mean[0] + jnp.sqrt(var[0]) * noise")]},
    {"id": "c17-resize-batches", "file": "rl_blox/blox/probabilistic_ensemble.py", "rule": "R4", "find": "        batched_indices = shuffled_indices.reshape(\n            model.n_ensemble, batch_size, -1\n        ).transpose([2, 0, 1])", "replace": "        batched_indices = jnp.resize(shuffled_indices, (model.n_ensemble, shuffled_indices.shape[1] // batch_size, batch_size)).transpose([1, 0, 2])"},
    {"id": "c17-base-predict-double-vmap", "file": _E, "rule": "R1", "nth": 0, "edits": [(_ALIAS_E, _DOUBLE_WRAPPER), ("        log_var_i = self._safe_log_var_i(\n            log_var_i, self.min_log_var, self.max_log_var\n        )\n        return mean_i, jnp.exp(log_var_i)", "        log_var_i = self._safe_log_var(\n            log_var_i, self.min_log_var, self.max_log_var\n        )\n        return mean_i, jnp.exp(log_var_i)")]},
    {"id": "c17-tsinf-vector-query", "file": _P, "rule": "R1", "find": "            jnp.hstack((obs, act))[jnp.newaxis], model_idx", "replace": "            jnp.hstack((obs, act)), model_idx"},
    {"id": "c17-aggregate-no-epistemic", "file": _E, "rule": "R2", "find": "        return mean, aleatoric_var + epistemic_var", "replace": "        return mean, aleatoric_var"},
    {"id": "c17-aggregate-mean-logvar", "file": _E, "rule": "R2", "find": "        aleatoric_var = jnp.mean(jnp.exp(log_vars), axis=0)", "replace": "        aleatoric_var = jnp.exp(jnp.mean(log_vars, axis=0))"},
    {"id": "c17-aggregate-axis", "file": _E, "rule": "R2", "find": "        epistemic_var = jnp.var(means, axis=0)", "replace": "        epistemic_var = jnp.var(means, axis=1)"},
    {"id": "c17-bounds-swapped", "file": _E, "rule": "R3", "find": "            log_var = min_log_var + nnx.softplus(log_var - min_log_var)", "replace": "            log_var = min_log_var - nnx.softplus(log_var - min_log_var)"},
    {"id": "c17-nll-no-half", "file": _E, "rule": "R3", "find": "    return jnp.mean(squared_errors * inv_var) + 0.5 * jnp.mean(log_var_pred)", "replace": "    return jnp.mean(squared_errors * inv_var) + jnp.mean(log_var_pred)"},
    {"id": "c17-nll-inv-var-sign", "file": _E, "rule": "R3", "find": "    inv_var = jnp.exp(-log_var_pred)", "replace": "    inv_var = jnp.exp(log_var_pred)"},
    {"id": "c17-loss-penalty-sign", "file": _E, "rule": "R3", "find": "    boundary_loss = model.max_log_var.sum() - model.min_log_var.sum()", "replace": "    boundary_loss = model.min_log_var.sum() - model.max_log_var.sum()"},
    {"id": "c17-bootstrap-shared-row", "file": _E, "rule": "R4", "find": "        shape=(n_ensemble, n_bootstrapped),", "replace": "        shape=(1, n_bootstrapped),"},
    {"id": "c17-choice-for-permutation", "file": _E, "rule": "R4", "find": "        shuffled_indices = jax.random.permutation(\n            key, bootstrap_indices, axis=1\n        )", "replace": "        shuffled_indices = jax.random.choice(\n            key, bootstrap_indices, shape=bootstrap_indices.shape[1:], axis=1\n        )"},
    {"id": "c17-shuffle-axis0", "file": _E, "rule": "R4", "find": "            key, bootstrap_indices, axis=1\n", "replace": "            key, bootstrap_indices, axis=0\n"},
    {"id": "c17-unguarded-truncation", "file": _E, "rule": "R4", "find": "        remaining = -(bootstrap_indices.shape[1] % batch_size)\n        if remaining:\n            shuffled_indices = shuffled_indices[:, :remaining]", "replace": "        remaining = bootstrap_indices.shape[1] % batch_size\n        shuffled_indices = shuffled_indices[:, :-remaining]"},
    {"id": "c17-reshape-merges-members", "file": _E, "rule": "R4", "find": "            model.n_ensemble, batch_size, -1\n        ).transpose([2, 0, 1])", "replace": "            -1, model.n_ensemble, batch_size\n        )"},
    {"id": "c17-plans-sum-particles", "file": _P, "rule": "R5", "find": "    returns = rewards.sum(axis=-1)\n    # mean along particle axis\n    expected_returns = returns.mean(axis=-1)", "replace": "    returns = rewards.mean(axis=-1)\n    # mean along particle axis\n    expected_returns = returns.sum(axis=-1)"},
    {"id": "c17-plans-shifted-trajectory", "file": _P, "rule": "R5", "find": "    rewards = reward_model(broadcasted_actions, trajectories[:, :, :-1])", "replace": "    rewards = reward_model(broadcasted_actions, trajectories[:, :, 1:])"},
    {"id": "c17-pendulum-coefficient", "file": _R, "rule": "R6", "find": "    costs = norm_angle(theta) ** 2 + 0.1 * theta_dot**2 + 0.001 * (act**2)", "replace": "    costs = norm_angle(theta) ** 2 + 0.1 * theta_dot**2 + 0.01 * (act**2)"},
    {"id": "c17-pendulum-torque", "file": _R, "rule": "R6", "find": "PENDULUM_MAX_TORQUE: float = 2.0", "replace": "PENDULUM_MAX_TORQUE: float = 1.0"},
    {"id": "c17-pendulum-no-clip", "file": _R, "rule": "R6", "find": "    act = jnp.clip(act, -PENDULUM_MAX_TORQUE, PENDULUM_MAX_TORQUE)[..., 0]", "replace": "    act = act[..., 0]"},
    {"id": "c17-bound-interval", "file": _E, "rule": "R3", "find": "        return constrained_param(self.raw_min_log_var.value, -20.0, 0.0)", "replace": "        return constrained_param(self.raw_min_log_var.value, -20.0, 10.0)"},
    {"id": "c17-base-distribution-double-vmap", "file": _E, "rule": "R1", "edits": [(_ALIAS_E, _DOUBLE_WRAPPER), ("        log_var_i = self._safe_log_var_i(\n            log_var_i, self.min_log_var, self.max_log_var\n        )\n        std_i", "        log_var_i = self._safe_log_var(\n            log_var_i, self.min_log_var, self.max_log_var\n        )\n        std_i")]},
    {"id": "c17-tsinf-model-index-per-sample", "file": _P, "rule": "R1", "find": "    in_axes=(0, None, 0, None, None),\n", "replace": "    in_axes=(0, 0, 0, None, None),\n"},
    {"id": "c17-train-epoch-swapped-data", "file": _E, "rule": "R4", "find": "            optimizer,\n            X,\n            Y,\n            batched_indices,\n", "replace": "            optimizer,\n            Y,\n            X,\n            batched_indices,\n"},
    {"id": "c17-transpose-member-last", "file": _E, "rule": "R4", "find": "        ).transpose([2, 0, 1])", "replace": "        ).transpose([2, 1, 0])"},
    {"id": "c17-truncation-count-not-columns", "file": _E, "rule": "R4", "find": "        remaining = -(bootstrap_indices.shape[1] % batch_size)\n        if remaining:\n            shuffled_indices = shuffled_indices[:, :remaining]", "replace": "        n_keep = bootstrap_indices.shape[1] // batch_size\n        shuffled_indices = shuffled_indices[:, :n_keep]"},
    {"id": "c17-no-truncation", "file": _E, "rule": "R4", "find": "        remaining = -(bootstrap_indices.shape[1] % batch_size)\n        if remaining:\n            shuffled_indices = shuffled_indices[:, :remaining]\n", "replace": ""},
    {"id": "c17-bootstrap-one-row", "file": _E, "rule": "R4", "find": "        model.n_ensemble, train_size, n_samples, bootstrap_key\n", "replace": "        1, train_size, n_samples, bootstrap_key\n"},
    {"id": "c17-bootstrap-per-epoch", "file": _E, "rule": "R4", "find": "        key, shuffle_key = jax.random.split(key, 2)\n        shuffled_indices", "replace": "        key, shuffle_key = jax.random.split(key, 2)\n        bootstrap_indices = bootstrap(\n            model.n_ensemble, train_size, n_samples, shuffle_key\n        )\n        shuffled_indices"},
    {"id": "c17-member0-batches", "file": _E, "rule": "R4", "find": "            model, X[batch], Y[batch]\n", "replace": "            model, X[batch[0]], Y[batch[0]]\n"},
    {"id": "c17-scan-member-axis", "file": _E, "rule": "R4", "find": "    @nnx.scan(in_axes=(nnx.Carry, None, None, 0), out_axes=(nnx.Carry, 0))", "replace": "    @nnx.scan(in_axes=(nnx.Carry, None, None, 1), out_axes=(nnx.Carry, 0))"},
    {"id": "c17-plans-sum-over-particles", "file": _P, "rule": "R5", "find": "    returns = rewards.sum(axis=-1)\n", "replace": "    returns = rewards.sum(axis=1)\n"},
    {"id": "c17-plans-actions-not-per-particle", "file": _P, "rule": "R5", "find": "        actions[:, jnp.newaxis],\n", "replace": "        actions[jnp.newaxis],\n"},
    {"id": "c17-aggregate-positional-wrong-axis", "file": _E, "rule": "R2", "find": "        epistemic_var = jnp.var(means, axis=0)", "replace": "        epistemic_var = jnp.var(means, 1)"},
    # forms read since round 2: the bound as a one-argument method of the object (mixin / base class), a conditional expression around the column
    # truncation, NamedTuple carriers between helper methods, expand_dims / starred unpacking of shapes
    {"id": "c17-bound-method-lower-sign", "file": _E, "rule": "R3", "all": True, "edits": [(_ALIAS_I, ""), (_ALIAS_E, ""), ("        # TODO move safe_log_var to nnx.Module\n" + _LOCAL_BOUND, ""),
                                                                                          ("    def aggregate(self, x: jnp.ndarray)", "    def _clamp(self, raw):\n        lo = self.min_log_var\n        hi = self.max_log_var\n        upper = hi - nnx.softplus(hi - raw)\n        return lo - nnx.softplus(upper - lo)\n\n    def aggregate(self, x: jnp.ndarray)"),
                                                                                          (_BOUND_CALL_E, "self._clamp(log_vars)"), (_BOUND_CALL_I, "self._clamp(log_var_i)")]},
    {"id": "c17-conditional-truncation-keeps-remainder", "file": _E, "rule": "R4", "find": "        remaining = -(bootstrap_indices.shape[1] % batch_size)\n        if remaining:\n            shuffled_indices = shuffled_indices[:, :remaining]\n", "replace": "        tail = bootstrap_indices.shape[1] % batch_size\n        shuffled_indices = shuffled_indices[:, :tail] if tail else shuffled_indices\n"},
    {"id": "c17-record-carrier-bound-vmapped", "file": _E, "rule": "R1-one-variance-per-output", "nth": 0, "edits": [("class GaussianMLPEnsemble(nnx.Module):\n", "class _Pred(NamedTuple):\n    mu: jnp.ndarray\n    lv: jnp.ndarray\n\n\nclass GaussianMLPEnsemble(nnx.Module):\n"),
                                                                                                             ("    def base_predict(self, x, i):", "    def _predict_member(self, inputs, k):\n        graphdef, state = nnx.split(self.ensemble)\n        net = nnx.merge(graphdef, jax.tree.map(lambda leaf: leaf[k], state))\n        mu, raw = net(inputs)\n        lv = jax.vmap(self._safe_log_var_i, in_axes=(0, None, None))(raw, self.min_log_var, self.max_log_var)\n        return _Pred(mu, lv)\n\n    def base_predict(self, x, i):"),
                                                                                                             ("        graphdef, state = nnx.split(self.ensemble)\n        state_i = jax.tree.map(lambda x: x[i], state)\n        base_model = nnx.merge(graphdef, state_i)\n        mean_i, log_var_i = base_model(x)\n        log_var_i = " + _BOUND_CALL_I + "\n        return mean_i, jnp.exp(log_var_i)", "        pred = self._predict_member(x, i)\n        return pred.mu, jnp.exp(pred.lv)")]},
    {"id": "c17-plans-expand-dims-plan-axis", "file": _P, "rule": "R5", "edits": [("    n_samples, plan_horizon = actions.shape[:2]\n    action_shape = actions.shape[2:]\n", "    n_samples, plan_horizon, *action_shape = actions.shape\n"), ("        actions[:, jnp.newaxis],\n        (n_samples, n_particles, plan_horizon) + action_shape,\n", "        jnp.expand_dims(actions, 0),\n        (n_samples, n_particles, plan_horizon, *action_shape),\n")]},
    # a sum over the output axis under the overall mean is the element mean times n_outputs
    {"id": "c17-nll-summed-over-outputs", "file": _E, "rule": "R3", "find": "    return jnp.mean(squared_errors * inv_var) + 0.5 * jnp.mean(log_var_pred)", "replace": "    per_sample = jnp.sum(squared_errors * inv_var + 0.5 * log_var_pred, axis=-1)\n    return jnp.mean(per_sample)"},
]
BENIGN = [
    # the member model is queried with the single input vector itself (the methods handle vectors): same distribution, one sample per dimension
    {"id": "c17-b-tsinf-vector-query-whole-sample", "file": _P, "edits": [("            jnp.hstack((obs, act))[jnp.newaxis], model_idx", "            jnp.hstack((obs, act)), model_idx"), ("        delta_obs = dist.sample(seed=sampling_key)[0]", "        delta_obs = dist.sample(seed=sampling_key)")]},
    {"id": "c17-b-plans-asserted-shapes", "file": _P, "edits": [("    rewards = reward_model(broadcasted_actions, trajectories[:, :, :-1])\n", "    rewards = reward_model(broadcasted_actions, trajectories[:, :, :-1])\n    chex.assert_shape(rewards, (n_samples, n_particles, plan_horizon))\n"), ("        (n_samples, n_particles, plan_horizon) + action_shape,\n", "        (n_samples, n_particles, plan_horizon, *action_shape),\n")]},
    {"id": "c17-b-call-match-on-rank", "file": _E, "find": _CALL_DISPATCH, "replace": "        match x.ndim:\n            case 3:\n                joint = self._forward_individual\n            case 2:\n                joint = self._forward_ensemble\n            case _:\n                raise ValueError(f\"{x.shape=}\")\n        means, log_vars = joint(self.ensemble, x)\n"},
    {"id": "c17-b-member-through-helper-and-closure", "file": _E, "edits": [("    def base_predict(self, x, i):", "    def _member(self, i):\n        graphdef, state = nnx.split(self.ensemble)\n        return nnx.merge(graphdef, jax.tree.map(lambda leaf: leaf[i], state))\n\n    def _member_log_var_fn(self, i):\n        net = self._member(i)\n        lo, hi = self.min_log_var, self.max_log_var\n\n        def run(inputs):\n            mu, raw = net(inputs)\n            return mu, self._safe_log_var_i(raw, lo, hi)\n\n        return run\n\n    def base_predict(self, x, i):"),
                                                                                   ("        graphdef, state = nnx.split(self.ensemble)\n        state_i = jax.tree.map(lambda x: x[i], state)\n        base_model = nnx.merge(graphdef, state_i)\n        mean_i, log_var_i = base_model(x)\n        log_var_i = " + _BOUND_CALL_I + "\n        return mean_i, jnp.exp(log_var_i)", "        mean_i, log_var_i = self._member_log_var_fn(i)(x)\n        return mean_i, jnp.exp(log_var_i)"),
                                                                                   ("        graphdef, state = nnx.split(self.ensemble)\n        state_i = jax.tree.map(lambda x: x[i], state)\n        base_model = nnx.merge(graphdef, state_i)\n        mean_i, log_var_i = base_model(x)\n        log_var_i = " + _BOUND_CALL_I + "\n        std_i", "        predict = self._member_log_var_fn(i)\n        mean_i, log_var_i = predict(x)\n        std_i")]},
    {"id": "c17-b-named-batches-shape", "file": _E, "edits": [("    loss = jnp.inf\n    for t in range(1, n_epochs + 1):", "    layout = [model.n_ensemble, batch_size, -1]\n    loss = jnp.inf\n    for t in range(1, n_epochs + 1):"), ("        batched_indices = shuffled_indices.reshape(\n            model.n_ensemble, batch_size, -1\n        ).transpose([2, 0, 1])", "        batched_indices = jnp.transpose(shuffled_indices.reshape(layout), (2, 0, 1))")]},
    # a lifted vector: the member methods accept a single input vector by making it a batch of one (shapes (1, O))
    {"id": "c17-b-vector-lifted-to-batch", "file": _E, "nth": 0, "find": "        mean_i, log_var_i = base_model(x)\n        log_var_i = " + _BOUND_CALL_I + "\n        return mean_i, jnp.exp(log_var_i)", "replace": "        if x.ndim == 1:\n            x = x[jnp.newaxis]\n        mean_i, log_var_i = base_model(x)\n        log_var_i = " + _BOUND_CALL_I + "\n        return mean_i, jnp.exp(log_var_i)"},
    # the whole-ensemble bound mapped over the member axis only: the inner function still sees (.., O) against the (O,) bounds for batches and vectors
    {"id": "c17-b-ensemble-bound-vmapped-over-members", "file": _E, "find": _ALIAS_E, "replace": "        self._safe_log_var = nnx.vmap(safe_log_var, in_axes=(0, None, None))\n"},
    {"id": "c17-b-alias-bound-renamed", "file": _E, "edits": [(_LOCAL_BOUND, "        def _soft_clamp(lv, lo, hi):\n            upper = hi - jax.nn.softplus(hi - lv)\n            return lo + jax.nn.softplus(upper - lo)\n"), (_ALIAS_I, "        self._safe_log_var_i = _soft_clamp\n"), (_ALIAS_E, "        self._safe_log_var = _soft_clamp\n")]},
    # the bound as a module-level function that a helper method applies to the live bounds
    {"id": "c17-b-alias-bound-as-method", "file": _E, "all": True, "edits": [(_ALIAS_I, ""), (_ALIAS_E, ""), ("        # TODO move safe_log_var to nnx.Module\n" + _LOCAL_BOUND, ""),
                                                                            ("class GaussianMLPEnsemble(nnx.Module):\n", "def _soft_clamp(lv, lo, hi):\n    upper = hi - nnx.softplus(hi - lv)\n    return lo + nnx.softplus(upper - lo)\n\n\nclass GaussianMLPEnsemble(nnx.Module):\n"),
                                                                            ("    def aggregate(self, x: jnp.ndarray)", "    def _bounded(self, raw_log_var):\n        return _soft_clamp(raw_log_var, self.min_log_var, self.max_log_var)\n\n    def aggregate(self, x: jnp.ndarray)"),
                                                                            (_BOUND_CALL_E, "self._bounded(log_vars)"), (_BOUND_CALL_I, "self._bounded(log_var_i)")]},
    {"id": "c17-b-tsinf-reparam", "file": "rl_blox/algorithm/pets.py", "edits": [("        dist = dynamics_model.base_distribution(\n", "        mean, var = dynamics_model.base_predict(\n"), ("        delta_obs = dist.sample(seed=sampling_key)[0]", "        noise = jax.random.normal(sampling_key, mean[0].shape, dtype=mean.dtype)\n        delta_obs = mean[0] + jnp.sqrt(var[0]) * noise")]},
    # bounding the (E,N,O) ensemble output with the single-vmap wrapper broadcasts (N,O) against (O,): same values, same shapes
    {"id": "c17-b-call-single-vmap", "file": _E, "nth": 0, "find": "        log_vars = self._safe_log_var(\n            log_vars, self.min_log_var, self.max_log_var\n        )\n\n        return means, log_vars", "replace": "        log_vars = self._safe_log_var_i(\n            log_vars, self.min_log_var, self.max_log_var\n        )\n\n        return means, log_vars"},
    {"id": "c17-b-aggregate-commuted", "file": _E, "find": "        return mean, aleatoric_var + epistemic_var", "replace": "        return mean, epistemic_var + aleatoric_var"},
    {"id": "c17-b-nll-rewrite", "file": _E, "find": "    return jnp.mean(squared_errors * inv_var) + 0.5 * jnp.mean(log_var_pred)", "replace": "    return 0.5 * jnp.mean(log_var_pred) + jnp.mean(inv_var * squared_errors)"},
    {"id": "c17-b-truncation-positive", "file": _E, "find": "        remaining = -(bootstrap_indices.shape[1] % batch_size)\n        if remaining:\n            shuffled_indices = shuffled_indices[:, :remaining]", "replace": "        n_keep = bootstrap_indices.shape[1] - bootstrap_indices.shape[1] % batch_size\n        shuffled_indices = shuffled_indices[:, :n_keep]"},
    # renamed locals / parameters, keyword and positional spellings, equivalent axis numbers, moved definitions: same values
    {"id": "c17-b-locals-renamed", "file": _E, "edits": [("    bootstrap_indices = bootstrap(", "    boot_idx = bootstrap("), ("            key, bootstrap_indices, axis=1\n", "            key, boot_idx, axis=-1\n"), ("        remaining = -(bootstrap_indices.shape[1] % batch_size)", "        remaining = -(boot_idx.shape[-1] % batch_size)"),
                                                         ("        shuffled_indices = jax.random.permutation(", "        perm_idx = jax.random.permutation("), ("            shuffled_indices = shuffled_indices[:, :remaining]", "            perm_idx = perm_idx[..., :remaining]"), ("        batched_indices = shuffled_indices.reshape(\n            model.n_ensemble, batch_size, -1\n        ).transpose([2, 0, 1])", "        grouped = perm_idx.reshape(\n            perm_idx.shape[0], batch_size, -1\n        )\n        batched_indices = jnp.transpose(grouped, axes=(2, 0, 1))")]},
    {"id": "c17-b-truncation-in-one-expression", "file": _E, "find": "        shuffled_indices = jax.random.permutation(\n            key, bootstrap_indices, axis=1\n        )\n        remaining = -(bootstrap_indices.shape[1] % batch_size)\n        if remaining:\n            shuffled_indices = shuffled_indices[:, :remaining]\n", "replace": "        n_keep = (bootstrap_indices.shape[1] // batch_size) * batch_size\n        shuffled_indices = jax.random.permutation(\n            key, x=bootstrap_indices, axis=1\n        )[:, :n_keep]\n"},
    {"id": "c17-b-train-ensemble-renamed", "file": _E, "edits": [("    n_epochs: int,\n    batch_size: int,\n    key: jnp.ndarray,\n    verbose: int = 0,\n) -> jnp.ndarray:\n    \"\"\"Train ensemble.", "    n_epochs: int,\n    bs: int,\n    key: jnp.ndarray,\n    verbose: int = 0,\n) -> jnp.ndarray:\n    \"\"\"Train ensemble."), ("    assert batch_size > 0\n", "    assert bs > 0\n"), ("    n_samples = len(X)\n", "    n_samples = X.shape[0]\n"), ("        remaining = -(bootstrap_indices.shape[1] % batch_size)\n        if remaining:", "        remaining = -(bootstrap_indices.shape[1] % bs)\n        if remaining != 0:"),
                                                                 ("            model.n_ensemble, batch_size, -1\n        ).transpose([2, 0, 1])", "            model.n_ensemble, bs, -1\n        ).transpose([2, 0, 1])"), ("        loss = train_epoch(\n            model,\n            optimizer,\n            X,\n            Y,\n            batched_indices,\n        )", "        loss = train_epoch(model=model, optimizer=optimizer, X=X, Y=Y, indices=batched_indices)")]},
    {"id": "c17-b-scan-applied-as-call", "file": _E, "edits": [("    @nnx.scan(in_axes=(nnx.Carry, None, None, 0), out_axes=(nnx.Carry, 0))\n    def batch_update(mod_opt, X, Y, batch):\n        model, optimizer = mod_opt\n        loss, grads = nnx.value_and_grad(gaussian_ensemble_loss, argnums=0)(\n            model, X[batch], Y[batch]\n        )", "    def batch_update(carry, feats, targs, idx):\n        model, optimizer = carry\n        loss_and_grad = nnx.value_and_grad(gaussian_ensemble_loss)\n        loss, grads = loss_and_grad(model, feats[idx, :], targs[idx, :])"),
                                                               ("    (model, optimizer), loss = batch_update((model, optimizer), X, Y, indices)", "    scanned = nnx.scan(batch_update, in_axes=[nnx.Carry, None, None, 0], out_axes=(nnx.Carry, 0))\n    (model, optimizer), loss = scanned((model, optimizer), X, Y, indices)")]},
    {"id": "c17-b-positional-axes", "file": _E, "edits": [("        mean = jnp.mean(means, axis=0)\n        aleatoric_var = jnp.mean(jnp.exp(log_vars), axis=0)\n        epistemic_var = jnp.var(means, axis=0)", "        mean = means.mean(0)\n        aleatoric_var = jnp.mean(jnp.exp(log_vars), 0)\n        epistemic_var = jnp.var(means, 0)")]},
    {"id": "c17-b-plans-absolute-axes", "file": _P, "edits": [("        actions[:, jnp.newaxis],\n", "        actions[:, None],\n"), ("    rewards = reward_model(broadcasted_actions, trajectories[:, :, :-1])", "    rewards = reward_model(broadcasted_actions, trajectories[:, :, :-1, ...])"), ("    returns = rewards.sum(axis=-1)\n    # mean along particle axis\n    expected_returns = returns.mean(axis=-1)", "    returns = jnp.sum(rewards, 2)\n    # mean along particle axis\n    expected_returns = returns.mean(1)")]},
    {"id": "c17-b-formulas-renamed-parameters", "file": _E, "edits": [("    x: jnp.ndarray, min_val: ArrayLike, max_val: ArrayLike\n) -> jnp.ndarray:\n    \"\"\"Compute sigmoid-constrained parameter.\"\"\"\n    return min_val + (max_val - min_val) * jax.nn.sigmoid(x)", "    raw: jnp.ndarray, lo: ArrayLike, hi: ArrayLike\n) -> jnp.ndarray:\n    \"\"\"Compute sigmoid-constrained parameter.\"\"\"\n    return lo + (hi - lo) * jax.nn.sigmoid(raw)"),
                                                                      ("        return constrained_param(self.raw_min_log_var.value, -20.0, 0.0)", "        lo, hi = -20.0, 0.0\n        return constrained_param(self.raw_min_log_var.value, lo=lo, hi=hi)"),
                                                                      ("    mean, log_var = model(X)\n    boundary_loss = model.max_log_var.sum() - model.min_log_var.sum()\n    return gaussian_nll(mean, log_var, Y).sum() + 0.01 * boundary_loss", "    pred = model(X)\n    boundary_loss = jnp.sum(model.max_log_var - model.min_log_var)\n    return jnp.sum(gaussian_nll(mean_pred=pred[0], log_var_pred=pred[1], Y=Y)) + 0.01 * boundary_loss"),
                                                                      ("    inv_var = jnp.exp(-log_var_pred)  # exp(-log_var) == 1.0 / exp(log_var)", "    inv_var = 1.0 / jnp.exp(log_var_pred)")]},
    {"id": "c17-b-bounds-in-mixin", "file": _E, "edits": [("class GaussianMLPEnsemble(nnx.Module):\n", "class _BoundsMixin:\n    @property\n    def min_log_var(self):\n        return constrained_param(self.raw_min_log_var.value, -20.0, 0.0)\n\n    @property\n    def max_log_var(self):\n        return constrained_param(self.raw_max_log_var.value, -4.0, 5.0)\n\n\nclass GaussianMLPEnsemble(_BoundsMixin, nnx.Module):\n"), ("    @property\n    def min_log_var(self):\n        return constrained_param(self.raw_min_log_var.value, -20.0, 0.0)\n\n    @property\n    def max_log_var(self):\n        return constrained_param(self.raw_max_log_var.value, -4.0, 5.0)\n\n    def __call__", "    def __call__")]},
    {"id": "c17-b-methods-renamed-input", "file": _E, "edits": [("    def aggregate(self, x: jnp.ndarray)", "    def aggregate(self, inputs: jnp.ndarray)"), ("        means, log_vars = self._forward_ensemble(self.ensemble, x)\n\n        log_vars", "        means, log_vars = self._forward_ensemble(self.ensemble, inputs)\n\n        log_vars")]},
    {"id": "c17-b-pendulum-clip-after-index", "file": _R, "edits": [("PENDULUM_MAX_TORQUE: float = 2.0", "MAX_TORQUE: float = 2.0"), ("def pendulum_reward(act: ArrayLike, obs: ArrayLike) -> jnp.ndarray:", "def pendulum_reward(action: ArrayLike, observation: ArrayLike) -> jnp.ndarray:"), ("    act = jnp.asarray(act)  # (..., 1): torque\n    obs = jnp.asarray(obs)  # (..., 3): cos(theta), sin(theta), theta_dot", "    act = jnp.asarray(action)  # (..., 1): torque\n    obs = jnp.asarray(observation)  # (..., 3): cos(theta), sin(theta), theta_dot"),
                                                                    ("    act = jnp.clip(act, -PENDULUM_MAX_TORQUE, PENDULUM_MAX_TORQUE)[..., 0]", "    act = jnp.clip(act[..., 0], min=-MAX_TORQUE, max=MAX_TORQUE)")]},
    {"id": "c17-b-tsinf-axes-as-lists", "file": _P, "edits": [("    in_axes=(0, None, 0, None, None),\n", "    in_axes=[0, None, 0, None, None],\n"), ("    in_axes=(0, 0, None, None, None),\n", "    in_axes=[0, 0, None, None, None],\n")]},
    {"id": "c17-b-bounding-function-at-module-level", "file": _E, "all": True, "edits": [("class GaussianMLPEnsemble(nnx.Module):\n", "def safe_log_var(log_var, min_log_var, max_log_var):\n    log_var = max_log_var - nnx.softplus(max_log_var - log_var)\n    log_var = min_log_var + nnx.softplus(log_var - min_log_var)\n    return log_var\n\n\nclass GaussianMLPEnsemble(nnx.Module):\n"),
                                                                                         ("        # TODO move safe_log_var to nnx.Module\n        def safe_log_var(log_var, min_log_var, max_log_var):\n            log_var = max_log_var - nnx.softplus(max_log_var - log_var)\n            log_var = min_log_var + nnx.softplus(log_var - min_log_var)\n            return log_var\n\n", ""),
                                                                                         ("self._safe_log_var_i", "self._bound_member"), ("self._safe_log_var", "self._bound_ensemble")]},
    {"id": "c17-b-pendulum-components-from-the-end", "file": _R, "edits": [("    theta_dot = obs[..., 2]", "    theta_dot = obs[..., -1]"), ("PENDULUM_MAX_TORQUE)[..., 0]", "PENDULUM_MAX_TORQUE)[..., -1]")]},
    {"id": "c17-b-bound-as-method-of-object", "file": _E, "all": True, "edits": [(_ALIAS_I, ""), (_ALIAS_E, ""), ("        # TODO move safe_log_var to nnx.Module\n" + _LOCAL_BOUND, ""),
                                                                                ("    def aggregate(self, x: jnp.ndarray)", "    def _clamp(self, raw):\n        lo = self.min_log_var\n        hi = self.max_log_var\n        upper = hi - nnx.softplus(hi - raw)\n        return lo + nnx.softplus(upper - lo)\n\n    def aggregate(self, x: jnp.ndarray)"),
                                                                                (_BOUND_CALL_E, "self._clamp(log_vars)"), (_BOUND_CALL_I, "self._clamp(log_var_i)")]},
    {"id": "c17-b-conditional-truncation", "file": _E, "find": "        remaining = -(bootstrap_indices.shape[1] % batch_size)\n        if remaining:\n            shuffled_indices = shuffled_indices[:, :remaining]\n", "replace": "        tail = bootstrap_indices.shape[1] % batch_size\n        shuffled_indices = shuffled_indices[:, :-tail] if tail else shuffled_indices\n"},
    {"id": "c17-b-conditional-truncation-named-arms", "file": _E, "find": "        remaining = -(bootstrap_indices.shape[1] % batch_size)\n        if remaining:\n            shuffled_indices = shuffled_indices[:, :remaining]\n", "replace": "        tail = bootstrap_indices.shape[-1] % batch_size\n        whole = shuffled_indices\n        cut = whole[:, : whole.shape[1] - tail]\n        shuffled_indices = whole if tail == 0 else cut\n"},
    {"id": "c17-b-record-carrier", "file": _E, "nth": 0, "edits": [("class GaussianMLPEnsemble(nnx.Module):\n", "class _Pred(NamedTuple):\n    mu: jnp.ndarray\n    lv: jnp.ndarray\n\n\nclass GaussianMLPEnsemble(nnx.Module):\n"),
                                                                   ("    def base_predict(self, x, i):", "    def _predict_member(self, inputs, k):\n        graphdef, state = nnx.split(self.ensemble)\n        net = nnx.merge(graphdef, jax.tree.map(lambda leaf: leaf[k], state))\n        mu, raw = net(inputs)\n        return _Pred(lv=self._safe_log_var_i(raw, self.min_log_var, self.max_log_var), mu=mu)\n\n    def base_predict(self, x, i):"),
                                                                   ("        graphdef, state = nnx.split(self.ensemble)\n        state_i = jax.tree.map(lambda x: x[i], state)\n        base_model = nnx.merge(graphdef, state_i)\n        mean_i, log_var_i = base_model(x)\n        log_var_i = " + _BOUND_CALL_I + "\n        return mean_i, jnp.exp(log_var_i)", "        pred = self._predict_member(x, i)\n        return pred.mu, jnp.exp(pred.lv)"),
                                                                   ("        graphdef, state = nnx.split(self.ensemble)\n        state_i = jax.tree.map(lambda x: x[i], state)\n        base_model = nnx.merge(graphdef, state_i)\n        mean_i, log_var_i = base_model(x)\n        log_var_i = " + _BOUND_CALL_I + "\n        std_i", "        mean_i, log_var_i = self._predict_member(x, i)\n        std_i")]},
    {"id": "c17-b-plans-expand-dims-starred", "file": _P, "edits": [("    n_samples, plan_horizon = actions.shape[:2]\n    action_shape = actions.shape[2:]\n", "    n_plans, horizon, *act_dims = actions.shape\n"), ("        actions[:, jnp.newaxis],\n        (n_samples, n_particles, plan_horizon) + action_shape,\n", "        jnp.expand_dims(actions, 1),\n        (n_plans, n_particles, horizon, *act_dims),\n")]},
    {"id": "c17-b-nll-one-mean", "file": _E, "find": "    return jnp.mean(squared_errors * inv_var) + 0.5 * jnp.mean(log_var_pred)", "replace": "    per_entry = squared_errors * inv_var + 0.5 * log_var_pred\n    return jnp.mean(per_entry)"},
]
