"""C04 - sampled subtrajectories are contiguous single-episode runs (necessary structural conditions only)."""
from __future__ import annotations

import ast
import re

from ..loops import dotted
from ..nf import NF, Scope, Poly, parse_expr
from ..repo import Repo, loc, short, AnalysisError, param_names, bind_call
from ..sem import stmt_calls

EXPLANATION = (
    "Window validity is modular index arithmetic over arbitrary add-histories; no sound static argument in reach bounds it, so the "
    "behavioural statement itself is NOT decided. Decided are six structural conditions each of which is necessary - breaking it breaks "
    "the behaviour: (R1) the mask of every slot that is written (transition slot and the extra successor row) is cleared before the "
    "write position advances; (R2) the enabling store mask[(insert - h) mod size] = 1 uses the same h as its strict guard "
    "episode_timesteps > h; (R3) the episode tail is enabled on termination and disabled on truncation over min(episode_timesteps, "
    "horizon) slots, and the episode counter is reset in that branch; (R4) every _sample_idx draws start indices from mask_ only; (R5) "
    "window indices are (start[:, None] + arange(horizon)) mod current_len; (R6) the no-intermediate view takes observation/action from "
    "the first and next_observation from the last step of the same window. Forms read in addition: a per-field loop of add_sample is "
    "evaluated per documented field (the successor row's observation may be stored inside it); a truncated episode end may leave the "
    "store of 0 out (those slots were cleared on write and are never enabled: a no-op); a cache of the masked priorities kept by the "
    "prioritised sampler must be refreshed by every writer of mask_ (derived-state coherence, as for the uniform start cache): it is "
    "stale when no writer touches what the reuse condition reads and the compared buffer quantity is a fixpoint of the write "
    "(current_len of a full ring). Views of sample_batch: the gather of a field is read as self.buffer[k][IDX], storage[IDX], "
    "np.take(storage, IDX, axis=0) / storage.take(IDX, axis=0), through a helper method that gathers self.buffer[P][Q] at its own "
    "parameters, and when it follows the branch on include_intermediate (each view is its arm followed by the common tail); the per-field "
    "choice may be an if / match chain, a table (display or dict(name=...)) or a selector function defined next to its use; the ring "
    "reduction may be %, np.mod or np.remainder; the last slot may be computed from the start as (start + horizon - 1) mod current_len - "
    "the same formula with a quantity of the buffer's own state (the storage horizon) in the place of the sampling horizon is the last "
    "slot of a window of another length (violation). add_sample: temporaries of the per-field loop are unrolled with it; an entry of "
    "dict(sample, a=x, ...) is x for the replaced fields and the transition's own entry otherwise."
)
TRUSTED = ["numpy nonzero / modular indexing semantics"]
RULES = {
    "R1-mask-clear-on-write": "mask_[insert_idx] = 0 precedes the advance; the extra successor row's mask is cleared too",
    "R2-enable-offset-agreement": "mask_[(insert_idx - H) % buffer_size] = 1 is guarded by episode_timesteps > H with the same H (strict)",
    "R3-tail": "in the episode-end branch the last min(episode_timesteps, horizon) slots get 0 iff truncated else 1 (the store of 0 may be left out: a no-op given R1/R2), episode_timesteps is reset to 0, the successor row stores next_observation as observation and reward 0",
    "R4-start-from-mask": "uniform: nz = nonzero(mask_)[0], start = nz[rng.integers(0, len(nz))]; PER: sampler receives (current_len, ..., mask_) and multiplies the priorities by the mask on every path on which a mask may be given; state derived from mask_ (cached starts, cached cumulative masked priorities) is refreshed by every writer of mask_",
    "R5-window-indices": "indices = (start[:, newaxis] + arange(horizon)[newaxis]) % current_len",
    "R6-no-intermediate-view": "observation, action -> indices[:, 0] (or the start itself); next_observation -> indices[:, -1] (or (start + horizon - 1) % current_len with the SAMPLING horizon); everything else the full window",
}

RB = "rl_blox.blox.replay_buffer."
CQ = RB + "SubtrajectoryReplayBuffer"


def _m(repo, cq, name):
    m = repo.method(cq, name)    # follows inheritance: the method may live in a base class / mixin
    if m is None:
        raise AnalysisError(f"{cq}.{name} not found (anchor vanished)")
    fn = m[1]
    fn._module = repo.cls(m[0])._module
    return fn


_KEYS = ("observation", "action", "reward", "next_observation", "terminated", "truncated")


def _const_test(t, k, env, kv="k"):
    """Evaluate a test on the loop key (variable ``kv``, a constant ``k``); None if it does not only depend on the key."""
    if isinstance(t, ast.Compare) and len(t.ops) == 1 and isinstance(t.left, ast.Name) and t.left.id == kv:
        op, c = t.ops[0], t.comparators[0]
        if isinstance(c, ast.Name) and isinstance(env.get(c.id), ast.Dict):
            c = ast.List(elts=[x for x in env[c.id].keys if x is not None], ctx=ast.Load())
        if isinstance(c, ast.Name) and isinstance(env.get(c.id), (ast.List, ast.Tuple, ast.Set)):
            c = env[c.id]
        if isinstance(op, (ast.Eq, ast.NotEq)) and isinstance(c, ast.Constant):
            r = c.value == k
            return r if isinstance(op, ast.Eq) else not r
        if isinstance(op, (ast.In, ast.NotIn)) and isinstance(c, (ast.List, ast.Tuple, ast.Set)) and all(isinstance(x, ast.Constant) for x in c.elts):
            r = k in [x.value for x in c.elts]
            return r if isinstance(op, ast.In) else not r
        return None
    if isinstance(t, ast.Compare) and len(t.ops) == 1 and isinstance(t.ops[0], (ast.Eq, ast.NotEq)) and isinstance(t.left, ast.Constant) and isinstance(t.comparators[0], ast.Name) and t.comparators[0].id == kv:
        r = t.left.value == k
        return r if isinstance(t.ops[0], ast.Eq) else not r
    if isinstance(t, ast.BoolOp):
        vs = [_const_test(x, k, env, kv) for x in t.values]
        if any(v is None for v in vs):
            return None
        return all(vs) if isinstance(t.op, ast.And) else any(vs)
    if isinstance(t, ast.UnaryOp) and isinstance(t.op, ast.Not):
        v = _const_test(t.operand, k, env, kv)
        return None if v is None else not v
    return None


def _specialise(e, k, env, kv="k"):
    """Resolve key-dependent selections in an index expression for the concrete key ``k`` (the loop variable is ``kv``)."""
    if isinstance(e, ast.Name) and e.id in env and not isinstance(env[e.id], ast.Dict):
        return _specialise(env[e.id], k, env, kv)
    if isinstance(e, ast.IfExp):
        v = _const_test(e.test, k, env, kv)
        if v is None:
            raise AnalysisError(f"{CQ}.sample_batch: index selection `{short(e, 60)}` does not only depend on the field name (unrecognised idiom)")
        return _specialise(e.body if v else e.orelse, k, env, kv)
    if isinstance(e, ast.Call) and isinstance(e.func, ast.Attribute) and e.func.attr == "get" and isinstance(e.func.value, ast.Name) and isinstance(env.get(e.func.value.id), ast.Dict) \
            and e.args and isinstance(e.args[0], ast.Name) and e.args[0].id == kv and not e.keywords:
        d = env[e.func.value.id]
        for kk, vv in zip(d.keys, d.values):
            if isinstance(kk, ast.Constant) and kk.value == k:
                return _specialise(vv, k, env, kv)
        if len(e.args) > 1:
            return _specialise(e.args[1], k, env, kv)
        raise AnalysisError(f"{CQ}.sample_batch: `{short(e, 60)}` has no default for field `{k}`")
    if isinstance(e, ast.Call) and isinstance(e.func, ast.Name) and isinstance(env.get(e.func.id), ast.FunctionDef) and len(e.args) == 1 and not e.keywords and isinstance(e.args[0], ast.Name) and e.args[0].id == kv:
        # a selector function defined next to its use (`def index_of(k): match k: ...`): its value for the concrete field name; what it
        # returns is read in the enclosing scope (a closure sees the locals of the method at the time of the call)
        fd = env[e.func.id]
        ps = param_names(fd)
        r = None
        if len(ps) == 1 and fd.args.vararg is None and fd.args.kwarg is None and not fd.decorator_list:
            try:
                r = _selector_value(fd.body, k, env, ps[0])
            except _Unk:
                r = None
        if r is None or any(isinstance(x, ast.Name) and x.id == ps[0] for x in ast.walk(r)):
            raise AnalysisError(f"{CQ}.sample_batch: selector `{fd.name}` is not a choice by field name only (unrecognised idiom)")
        return _specialise(r, k, env, kv)
    if isinstance(e, ast.Subscript) and isinstance(e.value, ast.Name) and isinstance(env.get(e.value.id), ast.Dict) and isinstance(e.slice, ast.Name) and e.slice.id == kv:
        d = env[e.value.id]
        for kk, vv in zip(d.keys, d.values):
            if isinstance(kk, ast.Constant) and kk.value == k:
                return _specialise(vv, k, env, kv)
        raise AnalysisError(f"{CQ}.sample_batch: `{short(e, 60)}` has no entry for field `{k}`")
    return e


class _Unk(Exception):
    pass


def _match_case(st, k, env, kv):
    """The case of `match <field name>` that is taken for the concrete name ``k`` (None: no case matches); _Unk when the statement is
    not a choice by constant field names."""
    subj = _const_test(ast.Compare(left=st.subject, ops=[ast.Eq()], comparators=[ast.Constant(value=k)]), k, env, kv)
    if subj is not True:
        raise _Unk(f"`match {short(st.subject, 30)}` is not a match on the field name")

    def _pat(p_):
        if isinstance(p_, ast.MatchValue) and isinstance(p_.value, ast.Constant):
            return p_.value.value == k
        if isinstance(p_, ast.MatchOr):
            rs = [_pat(x_) for x_ in p_.patterns]
            return None if any(r_ is None for r_ in rs) else any(rs)
        if isinstance(p_, ast.MatchAs) and p_.pattern is None and p_.name is None:
            return True
        return None
    for case_ in st.cases:
        r_ = _pat(case_.pattern) if case_.guard is None else None
        if r_ is None:
            raise _Unk(f"case pattern `{short(case_.pattern, 40)}` is not a constant field name")
        if r_:
            return case_
    return None


def _selector_value(body, k, env, kv):
    """Expression returned by a block that does nothing but choose by the field name (if / match on ``kv``, return); None when the
    block falls through; _Unk for anything else."""
    for st in body:
        if isinstance(st, ast.Pass) or (isinstance(st, ast.Expr) and isinstance(st.value, ast.Constant)):
            continue
        if isinstance(st, ast.Return) and st.value is not None:
            return st.value
        if isinstance(st, ast.If):
            v = _const_test(st.test, k, env, kv)
            if v is None:
                raise _Unk()
            r = _selector_value(st.body if v else st.orelse, k, env, kv)
        elif isinstance(st, ast.Match):
            c_ = _match_case(st, k, env, kv)
            r = _selector_value(c_.body, k, env, kv) if c_ is not None else None
        else:
            raise _Unk()
        if r is not None:
            return r
    return None


_REDUCER_CALLS = {"mod", "remainder", "fmod", "where", "take", "divmod"}


def _offset_unreduced(e, at, cfg, depth=0, hz="horizon"):
    """True when an offset by the sampling horizon (parameter ``hz``) occurs in index expression ``e`` outside every ring reduction
    (%, np.mod, np.where, take)."""
    if depth > 10:
        return False
    if isinstance(e, ast.BinOp) and isinstance(e.op, ast.Mod):
        return False
    if isinstance(e, ast.Call) and ((isinstance(e.func, ast.Attribute) and e.func.attr in _REDUCER_CALLS) or (isinstance(e.func, ast.Name) and e.func.id in _REDUCER_CALLS)):
        return False
    if isinstance(e, ast.Name):
        ds = cfg.defs_of(at, e.id)
        if e.id == hz and all(d_.kind == "param" for d_ in ds):
            return True
        if len(ds) == 1 and ds[0].kind == "assign" and ds[0].value is not None:
            return _offset_unreduced(ds[0].value, ds[0].node, cfg, depth + 1, hz)
        return False
    if isinstance(e, ast.Subscript):
        return _offset_unreduced(e.value, at, cfg, depth + 1, hz)
    return any(_offset_unreduced(c, at, cfg, depth + 1, hz) for c in ast.iter_child_nodes(e))


def _is_storage(e, kv, vv):
    """``e`` denotes the storage array of the current field: `self.buffer[kv]` or the loop's storage variable."""
    return (isinstance(e, ast.Subscript) and dotted(e.value) == "self.buffer" and isinstance(e.slice, ast.Name) and e.slice.id == kv) or (vv is not None and isinstance(e, ast.Name) and e.id == vv)


def _gather_index(e, kv="k", vv=None, repo=None):
    """IDX of the (single) gather of rows of the current field's storage inside expression e: `self.buffer[kv][IDX]` / `vv[IDX]` (vv
    the storage array of the field), `np.take(storage, IDX, axis=0)` / `storage.take(IDX, axis=0)` (rows along the first axis: the same
    rows), or a call of a method of the buffer whose body gathers `self.buffer[P][Q]` at two of its own, never rebound parameters (the
    gather moved into a helper: IDX is the argument bound to Q when the field name is bound to P)."""
    gs = []
    for n in ast.walk(e):
        if isinstance(n, ast.Subscript) and isinstance(getattr(n, "ctx", None), ast.Load) and _is_storage(n.value, kv, vv):
            gs.append(n.slice)
        elif isinstance(n, ast.Call) and isinstance(n.func, ast.Attribute) and n.func.attr == "take" and not any(isinstance(a_, ast.Starred) for a_ in n.args) and all(k_.arg is not None for k_ in n.keywords):
            if dotted(n.func.value) in ("np", "numpy", "jnp"):
                names = ["a", "indices", "axis"]
            else:
                names = ["indices", "axis"]
                if not _is_storage(n.func.value, kv, vv):
                    continue
            b = dict(zip(names, n.args))
            b.update({k_.arg: k_.value for k_ in n.keywords})
            arr = b.get("a", n.func.value)
            ax = b.get("axis")
            if set(b) <= set(names) | {"a"} and _is_storage(arr, kv, vv) and "indices" in b and isinstance(ax, ast.Constant) and ax.value == 0 and type(ax.value) is int:
                gs.append(b["indices"])
        elif isinstance(n, ast.Call) and repo is not None and isinstance(n.func, ast.Attribute) and dotted(n.func.value) == "self" and not any(isinstance(a_, ast.Starred) for a_ in n.args) and all(k_.arg is not None for k_ in n.keywords):
            m = repo.method(CQ, n.func.attr)
            if m is None:
                continue
            h = m[1]
            rebound = {x.id for x in ast.walk(h) if isinstance(x, ast.Name) and not isinstance(x.ctx, ast.Load)}
            hg = [x for x in ast.walk(h) if isinstance(x, ast.Subscript) and isinstance(x.ctx, ast.Load) and isinstance(x.value, ast.Subscript) and dotted(x.value.value) == "self.buffer"]
            if len(hg) != 1 or not (isinstance(hg[0].value.slice, ast.Name) and isinstance(hg[0].slice, ast.Name)):
                continue
            P_, Q_ = hg[0].value.slice.id, hg[0].slice.id
            ps = param_names(h)
            b = bind_call(h, n, skip_self=True)
            if P_ in rebound or Q_ in rebound or P_ not in ps or Q_ not in ps or P_ not in b or Q_ not in b:
                continue
            if isinstance(b[P_], ast.Name) and b[P_].id == kv:
                gs.append(b[Q_])
    # several gathers (both arms of a conversion choice, `rows if raw else jnp.asarray(rows)` after inlining) at one and the same index
    return gs[0] if gs and len({ast.dump(g_) for g_ in gs}) == 1 else None


def _field_loop(target, it):
    """(key variable, storage variable or None) when `for target in it` runs over the fields of self.buffer; None otherwise."""
    if isinstance(it, ast.Call) and isinstance(it.func, ast.Name) and it.func.id in ("list", "tuple") and len(it.args) == 1 and not it.keywords:
        return _field_loop(target, it.args[0])
    kind = None
    if dotted(it) == "self.buffer":
        kind = "keys"
    elif isinstance(it, ast.Call) and isinstance(it.func, ast.Attribute) and it.func.attr in ("keys", "items") and dotted(it.func.value) == "self.buffer" and not it.args and not it.keywords:
        kind = it.func.attr
    if kind == "keys" and isinstance(target, ast.Name):
        return target.id, None
    if kind == "items" and isinstance(target, (ast.Tuple, ast.List)) and len(target.elts) == 2 and all(isinstance(x, ast.Name) for x in target.elts):
        return target.elts[0].id, target.elts[1].id
    return None


def _field_indices(cfg, stmts, fn, repo=None):
    """field name -> (index expression, CFG node at which to normalise it) for the statements of one view of sample_batch."""
    out = {}
    env = {}   # locals of the branch that hold selection tables / per-key choices

    def node_of(st):
        return cfg.stmt_node[id(st)]

    def run_body(body, k, kenv, kv, vv):
        for st in body:
            if isinstance(st, ast.If):
                v = _const_test(st.test, k, kenv, kv)
                if v is None:
                    raise AnalysisError(f"{CQ}.sample_batch: branch `{short(st.test, 50)}` inside the per-field loop does not only depend on the field name (unrecognised idiom)")
                run_body(st.body if v else st.orelse, k, kenv, kv, vv)
            elif isinstance(st, ast.Match):
                try:
                    chosen = _match_case(st, k, kenv, kv)
                except _Unk as ex_:
                    raise AnalysisError(f"{CQ}.sample_batch: {ex_} inside the per-field loop (unrecognised idiom)")
                if chosen is not None:
                    run_body(chosen.body, k, kenv, kv, vv)
            elif isinstance(st, (ast.For, ast.While, ast.Try, ast.With)):
                raise AnalysisError(f"{CQ}.sample_batch: `{short(st, 50)}` inside the per-field loop (unrecognised idiom)")
            elif isinstance(st, ast.Assign) and len(st.targets) == 1:
                t = st.targets[0]
                ix = _gather_index(st.value, kv, vv, repo)
                if ix is not None:
                    out[k] = (_specialise(ix, k, kenv, kv), kenv.get("@at", node_of(st)))
                elif isinstance(t, ast.Name):
                    kenv[t.id] = st.value
                    kenv["@at"] = node_of(st)
    for st in stmts:
        fl = _field_loop(st.target, st.iter) if isinstance(st, ast.For) else None
        if fl is not None:
            for k in _KEYS:
                run_body(st.body, k, dict(env), fl[0], fl[1])
        elif isinstance(st, ast.Assign) and len(st.targets) == 1 and isinstance(st.targets[0], ast.Name) and isinstance(st.value, ast.Call) and isinstance(st.value.func, ast.Name) and st.value.func.id == "dict" \
                and not st.value.args and all(k_.arg is not None for k_ in st.value.keywords) and not any(isinstance(x, (ast.DictComp,)) for x in ast.walk(st.value)):
            # dict(observation=a, action=b): the same table as the display {"observation": a, "action": b}
            env[st.targets[0].id] = ast.copy_location(ast.Dict(keys=[ast.Constant(value=k_.arg) for k_ in st.value.keywords], values=[k_.value for k_ in st.value.keywords]), st.value)
        elif isinstance(st, ast.Assign) and len(st.targets) == 1 and isinstance(st.targets[0], ast.Name) and isinstance(st.value, ast.Dict) and all(isinstance(x, ast.Constant) for x in st.value.keys if x is not None) \
                and not any(isinstance(x, (ast.DictComp,)) for x in ast.walk(st.value)):
            env[st.targets[0].id] = st.value
        elif isinstance(st, ast.Assign) and len(st.targets) == 1 and isinstance(st.targets[0], ast.Name) and isinstance(st.value, (ast.List, ast.Tuple, ast.Set)) and st.value.elts and all(isinstance(x, ast.Constant) and isinstance(x.value, str) for x in st.value.elts):
            env[st.targets[0].id] = st.value     # a literal collection of field names used in `k in names`
        elif isinstance(st, ast.FunctionDef):
            env[st.name] = st                    # a selector defined next to its use
        else:
            for dc in [x for x in ast.walk(st) if isinstance(x, ast.DictComp)]:
                g = dc.generators[0]
                fl = _field_loop(g.target, g.iter) if len(dc.generators) == 1 and not g.ifs else None
                if fl is not None:
                    ix = _gather_index(dc.value, fl[0], fl[1], repo)
                    if ix is None:
                        continue
                    for k in _KEYS:
                        out[k] = (_specialise(ix, k, env, fl[0]), node_of(st))
    return out


def _unroll_field_loops(fn):
    """Private copy of ``fn`` in which every loop over the fields of self.buffer whose body does nothing but store into the storage
    array of the current field, under conditions that depend on the field name only, is replaced by its bodies specialised for the
    documented fields (the same key-specialised partial evaluation as for the views of sample_batch): `for k in self.buffer: if k ==
    "observation": self.buffer[k][i] = x else: ...` then reads like the straight-line stores it performs.  Any other loop is kept as
    it is.  The original tree is not touched; returns ``fn`` itself when nothing was unrolled."""
    from ..expand import clone
    new = clone(fn)
    changed = []

    def storage(e, kv, vv):
        return (isinstance(e, ast.Subscript) and dotted(e.value) == "self.buffer" and isinstance(e.slice, ast.Name) and e.slice.id == kv) or (vv is not None and isinstance(e, ast.Name) and e.id == vv)

    def subst(st, k, kv, vv):
        class T(ast.NodeTransformer):
            def visit_IfExp(self, n):
                v = _const_test(n.test, k, {}, kv)      # a choice that depends on the field name only is made here
                return self.generic_visit(n) if v is None else self.visit(n.body if v else n.orelse)

            def visit_Name(self, n):
                if n.id == kv and isinstance(n.ctx, ast.Load):
                    return ast.copy_location(ast.Constant(value=k), n)
                if vv is not None and n.id == vv and isinstance(n.ctx, ast.Load):
                    return ast.copy_location(ast.Subscript(value=ast.Attribute(value=ast.Name(id="self", ctx=ast.Load()), attr="buffer", ctx=ast.Load()), slice=ast.Constant(value=k), ctx=ast.Load()), n)
                return n
        return ast.fix_missing_locations(T().visit(clone(st)))

    def spec(body, k, kv, vv, temps=frozenset()):
        out = []
        for st in body:
            if isinstance(st, ast.If):
                v = _const_test(st.test, k, {}, kv)
                r = None if v is None else spec(st.body if v else st.orelse, k, kv, vv, temps)
                if r is None:
                    return None
                out += r
            elif isinstance(st, ast.Assign) and len(st.targets) == 1 and isinstance(st.targets[0], ast.Name) and st.targets[0].id in temps \
                    and not any(isinstance(x, ast.Name) and x.id in (kv, vv) and not isinstance(x.ctx, ast.Load) for x in ast.walk(st)):
                out.append(subst(st, k, kv, vv))     # a temporary of the loop body (the value chosen for this field, stored afterwards)
            elif isinstance(st, ast.Pass) or (isinstance(st, ast.Expr) and isinstance(st.value, ast.Constant)):
                continue
            elif isinstance(st, ast.Assign) and len(st.targets) == 1 and isinstance(st.targets[0], ast.Subscript) and storage(st.targets[0].value, kv, vv) \
                    and not any(isinstance(x, ast.Name) and x.id in (kv, vv) and not isinstance(x.ctx, ast.Load) for x in ast.walk(st)):
                out.append(subst(st, k, kv, vv))
            else:
                return None
        return out

    def block(stmts):
        out = []
        for st in stmts:
            fl = _field_loop(st.target, st.iter) if isinstance(st, ast.For) and not st.orelse else None
            if fl is not None:
                # temporaries of the body: plain locals assigned inside the loop and read nowhere else in the method (the unrolled bodies
                # run in the documented field order, which need not be the storage order: their last value must not matter)
                inside = {id(x) for x in ast.walk(st)}
                temps = {t_.id for x in ast.walk(st) if isinstance(x, ast.Assign) and len(x.targets) == 1 for t_ in x.targets if isinstance(t_, ast.Name) and t_.id not in (fl[0], fl[1])}
                temps = frozenset(t_ for t_ in temps if not any(isinstance(x, ast.Name) and x.id == t_ and id(x) not in inside for x in ast.walk(new)))
                bodies = [spec(st.body, k, fl[0], fl[1], temps) for k in _KEYS]
                if all(b is not None for b in bodies):
                    for b in bodies:
                        out += [ast.copy_location(x, st) if not hasattr(x, "lineno") else x for x in b]
                    changed.append(st)
                    continue
            for f_ in ("body", "orelse", "finalbody"):
                if isinstance(getattr(st, f_, None), list) and not isinstance(st, (ast.FunctionDef, ast.AsyncFunctionDef, ast.ClassDef)):
                    setattr(st, f_, block(getattr(st, f_)))
            for h in getattr(st, "handlers", []) or []:
                h.body = block(h.body)
            out.append(st)
        return out or ([ast.copy_location(ast.Pass(), stmts[0])] if stmts else [])
    new.body = block(new.body)
    if not changed:
        return fn
    ast.fix_missing_locations(new)
    for parent in ast.walk(new):
        for child in ast.iter_child_nodes(parent):
            child._parent = parent
    new._parent = getattr(fn, "_parent", None)
    if hasattr(fn, "_module"):
        new._module = fn._module
    fn._c04_unrolled = new     # keeps the copy alive: CFGs are cached by object identity
    return new


_UNREAD = re.compile(r"φ\(|⟦|__i\d+|\biter\(|λ\[")


def _unread(txt) -> bool:
    """The canonical text contains something the engine did not read: a merge of definitions, an opaque construct, a temporary of the
    helper expander, a loop variable."""
    return bool(_UNREAD.search(str(txt)))


def _toks(txt) -> set:
    return set(re.findall(r"[A-Za-z_][A-Za-z_0-9]*", str(txt)))


def _parse_canon(txt):
    """AST of a canonical text (`and(..)` / `or(..)` become calls of and_ / or_); None when it is not an expression made of read parts."""
    if _unread(txt):
        return None
    t = re.sub(r"\band\(", "and_(", str(txt))
    t = re.sub(r"\bor\(", "or_(", t)
    try:
        return ast.parse(t, mode="eval").body
    except SyntaxError:
        return None


_TRANSPARENT = {"int", "bool", "float", "asarray", "array", "int64", "int32", "bool_", "squeeze", "item"}


def _tv(e, asg, flag_of):
    """Integer value of a canonical expression that only depends on the episode flags (asg: flag name -> 0 / 1); _Unk otherwise."""
    if isinstance(e, ast.Constant) and isinstance(e.value, (bool, int)):
        return int(e.value)
    f = flag_of(e)
    if f is not None:
        return asg[f]
    if isinstance(e, ast.UnaryOp):
        v = _tv(e.operand, asg, flag_of)
        if isinstance(e.op, ast.Not):
            return int(not v)
        if isinstance(e.op, ast.USub):
            return -v
        if isinstance(e.op, ast.UAdd):
            return v
        raise _Unk()
    if isinstance(e, ast.BinOp) and isinstance(e.op, (ast.Add, ast.Sub, ast.Mult)):
        x, y = _tv(e.left, asg, flag_of), _tv(e.right, asg, flag_of)
        return x + y if isinstance(e.op, ast.Add) else x - y if isinstance(e.op, ast.Sub) else x * y
    if isinstance(e, ast.Call) and not e.keywords and isinstance(e.func, (ast.Name, ast.Attribute)):
        fn = e.func.id if isinstance(e.func, ast.Name) else e.func.attr
        if isinstance(e.func, ast.Attribute) and fn in _TRANSPARENT | {"astype"}:
            return _tv(e.func.value, asg, flag_of)       # x.astype(int), x.item()
        args = e.args
        if fn in ("ite", "where") and len(args) == 3:
            return _tv(args[1], asg, flag_of) if _tv(args[0], asg, flag_of) else _tv(args[2], asg, flag_of)
        if fn in ("and_", "logical_and", "or_", "logical_or") and args:
            vs = [bool(_tv(x, asg, flag_of)) for x in args]
            return int(all(vs) if fn in ("and_", "logical_and") else any(vs))
        if fn in ("any", "all") and len(args) == 1 and isinstance(args[0], (ast.Tuple, ast.List)):
            vs = [bool(_tv(x, asg, flag_of)) for x in args[0].elts]
            return int(all(vs) if fn == "all" else any(vs))
        if fn in ("logical_not", "invert") and len(args) == 1:
            return int(not _tv(args[0], asg, flag_of))
        if fn in _TRANSPARENT and len(args) == 1:
            v = _tv(args[0], asg, flag_of)
            return int(bool(v)) if fn in ("bool", "bool_") else v
        if fn in ("Eq", "NotEq", "Lt", "LtE") and len(args) == 2:
            x, y = _tv(args[0], asg, flag_of), _tv(args[1], asg, flag_of)
            return int({"Eq": x == y, "NotEq": x != y, "Lt": x < y, "LtE": x <= y}[fn])
    raise _Unk()


_MASK_METHOD_READS = {"sum", "any", "all", "nonzero", "copy", "astype", "mean", "max", "min", "tolist", "item", "view"}
_MASK_ARG_READS = {"nonzero", "flatnonzero", "count_nonzero", "sum", "any", "all", "where", "len", "asarray", "array", "argwhere", "print", "debug", "info", "warning", "isfinite", "array_equal", "repr", "str", "format"}
_SELF_ARG_READS = {"type", "id", "repr", "str", "isinstance", "len", "hasattr", "getattr", "format", "print", "debug", "info", "warning"}


def _add_sample_effects(ck, repo, nf):
    """R1-R3 on SubtrajectoryReplayBuffer.add_sample as *per-path effect summaries* over the entry state.

    Every acyclic path entry -> return is evaluated symbolically (sympath.PathEval: environment of locals, store of attribute /
    subscript locations; helpers are already expanded, aliases disappear in the normal forms).  A path is summarised by: the ordered
    mask stores (slot, value), the final write position / length / episode counter, the truth assignments of the episode flags and the
    bounds on episode_timesteps - horizon that its branch conditions admit.  Slots are compared as residues modulo buffer_size, flag
    conditions by their truth tables, thresholds as integer bounds; local names, statement order of independent effects, helper
    structure and the spelling of a condition do not matter.  A summary that disagrees with the protocol is a violation only when
    every mask effect of the path was read (positive evidence: the path, the slot, the value); anything unread is undecided."""
    from ..sympath import enumerate_paths, PathEval
    from ..sem import _negate, _flatten_and
    fn = _unroll_field_loops(_m(repo, CQ, "add_sample"))
    mi = fn._module
    cfg = nf.cfg_of(fn)
    site = CQ + ".add_sample"
    where = loc(mi, fn)
    rets = [n for n in cfg.nodes if n.kind == "stmt" and isinstance(n.ast, ast.Return)]
    stops = {r.id for r in rets} or {cfg.exit}
    sc0 = Scope(None, mi, {}, site)

    def P(txt):
        e = _parse_canon(txt) if not isinstance(txt, ast.AST) else txt
        if e is None:
            return None
        try:
            return nf.poly(e, sc0, None)
        except Exception:
            return None

    def S(txt):
        return nf.poly(parse_expr(txt), sc0, None).canon()
    # the sample arrives as **kwargs (documented) or, after a signature change, as explicit parameters named like the fields
    KW = fn.args.kwarg.arg if fn.args.kwarg is not None else None
    explicit = [p_ for p_ in param_names(fn) if p_ in _KEYS]
    if KW is None and not {"terminated", "truncated"} <= set(explicit):
        raise AnalysisError(f"{site}: the transition is neither passed as **kwargs nor as parameters named like the fields (unrecognised form)")

    def fld(k):
        return f"{KW}['{k}']" if KW is not None else k

    def flag_of(e):
        if KW is not None and isinstance(e, ast.Subscript) and isinstance(e.value, ast.Name) and e.value.id == KW and isinstance(e.slice, ast.Constant) and e.slice.value in ("terminated", "truncated"):
            return e.slice.value
        if KW is None and isinstance(e, ast.Name) and e.id in ("terminated", "truncated"):
            return e.id
        return None
    I0, N, H, ET, LEN = "self.insert_idx", "self.buffer_size", "self.horizon", "self.episode_timesteps", "self.current_len"

    def residue_poly(p, depth=0):
        """Representative of an index modulo buffer_size: (x % N + y) % N -> x + y, multiples of N dropped.  Two stores hit the same
        slot iff their residues agree (numpy wraps a negative index the same way)."""
        out = Poly.const(0)
        for mono, c in p.terms.items():
            if len(mono) == 1 and mono[0][1] == 1 and c.denominator == 1 and depth < 8:
                a_ = mono[0][0]
                m_ = nf.meta.get(a_) or {}
                if m_.get("fn") in ("mod", "remainder") and len(m_.get("args", [])) == 2 and not m_.get("kws") and m_["args"][1].canon() == N:
                    out = out + residue_poly(m_["args"][0], depth + 1).scale(c)
                    continue
                if a_ == N:
                    continue
            out = out + Poly({mono: c})
        return out

    def RES(txt):
        p = P(txt)
        return None if p is None else residue_poly(p).canon()

    def reduced(txt):
        """The index is written as `... % buffer_size` (lies in [0, N) whatever its argument)."""
        p = P(txt)
        m_ = nf.meta.get(p.single_atom() or "", {}) if p is not None else {}
        return m_.get("fn") in ("mod", "remainder") and len(m_.get("args", [])) == 2 and m_["args"][1].canon() == N
    NEXT = S(f"({I0} + 1) % {N}")
    NEXT2 = {S(f"(({I0} + 1) % {N} + 1) % {N}"), S(f"({I0} + 2) % {N}")}
    DELTA = nf.poly(parse_expr(f"{ET} + 1 - {H}"), sc0, None)
    ENABLE_T = S(f"{ET} + 1 > {H}")
    ENABLE_IDX = S(f"({I0} - {H}) % {N}")
    TAIL_TXT = f"(({I0} + 1) % {N} - np.arange(min({ET} + 1, {H})) - 1) % {N}"
    R_I0, R_NEXT, R_NEXT2, R_EN = RES(I0), RES(NEXT), RES(S(f"({I0} + 2) % {N}")), RES(ENABLE_IDX)
    N_TAIL = S(f"min({ET} + 1, {H})")
    LEN1 = {S(f"min({LEN} + 1, {N})")}
    LEN2 = {S(f"min(min({LEN} + 1, {N}) + 1, {N})"), S(f"min({LEN} + 2, {N})")}
    ET1 = S(f"{ET} + 1")
    fields_ = _init_fields(repo, CQ)
    ING = _toks(" ".join([I0, N, H, ET, LEN, NEXT, ENABLE_IDX, S(TAIL_TXT)])) | fields_

    def evidence(txt) -> bool:
        """The value was read completely and is built from the documented quantities only (combined differently)."""
        return not _unread(txt) and _parse_canon(txt) is not None and _toks(txt) <= ING
    try:
        paths = enumerate_paths(cfg, cfg.entry, stops, max_paths=40000)
    except RuntimeError:
        raise AnalysisError(f"{site}: too many paths for the per-path evaluation")

    def dark_call(st, pe):
        """A call in statement ``st`` that may write mask_ in a way the path evaluation does not follow."""
        for c in ast.walk(st):
            if not isinstance(c, ast.Call):
                continue
            f = c.func
            fname = f.attr if isinstance(f, ast.Attribute) else f.id if isinstance(f, ast.Name) else ""
            if isinstance(f, ast.Attribute):
                if isinstance(f.value, ast.Name) and f.value.id == "self":
                    return f"`{short(c, 60)}` (a method that was not expanded)"
                if isinstance(f.value, ast.Call) and isinstance(f.value.func, ast.Name) and f.value.func.id == "super":
                    return f"`{short(c, 60)}` (inherited implementation)"
                try:
                    recv = pe.ev(f.value).canon()
                except Exception:
                    recv = ""
                if recv == "self.mask_" and fname not in _MASK_METHOD_READS:
                    return f"`{short(c, 60)}`"
            for a in list(c.args) + [k.value for k in c.keywords]:
                a = a.value if isinstance(a, ast.Starred) else a
                try:
                    av = pe.ev(a).canon()
                except Exception:
                    av = ""
                if (av == "self" and fname not in _SELF_ARG_READS) or (av == "self.mask_" and fname not in _MASK_ARG_READS):
                    return f"`{short(c, 60)}`"
        return None
    # locals that hold a list grown by concatenation / append: the normal forms add such lists up like numbers, an index read from
    # one of them is not a slot expression
    grown = set()
    for x in ast.walk(fn):
        if isinstance(x, ast.AugAssign) and isinstance(x.op, ast.Add) and isinstance(x.target, ast.Name) and isinstance(x.value, (ast.List, ast.Tuple, ast.Call, ast.ListComp)):
            grown.add(x.target.id)
        elif isinstance(x, ast.Assign) and any(isinstance(y, ast.BinOp) and isinstance(y.op, ast.Add) and any(isinstance(z, (ast.List, ast.Tuple, ast.ListComp)) for z in (y.left, y.right)) for y in ast.walk(x.value)):
            grown |= {t_.id for t_ in x.targets if isinstance(t_, ast.Name)}
        elif isinstance(x, ast.Call) and isinstance(x.func, ast.Attribute) and x.func.attr in ("append", "extend", "insert") and isinstance(x.func.value, ast.Name):
            grown.add(x.func.value.id)

    def dark_index(st, pe):
        """A store into mask_ whose index is read from a grown list (or concatenates list displays itself)."""
        for t_ in (st.targets if isinstance(st, ast.Assign) else [st.target] if isinstance(st, (ast.AugAssign, ast.AnnAssign)) else []):
            if not isinstance(t_, ast.Subscript):
                continue
            names = {y.id for y in ast.walk(t_.slice) if isinstance(y, ast.Name)}
            concat = any(isinstance(y, ast.BinOp) and isinstance(y.op, ast.Add) and any(isinstance(z, (ast.List, ast.Tuple, ast.ListComp)) for z in (y.left, y.right)) for y in ast.walk(t_.slice))
            if not (names & grown or concat):
                continue
            try:
                base = pe.ev(t_.value).canon()
            except Exception:
                base = ""
            if base == "self.mask_":
                return f"`{short(st, 60)}` (the index is a list built by concatenation)"
        return None
    sums = {}
    for pth in paths:
        pe = PathEval(nf, cfg, mi, site, {})
        lits = []
        dark = None
        for nid, lab in pth[:-1]:
            nd = cfg.nodes[nid]
            if nd.kind == "test" and lab in (True, False) and hasattr(nd.ast, "test") and isinstance(nd.ast, ast.If):
                c = pe.ev(nd.ast.test).canon()
                lits += _flatten_and(c) if lab else [_negate(c)]
            if nd.kind == "stmt" and nd.ast is not None and dark is None:
                dark = dark_call(nd.ast, pe) or dark_index(nd.ast, pe)
            pe.step(nid, lab)
        if dark is None and "self.mask_" in pe.store:
            dark = "mask_ is rebound"
        if dark is None and any(b == "self.mask_" and ix is None for _, b, ix, _v in pe.effects):
            dark = "a store into mask_ at an index that could not be evaluated"
        masks = tuple((ix, v.canon()) for _, b, ix, v in pe.effects if b == "self.mask_" and ix is not None)
        obs = tuple((ix, v.canon()) for _, b, ix, v in pe.effects if b == "self.buffer['observation']" and ix is not None)
        fin = tuple(pe.store[x].canon() if x in pe.store else x for x in (I0, LEN, ET))
        sums.setdefault((masks, fin, tuple(sorted(set(lits))), dark, obs), None)
    ck.count("add_sample-paths", len(paths))
    ck.count("add_sample-effect-summaries", len(sums))
    if len(sums) < 2:
        raise AnalysisError(f"{site}: only {len(sums)} distinct effect summaries (expected plain-step and episode-end paths)")
    seen_keys = set()

    def ob(rule, key, ok, construct, why):
        if (rule, key, ok) in seen_keys:
            return
        seen_keys.add((rule, key, ok))
        ck.ob(rule, site, key, ok, construct, "" if ok else why, where)
    _lit_cache = {}

    def lit_value(l, asg):
        """Truth of a path literal under a flag assignment; None: it does not speak about the flags; _Unk: it does, unreadably."""
        k_ = (l, asg["terminated"], asg["truncated"])
        if k_ not in _lit_cache:
            e = _parse_canon(l)
            try:
                if e is None:
                    raise _Unk()
                _lit_cache[k_] = bool(_tv(e, asg, flag_of))
            except _Unk:
                _lit_cache[k_] = _Unk if ("terminated" in l or "truncated" in l) else None    # any mention of a flag that is not evaluable: the path cannot be summarised
        return _lit_cache[k_]

    def flag_worlds(lits):
        out = []
        for T in (0, 1):
            for D in (0, 1):
                asg = {"truncated": T, "terminated": D}
                vs = [lit_value(l, asg) for l in lits]
                if any(v is _Unk for v in vs):
                    return None
                if all(v is None or v for v in vs):
                    out.append(asg)
        return out

    def delta_bounds(lits):
        """Integer bounds lb <= episode_timesteps' - horizon <= ub that the path literals state (None: unbounded); third result: a
        literal speaks about the counter / the horizon in a form that is not such a bound."""
        lb = ub = None
        unparsed = False
        for l in lits:
            if not (_toks(l) & {"episode_timesteps", "horizon"}):
                continue
            e = _parse_canon(l)
            neg = False
            while isinstance(e, ast.UnaryOp) and isinstance(e.op, ast.Not):
                e, neg = e.operand, not neg
            if not (isinstance(e, ast.Call) and isinstance(e.func, ast.Name) and e.func.id in ("Lt", "LtE", "Eq") and len(e.args) == 2 and not e.keywords) or (e.func.id == "Eq" and neg):
                unparsed = True
                continue
            L_, R_ = P(e.args[0]), P(e.args[1])
            if L_ is None or R_ is None:
                unparsed = True
                continue
            cons = []   # (poly, k):  poly >= k
            if e.func.id == "Eq":
                cons = [(R_ - L_, 0), (L_ - R_, 0)]
            else:
                k_ = 1 if e.func.id == "Lt" else 0
                cons = [(R_ - L_, k_)] if not neg else [(L_ - R_, 1 - k_)]
            for p_, k_ in cons:
                up, dn = p_ - DELTA, p_ + DELTA
                if up.is_const() and up.const_value().denominator == 1:
                    v_ = k_ - int(up.const_value())
                    lb = v_ if lb is None else max(lb, v_)
                elif dn.is_const() and dn.const_value().denominator == 1:
                    v_ = int(dn.const_value()) - k_
                    ub = v_ if ub is None else min(ub, v_)
                else:
                    unparsed = True
        return lb, ub, unparsed

    def split_effects(masks, worlds):
        """One record (residue, value, position, index text) per written slot; a literal vector of slots counts element-wise.  A value
        that is the same constant under every flag assignment of the path is that constant (`1 if True else 0`)."""
        out = []
        for pos, (ix, v) in enumerate(masks):
            p = P(str(ix).replace(")[::-1]", ")"))     # one scalar is stored into every listed slot: their order does not matter
            if p is None or _unread(v):
                raise AnalysisError(f"{site}: mask store `mask_[{str(ix)[:80]}] = {v[:40]}` (unrecognised form)")
            if v not in ("0", "1"):
                try:
                    ve = _parse_canon(v)
                    vals = {_tv(ve, w, flag_of) for w in worlds} if ve is not None else set()
                    if len(vals) == 1 and vals <= {0, 1}:
                        v = str(vals.pop())
                except _Unk:
                    pass
            for q in (p.elems if p.elems is not None else [p]):
                rq = residue_poly(q)
                out.append((rq.canon(), v, pos, q.canon(), tail_shape(rq)))
        return out

    def tail_shape(rp):
        """(newest slot, number of slots) of a run of consecutive slots `base - arange(n)` / `base + arange(n)` (the same set of slots
        whichever way it is enumerated); None for a single slot; AnalysisError for any other use of arange."""
        ar = [(mono, c) for mono, c in rp.terms.items() if any("arange(" in a_ for a_, _ in mono)]
        if not ar:
            return None
        mono, c = ar[0]
        m_ = nf.meta.get(mono[0][0]) or {}
        if len(ar) != 1 or len(mono) != 1 or mono[0][1] != 1 or c not in (1, -1) or m_.get("fn") != "arange" or len(m_.get("args", [])) != 1 or m_.get("kws"):
            raise AnalysisError(f"{site}: mask store at the slots `{rp.canon()[:100]}` (unrecognised form)")
        n_ = m_["args"][0]
        base = rp - Poly({mono: c})
        top = base if c == -1 else base + n_ - Poly.const(1)
        return top.canon(), n_.canon()

    def copy_entry(v):
        """`dict(sample, a=x, b=y)[c]` (a copy of the transition with some entries replaced, read at a constant field): x when c is a,
        the transition's own entry when c is not among the replaced ones."""
        e = _parse_canon(v)
        if not (isinstance(e, ast.Subscript) and isinstance(e.slice, ast.Constant) and isinstance(e.value, ast.Call) and isinstance(e.value.func, ast.Name) and e.value.func.id == "dict"
                and len(e.value.args) == 1 and isinstance(e.value.args[0], ast.Name) and e.value.args[0].id == KW and all(k_.arg is not None for k_ in e.value.keywords)):
            return v
        rep = {k_.arg: k_.value for k_ in e.value.keywords}
        r = rep.get(e.slice.value, ast.Subscript(value=ast.Name(id=KW, ctx=ast.Load()), slice=e.slice, ctx=ast.Load()))
        p = P(ast.fix_missing_locations(r))
        return v if p is None else p.canon()

    def relates(lits, var):
        """A branch condition of the path relates ``var`` to the capacity: the final value is only meant for that case."""
        return any(var in _toks(l) and "buffer_size" in _toks(l) for l in lits)
    obs_seen = False
    for (masks, fin, lits, dark, obs), _ in sorted(sums.items(), key=lambda kv: str(kv[0])):
        if not masks and not obs and fin == (I0, LEN, ET) and dark is None:
            continue   # a path without effects (e.g. an early exception exit)
        if dark is not None:
            raise AnalysisError(f"{site}: mask_ may be written through {dark}, which the path evaluation does not follow (unrecognised form)")
        worlds = flag_worlds(lits)
        if worlds is None:
            raise AnalysisError(f"{site}: a branch condition on the episode flags is not readable as a truth table (literals {list(lits)[:4]}) (unrecognised form)")
        if not worlds:
            continue   # contradictory flag conditions: not a run of the program
        ended = all(w["terminated"] or w["truncated"] for w in worlds)
        not_ended = all(not w["terminated"] and not w["truncated"] for w in worlds)
        if ended == not_ended:
            raise AnalysisError(f"{site}: a path with mask effects {masks[:2]} is not classified by the episode-end condition (literals {list(lits)[:4]})")
        if any("insert_idx" in _toks(l) for l in lits):
            # slots are compared as expressions over the entry write position: a path that is only taken for some write positions
            # (`if self.insert_idx == self.buffer_size: ...`) is not summarised by them
            raise AnalysisError(f"{site}: a branch condition depends on the write position ({[l for l in lits if 'insert_idx' in _toks(l)][:2]}) (unrecognised form)")
        effs = split_effects(masks, worlds)
        lb, ub, unparsed = delta_bounds(lits)
        enable, no_enable = lb is not None and lb >= 1, ub is not None and ub <= 0
        if enable and no_enable:
            continue   # contradictory threshold conditions
        # min(episode_timesteps', horizon) is horizon where episode_timesteps' >= horizon and episode_timesteps' where it is <= horizon
        n_forms = {N_TAIL} | ({H} if lb is not None and lb >= 0 else set()) | ({ET1} if ub is not None and ub <= 0 else set())
        scalar1 = [e_ for e_ in effs if e_[1] == "1" and e_[4] is None]
        if enable == no_enable:
            if lb is not None and lb <= 0 and not unparsed and scalar1:
                ob("R2-enable-offset-agreement", "offset-equals-threshold", False, f"a start index is enabled at {scalar1[0][3]} under episode_timesteps' - horizon >= {lb} ({[l for l in lits if 'episode_timesteps' in l][:2]})",
                   "the enabling condition does not imply episode_timesteps > horizon (off by one): a window starting there reaches back one step into the previous episode")
                continue
            raise AnalysisError(f"{site}: a path is not classified by the enabling condition episode_timesteps > horizon (literals {list(lits)[:4]})")
        tag = ("end" if ended else "step") + ("+enable" if enable else "")
        shown = [(e_[3], e_[1]) for e_ in effs]
        # every effect is given its role by the slot it hits; anything else must at least be made of the documented quantities
        clears = [e_ for e_ in effs if e_[0] == R_I0 and e_[1] == "0"]
        starts = [e_ for e_ in effs if e_[0] == R_EN]
        succ = [e_ for e_ in effs if e_[0] == R_NEXT and R_NEXT != R_I0]
        tails = [e_ for e_ in effs if e_[4] is not None and e_[4][0] == R_I0 and e_[4][1] in n_forms]
        known = {id(e_) for e_ in clears + starts + succ + tails}
        other = [e_ for e_ in effs if id(e_) not in known]
        for e_ in other:
            if not evidence(e_[3]) or e_[1] not in ("0", "1") and not (ended and e_[4] is not None):
                raise AnalysisError(f"{site}: mask store `mask_[{e_[3][:100]}] = {e_[1][:40]}` on a [{tag}] path (unrecognised form)")
        for e_ in starts + succ:
            if e_[1] not in ("0", "1"):
                raise AnalysisError(f"{site}: mask store `mask_[{e_[3][:100]}] = {e_[1][:40]}` on a [{tag}] path (unrecognised form)")
        # R1: the written slot is cleared
        ob("R1-mask-clear-on-write", "clear-transition-slot", bool(clears), f"[{tag}] mask effects {shown[:5]}",
           "the slot being overwritten must be removed from the valid start indices (mask_[insert_idx] = 0 with the pre-advance index): otherwise windows cross the write position into overwritten data")
        # R2: enabling store
        ones = [e_ for e_ in effs if e_[1] == "1" and e_[4] is None]
        shown1 = [(e_[3], e_[1]) for e_ in ones]
        if enable:
            ok = bool(ones) and all(e_[0] == R_EN for e_ in ones)
            if not ones and (unparsed or lb != 1):
                raise AnalysisError(f"{site}: no start is enabled on a path with episode_timesteps' - horizon >= {lb} (unrecognised form)")
            ob("R2-enable-offset-agreement", "offset-equals-threshold", ok, f"[{tag}] enabling stores {shown1} under {ENABLE_T}",
               f"once the episode is longer than the horizon exactly the start `horizon` steps behind the write position becomes valid (expected {ENABLE_IDX}): offset and threshold must both be self.horizon")
        else:
            ok = not ones
            ob("R2-enable-offset-agreement", "no-enable-below-threshold", ok, f"[{tag}] enabling stores {shown1} under not({ENABLE_T})",
               "a start index is enabled although the episode is not yet longer than the horizon: its window reaches back into the previous episode")

        def final(rule, key, got, accepted, res_want, var, what, why):
            """The final value of a state variable: accepted spellings; a differing value is evidence when it was read completely, is
            made of the documented quantities and no branch condition of the path restricts the case it is meant for."""
            if got in accepted:
                return ob(rule, key, True, f"[{tag}] {what}' = {got}", "")
            if res_want is not None and RES(got) == res_want and reduced(got):
                return ob(rule, key, True, f"[{tag}] {what}' = {got}", "")
            if not evidence(got) or relates(lits, var) or (res_want is not None and RES(got) == res_want):
                raise AnalysisError(f"{site}: {what}' = `{got[:100]}` on a [{tag}] path under {[l for l in lits if var in _toks(l)][:2]} (unrecognised form)")
            ob(rule, key, False, f"[{tag}] {what}' = {got}", why)
        if not ended:
            extra = [e_ for e_ in effs if e_ not in clears and e_ not in starts]
            ob("R3-tail", "no-tail-before-episode-end", not extra, f"[{tag}] other mask effects {[(e_[3], e_[1]) for e_ in extra]}", "mask entries other than the written slot and the horizon-delayed start change although the episode goes on")
            final("R1-mask-clear-on-write", "advance:main", fin[0], {NEXT}, R_NEXT, "insert_idx", "insert_idx", "the write position must advance by one modulo the capacity")
            final("R1-mask-clear-on-write", "length-per-written-row", fin[1], LEN1, None, "current_len", "current_len", "each written row increases the length, saturating at the capacity")
            final("R2-enable-offset-agreement", "episode-counter", fin[2], {ET1}, None, "\0", "episode_timesteps", "episode_timesteps must count this step (exactly +1)")
        else:
            succ_clear = [e_ for e_ in succ if e_[1] == "0"]
            ob("R1-mask-clear-on-write", "clear-successor-row", bool(succ_clear), f"[{tag}] successor-row clear {[(e_[3], e_[1]) for e_ in succ_clear]}", "the extra successor row written at an episode end must be excluded from the start indices")
            cand = [e_ for e_ in effs if e_[4] is not None]
            if not cand and all(w["truncated"] for w in worlds):
                # a truncated episode end without any tail store: the documented store writes 0 into the newest min(episode_timesteps,
                # horizon) slots of the episode; each of them was cleared when it was written (R1) and a slot is enabled `horizon` steps
                # after its write at the earliest (R2), i.e. never for these: the store of 0 is a no-op and may be left out
                ob("R3-tail", "truncated-disables", True, f"[{tag}] no tail store at a truncated episode end: the newest slots were cleared on write and are never enabled", "")
            else:
                if len({e_[2] for e_ in cand}) != 1:
                    raise AnalysisError(f"{site}: {len(cand)} tail effects on an episode-end path ({[(e_[3], e_[1]) for e_ in cand][:3]}): the vectorised tail store was restructured (unrecognised idiom)")
                _tres, tval, pos_tail, tidx, (ttop, tn) = cand[0]
                tail_ok = cand[0] in tails
                # the value as a function of the flags, on the flag assignments this path admits
                te = _parse_canon(tval)
                wrong = None
                for w in worlds:
                    try:
                        if te is None:
                            raise _Unk()
                        gv = _tv(te, w, flag_of)
                    except _Unk:
                        raise AnalysisError(f"{site}: tail value `{tval[:100]}` is not readable as a function of the episode flags (unrecognised form)")
                    if gv not in (0, 1):
                        raise AnalysisError(f"{site}: tail value `{tval[:100]}` (unrecognised form)")
                    if gv != (0 if w["truncated"] else 1):
                        wrong = (w, gv)
                if wrong is not None:
                    # the flag assignments were enumerated from the conditions that could be evaluated; a condition on the transition
                    # that could not (a helper applied to it, a membership test) may exclude exactly the assignment that looks wrong
                    unread_conds = [l for l in lits if (set(explicit) | ({KW} if KW else set())) & _toks(l) and all(lit_value(l, w_) is None for w_ in worlds)]
                    if unread_conds:
                        raise AnalysisError(f"{site}: tail value `{tval[:60]}` under the condition(s) {unread_conds[:2]} on the transition (unrecognised form)")
                ob("R3-tail", "truncated-disables", wrong is None, f"[{tag}] tail value = {tval}" + (f"; writes {wrong[1]} when terminated={wrong[0]['terminated']}, truncated={wrong[0]['truncated']}" if wrong else ""),
                   "truncated tails must be masked out (0), terminated tails enabled (1)")
                if not tail_ok and (unparsed or not evidence(tidx)):
                    raise AnalysisError(f"{site}: tail index `{tidx[:120]}` (unrecognised form)")
                ob("R3-tail", "last-min(len,horizon)-slots", tail_ok, f"[{tag}] tail index = {tidx}: {tn} slots, the newest is {ttop}", f"must be the last min(episode_timesteps, horizon) written slots: {S(TAIL_TXT)}")
                # the clear of the written slot precedes the tail store (which may re-enable that very slot)
                if clears:
                    late = [e_ for e_ in clears if e_[2] > pos_tail]
                    ob("R3-tail", "tail-after-clear", not late, f"[{tag}] clear at effect {[e_[2] for e_ in clears]}, tail at effect {pos_tail}", "the tail must be marked after the written slot was cleared, otherwise the clear wipes the last start of a terminated episode")
            extra = [e_ for e_ in other if e_ not in cand]
            if extra:
                ob("R3-tail", "no-other-mask-effects", False, f"[{tag}] other mask effects {[(e_[3], e_[1]) for e_ in extra]}", "mask entries other than the written slot, the successor row, the horizon-delayed start and the episode tail change at an episode end")
            final("R1-mask-clear-on-write", "advance:tail", fin[0], NEXT2, R_NEXT2, "insert_idx", "insert_idx", "at an episode end the write position must advance by two rows (transition + successor row) modulo the capacity")
            final("R1-mask-clear-on-write", "length-per-written-row", fin[1], LEN2, None, "current_len", "current_len", "each written row (incl. the successor row) increases the length, saturating at the capacity")
            final("R3-tail", "episode-counter-reset", fin[2], {"0"}, None, "\0", "episode_timesteps", "episode_timesteps must be reset to 0 at the episode end")
            # successor row content: observation <- next_observation at the slot after the transition
            so = []
            for ix, v in obs:
                r_ = RES(ix)
                if r_ is None or _unread(v):
                    raise AnalysisError(f"{site}: store `buffer['observation'][{str(ix)[:60]}] = {v[:40]}` (unrecognised form)")
                if r_ != R_I0:
                    so.append((r_, ix, v))
            if so:
                obs_seen = True
                r_, ix, v = so[-1]   # the last store to the successor row's observation decides its content
                if KW is not None:
                    v = re.sub(rf"\bdict\({re.escape(KW)}\)\[", f"{KW}[", v)     # an entry of a shallow copy that was not reassigned is the original's entry
                    v = copy_entry(v)
                bad_slot = [x for x in so if x[0] != R_NEXT]
                if bad_slot and not all(evidence(x[1]) for x in bad_slot):
                    raise AnalysisError(f"{site}: store `buffer['observation'][{bad_slot[0][1][:60]}]` (unrecognised form)")
                good_val = v == fld("next_observation")
                if not good_val and v not in {fld(k_) for k_ in _KEYS}:
                    raise AnalysisError(f"{site}: successor row observation <- `{v[:80]}` (unrecognised form)")
                ob("R3-tail", "successor-row-content", good_val and not bad_slot, f"[{tag}] buffer['observation'][{ix}] <- {v}",
                   "the extra row after an episode end must hold the final successor observation at the slot following the last transition (it is what next_observation of the last window reads)")
    if not obs_seen:
        raise AnalysisError(f"{site}: the store of the successor row's observation was not found (unrecognised idiom)")


def run(ck, repo: Repo, tier: str):
    nf = NF(repo, inline_depth=1, inline_calls=False)
    ck.guard(_add_sample_effects, ck, repo, nf)
    ck.guard(_uniform_start, ck, repo, nf)
    ck.guard(_prioritised_start, ck, repo, nf)
    ck.guard(_views, ck, repo, nf)


def _init_fields(repo, cq) -> set:
    """Attributes of self that a constructor along the class's MRO assigns (the documented state of the buffer)."""
    return {t_.attr for c_ in repo.mro(cq) for m_ in [repo.method(c_, "__init__", inherited=False)] if m_ for x_ in ast.walk(m_[1]) if isinstance(x_, (ast.Assign, ast.AnnAssign, ast.AugAssign))
            for t_ in (x_.targets if isinstance(x_, ast.Assign) else [x_.target]) if isinstance(t_, ast.Attribute) and dotted(t_.value) == "self"}


def _own_params(fn) -> list:
    """Parameter names in signature order (keyword-only ones included) without self / *args / **kwargs: a role is a position here."""
    skip = {fn.args.vararg.arg if fn.args.vararg else None, fn.args.kwarg.arg if fn.args.kwarg else None}
    ps = [p_ for p_ in param_names(fn) if p_ not in skip]
    return ps[1:] if ps and ps[0] in ("self", "cls") else ps


def _uniform_start(ck, repo, nf):
    # ---- R4 (uniform) --------------------------------------------------------------------------------------------
    f2 = _m(repo, CQ, "_sample_idx")
    mi = f2._module
    site = CQ + "._sample_idx"
    c2 = nf.cfg_of(f2)
    rets = [n for n in c2.nodes if n.kind == "stmt" and isinstance(n.ast, ast.Return)]
    ck.need(len(rets) == 1, f"{site}: {len(rets)} returns (unrecognised idiom)")
    pp_ = _own_params(f2)
    ck.need(len(pp_) >= 2, f"{site}: signature {pp_} has no (batch size, generator) pair (unrecognised form)")
    s2 = Scope(c2, mi, {p: Poly.atom(p, {p}, {p}) for p in param_names(f2)}, site)
    got = nf.poly(rets[0].ast.value, s2, rets[0].id).canon()
    # the documented draw, in the spellings numpy offers for "indices of the non-zero entries", "their number" and "element i of";
    # the batch size and the generator are the first two parameters, whatever they are called
    B_, R_ = pp_[:2]
    sets_ = []
    for M_ in ("self.mask_", "self.mask_ != 0", "self.mask_ > 0", "self.mask_ == 1", "self.mask_.astype(bool)", "self.mask_ >= 1"):
        sets_ += [f"np.nonzero({M_})[0]", f"np.flatnonzero({M_})", f"np.where({M_})[0]", f"np.argwhere({M_}).ravel()", f"np.argwhere({M_})[:, 0]", f"np.argwhere({M_}).flatten()"]
    wants = set()
    sc_w = Scope(None, mi, s2.env, site)
    for E_ in sets_:
        for N_ in (f"len({E_})", f"{E_}.size", f"{E_}.shape[0]"):
            for draw in (f"{R_}.integers(0, {N_}, size={B_})", f"{R_}.integers(0, {N_}, {B_})", f"{R_}.integers({N_}, size={B_})", f"{R_}.integers(low=0, high={N_}, size={B_})",
                         f"{R_}.integers(0, {N_} - 1, size={B_}, endpoint=True)", f"{R_}.integers({N_} - 1, size={B_}, endpoint=True)"):
                for form in (f"{E_}[{draw}]", f"np.take({E_}, {draw})", f"{E_}.take({draw})"):
                    try:
                        wants.add(nf.poly(parse_expr(form), sc_w, None).canon())
                    except Exception:
                        pass
        for form in (f"{R_}.choice({E_}, size={B_})", f"{R_}.choice({E_}, {B_})", f"{R_}.choice({E_}, size={B_}, replace=True)"):
            try:
                wants.add(nf.poly(parse_expr(form), sc_w, None).canon())
            except Exception:
                pass
    if got in wants:
        ck.ob("R4-start-from-mask", site, "uniform-over-enabled", True, f"return {got}", "", loc(mi, f2))
        return
    # a cached / derived attribute instead of the live mask? then every writer of mask_ must refresh it (derived-state coherence)
    attrs = sorted({x.attr for x in ast.walk(f2) if isinstance(x, ast.Attribute) and isinstance(x.ctx, ast.Load) and dotted(x.value) == "self" and x.attr not in ("mask_",)})
    classes = [repo.cls(c_) for c_ in repo.mro(CQ)]

    def mentions_mask(e):
        return any(isinstance(x, ast.Attribute) and x.attr == "mask_" and dotted(x.value) == "self" for x in ast.walk(e))
    derived = sorted({a for a in attrs for cls in classes for meth in cls.body if isinstance(meth, ast.FunctionDef) for x in ast.walk(meth)
                      if isinstance(x, ast.Assign) and any(dotted(t) == f"self.{a}" for t in x.targets) and mentions_mask(x.value)})
    if derived:
        stale = []
        for cls in classes:
            for meth in cls.body:
                if not isinstance(meth, ast.FunctionDef):
                    continue
                meth._module = cls._module
                mc = nf.cfg_of(meth)
                # a write of any attribute that _sample_idx reads (the cache itself, a dirty flag, a version counter) counts as a refresh
                refresh = {m.id for m in mc.nodes if m.kind == "stmt" and isinstance(m.ast, (ast.Assign, ast.AugAssign, ast.AnnAssign, ast.Delete))
                           and any(dotted(t) in {f"self.{a}" for a in attrs} for t in (m.ast.targets if isinstance(m.ast, (ast.Assign, ast.Delete)) else [m.ast.target]))}
                for n in mc.nodes:
                    if n.kind == "stmt" and isinstance(n.ast, ast.Assign) and isinstance(n.ast.targets[0], ast.Subscript) and dotted(n.ast.targets[0].value) == "self.mask_":
                        # calls of helpers that themselves refresh are not followed: a direct refresh must lie on every path to the exit
                        if any(isinstance(c_, ast.Call) and isinstance(c_.func, ast.Attribute) and isinstance(c_.func.value, ast.Name) and c_.func.value.id == "self" for m in mc.nodes if m.ast is not None and m.kind == "stmt" for c_ in ast.walk(m.ast)):
                            continue   # the method calls other methods of the object, which may refresh: no witness from this method
                        pth = mc.paths_avoiding(n.id, mc.exit, refresh)
                        if pth is not None:
                            stale.append((meth.name, n, derived[0], cls._module))
        if stale:
            mname, n, a, cmi = stale[0]
            ck.ob("R4-start-from-mask", site, f"stale-derived:{a}", False, f"start indices read from self.{a} (derived from mask_); `{short(n.ast)}` in {mname} does not refresh it",
                  f"`self.{a}` caches a value computed from mask_, but {len(stale)} write(s) of mask_ (first: {mname} line {n.lineno}) reach the end of the method without any write to an attribute that _sample_idx reads: sampling can start at slots that were just overwritten / disabled", loc(cmi, n.ast))
            return
        raise AnalysisError(f"{site}: start indices come from derived attribute(s) {derived} (unrecognised idiom)")
    ing = set().union(*[_toks(w_) for w_ in wants]) | _init_fields(repo, CQ) | {"arange"}
    if "mask_" not in _toks(got) and not _unread(got) and _toks(got) <= ing and not re.search(r"self\.\w+\(", got):
        # read completely, made of the buffer's own state and the documented functions, and mask_ is not among them
        ck.ob("R4-start-from-mask", site, "uniform-over-enabled", False, f"return {got[:120]}", "start indices are not derived from mask_: disabled slots (other episodes, truncated tails, overwritten data) can be returned", loc(mi, f2))
        return
    raise AnalysisError(f"{site}: returns `{got[:100]}` (unrecognised form)")


def _cache_coherence(repo, nf, PER, PQ, pb, cached, conds, binding, call, s3, n3, len_ok, MK_):
    """Derived-state coherence of a cache of the masked priorities kept by the prioritised sampler.

    ``cached``: attributes of the sampler's object that hold a value computed from the mask at an earlier call and from which the path
    with the branch conditions ``conds`` draws the start indices without looking at the mask again.  The reuse is coherent when every
    method of the buffer that writes mask_ refreshes the cache (writes the attribute on every path).  It is provably stale when no writer
    of mask_ writes any attribute the reuse condition reads AND every quantity of the buffer that the condition compares can be left
    unchanged by a write of mask_ (`current_len' = min(current_len + 1, buffer_size)` is a fixpoint for the full buffer).  Returns
    ("ok",) or ("stale", attribute, construct, reason); anything else is undecided (AnalysisError)."""
    from ..sympath import enumerate_paths, PathEval
    site = "PriorityBuffer.prioritized_sampling"
    A = cached[0]

    def und(msg):
        raise AnalysisError(f"{site}: start indices are drawn from the cached `self.{A}` (computed from the mask at an earlier call); {msg} (unrecognised form)")
    if len(cached) != 1 or any(c_ is None or _unread(c_) for c_, _l in conds):
        und("the reuse condition could not be read")
    ctoks = set().union(*[_toks(c_) for c_, _l in conds]) if conds else set()
    k_attrs = {A} | {x_ for c_, _l in conds for x_ in re.findall(r"self\.(\w+)", c_)}
    k_params = [p_ for p_ in _own_params(pb) if p_ in ctoks]
    if MK_ in k_params or any(p_ not in binding for p_ in k_params):
        und(f"the reuse condition {[c_ for c_, _l in conds][:2]} looks at the mask itself")
    recv = dotted(call.func.value) if isinstance(call.func, ast.Attribute) else None
    if recv is None or not recv.startswith("self."):
        und("the sampler is not reached through an attribute of the buffer")

    def attr_writes(fnode, depth=0):
        """Statements of a method of the sampler's class that write one of the attributes the reuse condition reads."""
        out = []
        for x in ast.walk(fnode):
            ts = x.targets if isinstance(x, (ast.Assign, ast.Delete)) else [x.target] if isinstance(x, (ast.AugAssign, ast.AnnAssign)) else []
            for t_ in ts:
                for y in ([t_] + (list(t_.elts) if isinstance(t_, (ast.Tuple, ast.List)) else [])):
                    base = y.value if isinstance(y, ast.Subscript) else y
                    if isinstance(base, ast.Attribute) and dotted(base.value) == "self" and base.attr in k_attrs:
                        out.append((x, base.attr))
            if isinstance(x, ast.Call) and isinstance(x.func, ast.Attribute) and dotted(x.func.value) == "self" and depth < 3:
                m_ = repo.method(PQ, x.func.attr)
                if m_ is None:
                    und(f"`{short(x, 50)}` is not a method of the sampler's class")
                if m_[1] is not fnode and attr_writes(m_[1], depth + 1):
                    out.append((x, "?"))
        return out
    # the methods of the buffer that write mask_
    mro = repo.mro(PER)

    def mask_stores(fnode):
        al = {t_.id for x in ast.walk(fnode) if isinstance(x, ast.Assign) and dotted(x.value) == "self.mask_" for t_ in x.targets if isinstance(t_, ast.Name)}
        return [x for x in ast.walk(fnode) if isinstance(x, (ast.Assign, ast.AugAssign)) for t_ in (x.targets if isinstance(x, ast.Assign) else [x.target])
                if isinstance(t_, ast.Subscript) and (dotted(t_.value) == "self.mask_" or (isinstance(t_.value, ast.Name) and t_.value.id in al))]
    # a refresh on the sampling side (the method that calls the sampler, or one from which it is reached) is another protocol: not read
    sampler_name = call.func.attr
    meths = [(c_, m_) for c_ in mro for m_ in repo.cls(c_).body if isinstance(m_, ast.FunctionDef)]
    reach = set()
    grow = True
    while grow:
        grow = False
        for c_, m_ in meths:
            if m_.name in reach:
                continue
            for x in ast.walk(m_):
                if isinstance(x, ast.Call) and isinstance(x.func, ast.Attribute) and ((dotted(x.func.value) == recv and x.func.attr == sampler_name) or (dotted(x.func.value) == "self" and x.func.attr in reach)):
                    reach.add(m_.name)
                    grow = True
                    break
    for c_, m_ in meths:
        if m_.name not in reach:
            continue
        for x in ast.walk(m_):
            if isinstance(x, ast.Call) and isinstance(x.func, ast.Attribute) and dotted(x.func.value) == recv and x.func.attr != sampler_name:
                pm = repo.method(PQ, x.func.attr)
                if pm is None or attr_writes(pm[1]):
                    und(f"`{short(x, 50)}` in {m_.name} may refresh the cache before sampling")
            ts = x.targets if isinstance(x, (ast.Assign, ast.Delete)) else [x.target] if isinstance(x, (ast.AugAssign, ast.AnnAssign)) else []
            for t_ in ts:
                base = t_.value if isinstance(t_, ast.Subscript) else t_
                if isinstance(base, ast.Attribute) and dotted(base.value) == recv and base.attr in k_attrs:
                    und(f"`{short(x, 50)}` in {m_.name} may refresh the cache before sampling")
    writers = sorted({m_.name for c_ in mro for m_ in repo.cls(c_).body if isinstance(m_, ast.FunctionDef) and m_.name != "__init__" and mask_stores(m_)})
    if not writers:
        und("no method of the buffer with a direct store into mask_ was found")
    refreshed, witness = True, None
    for name in writers:
        chain = []
        for c_ in mro:
            m_ = repo.method(c_, name, inherited=False)
            if m_ is not None:
                m_[1]._module = repo.cls(c_)._module
                chain.append((c_, m_[1]))
        sites = {}    # id(method) -> CFG nodes that refresh the cache on every path through the callee
        weak = False  # a write that may refresh (conditional, or of another attribute the condition reads)
        for ci, (c_, fnode) in enumerate(chain):
            cfg_ = nf.cfg_of(fnode)
            for nd in cfg_.nodes:
                if nd.kind != "stmt" or nd.ast is None:
                    continue
                for x in ast.walk(nd.ast):
                    if isinstance(x, ast.Call) and isinstance(x.func, ast.Attribute):
                        rv = x.func.value
                        if isinstance(rv, ast.Call) and isinstance(rv.func, ast.Name) and rv.func.id == "super":
                            if x.func.attr != name or ci + 1 >= len(chain):
                                und(f"`{short(x, 50)}` in {name} is not followed")
                            continue
                        if dotted(rv) == recv:
                            m_ = repo.method(PQ, x.func.attr)
                            if m_ is None:
                                und(f"`{short(x, 50)}` is not a method of the sampler's class")
                            ws = attr_writes(m_[1])
                            if ws:
                                ccfg = nf.cfg_of(m_[1])
                                direct = {ccfg.stmt_node[id(w_)] for w_, a_ in ws if a_ == A and not isinstance(w_, ast.Call) and id(w_) in ccfg.stmt_node
                                          and any(isinstance(t_, ast.Attribute) for t_ in (w_.targets if isinstance(w_, (ast.Assign, ast.Delete)) else [w_.target]))}
                                if direct and ccfg.paths_avoiding(ccfg.entry, ccfg.exit, direct) is None:
                                    sites.setdefault(id(fnode), set()).add(nd.id)
                                else:
                                    weak = True
                            continue
                        if dotted(rv) == "self" and x.func.attr not in ("get", "items", "keys", "values"):
                            und(f"`{short(x, 50)}` in {name} is not followed")
                        if any(dotted(a_) in ("self", recv) for a_ in list(x.args) + [k_.value for k_ in x.keywords]):
                            und(f"`{short(x, 50)}` in {name} receives the buffer / the sampler's object")
                    ts = x.targets if isinstance(x, (ast.Assign, ast.Delete)) else [x.target] if isinstance(x, (ast.AugAssign, ast.AnnAssign)) else []
                    for t_ in ts:
                        base = t_.value if isinstance(t_, ast.Subscript) else t_
                        if isinstance(base, ast.Attribute) and dotted(base.value) == recv and base.attr in k_attrs:
                            if base.attr == A and not isinstance(t_, ast.Subscript):
                                sites.setdefault(id(fnode), set()).add(nd.id)
                            else:
                                weak = True
        eff_c, eff = chain[0]
        ecfg = nf.cfg_of(eff)
        covered = bool(sites.get(id(eff))) and ecfg.paths_avoiding(ecfg.entry, ecfg.exit, sites[id(eff)]) is None
        if covered:
            continue
        refreshed = False
        if weak or sites:
            und(f"{name} writes mask_ and refreshes the cache only on some paths / through other attributes")
        # nothing on any path of this writer touches what the reuse condition reads on the sampler's object: can the quantities of the
        # buffer that the condition compares stay the same as well?
        keys = []
        for p_ in k_params:
            v_ = nf.poly(binding[p_], s3, n3.id).canon()
            attr = "current_len" if v_ in len_ok else v_[5:] if re.fullmatch(r"self\.\w+", v_) else None
            if attr is None or attr == "mask_":
                und(f"the reuse condition compares `{p_}` <- {v_[:60]}")
            keys.append((p_, attr))
        holder = next(((c_, f_) for c_, f_ in chain if mask_stores(f_)), None)
        if holder is None or len(keys) > 1:
            und("the reuse condition compares several quantities of the buffer")
        hfn = _unroll_field_loops(holder[1])
        hfn._module = holder[1]._module
        hcfg = nf.cfg_of(hfn)
        hsite = f"{holder[0]}.{name}"
        rets = {n.id for n in hcfg.nodes if n.kind == "stmt" and isinstance(n.ast, ast.Return)} or {hcfg.exit}
        try:
            hpaths = enumerate_paths(hcfg, hcfg.entry, rets, max_paths=40000)
        except RuntimeError:
            und(f"too many paths through {name}")
        sc0 = Scope(None, hfn._module, {}, hsite)
        for hp in hpaths:
            pe = PathEval(nf, hcfg, hfn._module, hsite, {})
            for nid, lab in hp[:-1]:
                pe.step(nid, lab)
            if not any(b_ == "self.mask_" and v_.canon() == "0" for _n, b_, _i, v_ in pe.effects):
                continue     # the witness is a path that disables a start index
            world = []
            for p_, attr in keys:
                old = f"self.{attr}"
                fin = pe.store.get(old)
                if fin is None:
                    world.append(f"{old} is not written")
                    continue
                oldp = nf.poly(parse_expr(old), sc0, None)
                if (fin - oldp).is_zero():
                    world.append(f"{old}' = {old}")
                    continue
                m_ = nf.meta.get(fin.single_atom() or "", {})
                fix = None
                if m_.get("fn") in ("min", "minimum") and len(m_.get("args", [])) == 2 and not m_.get("kws"):
                    for x_, y_ in (m_["args"], m_["args"][::-1]):
                        if old in x_.atoms() and old not in y_.atoms() and not _unread(y_.canon()):
                            d_ = x_.subst({old: y_}) - y_
                            if d_.is_const() and d_.const_value() > 0:
                                fix = y_.canon()
                if fix is None:
                    world = None
                    break
                world.append(f"{old}' = {fin.canon()} = {old} once {old} = {fix}")
            if world is not None:
                witness = (name, holder[0].rsplit(".", 1)[-1], world)
                break
        if witness is None:
            und(f"every write of mask_ in {name} changes a quantity the reuse condition compares")
    if refreshed:
        return ("ok",)
    name, hcls, world = witness
    reuse = " and ".join(("" if l_ else "not ") + c_ for c_, l_ in conds)
    return ("stale", A, f"start indices drawn from the cached self.{A} while {reuse[:160]}; {hcls}.{name} writes mask_; {'; '.join(world)[:200]}",
            f"`self.{A}` caches the masked priorities of an earlier call; {name} disables start indices in mask_ (the slot being overwritten, truncated tails) but neither it nor anything it calls "
            f"writes `{A}` or another attribute the reuse condition reads, and the compared quantity can stay unchanged ({'; '.join(world)[:160]}): sampling after such an add still draws the disabled starts, "
            "i.e. windows that cross the write position into overwritten data")


def _prioritised_start(ck, repo, nf):
    # ---- R4 (prioritised) -----------------------------------------------------------------------------------------
    PER = RB + "SubtrajectoryReplayBufferPER"
    site = PER + "._sample_idx"
    f3 = _m(repo, PER, "_sample_idx")
    mi3 = f3._module
    c3 = nf.cfg_of(f3)
    pbm = repo.method(RB + "PriorityBuffer", "prioritized_sampling")
    ck.need(pbm is not None, "PriorityBuffer.prioritized_sampling not found (anchor vanished)")
    pb = pbm[1]
    mipb = pb._module = repo.cls(pbm[0])._module
    # roles by position in the sampler's signature (current_len, batch_size, rng, mask): the names are free
    ps_ = _own_params(pb)
    ck.need(len(ps_) >= 4, f"PriorityBuffer.prioritized_sampling: signature {ps_} has no (length, batch size, generator, mask) quadruple (unrecognised form)")
    CL_, MK_ = ps_[0], ps_[3]
    scalls = stmt_calls(c3, lambda c: isinstance(c.func, ast.Attribute) and c.func.attr == "prioritized_sampling")
    ck.need(len(scalls) == 1, f"{site}: expected one prioritized_sampling call (unrecognised idiom)")
    n3, c3call = scalls[0]
    if any(isinstance(a_, ast.Starred) for a_ in c3call.args) or any(k_.arg is None for k_ in c3call.keywords):
        raise AnalysisError(f"{site}: `{short(c3call, 70)}` passes *args / **kwargs: the arguments cannot be bound to the sampler's parameters (unrecognised form)")
    b = bind_call(pb, c3call, skip_self=True)
    s3 = Scope(c3, mi3, {p: Poly.atom(p, {p}, {p}) for p in param_names(f3)}, "per")
    mval = nf.poly(b[MK_], s3, n3.id).canon() if MK_ in b else None
    lval = nf.poly(b[CL_], s3, n3.id).canon() if CL_ in b else None
    sc_w = Scope(None, mi3, s3.env, "per")
    len_ok = {nf.poly(parse_expr(t_), sc_w, None).canon() for t_ in ("self.current_len", "len(self)")}
    mask_ok = {nf.poly(parse_expr(t_), sc_w, None).canon() for t_ in ("self.mask_", "self.mask_[:self.current_len]", "self.mask_[:len(self)]", "self.mask_.copy()")}
    fields_ = _init_fields(repo, PER)
    ok = mval in mask_ok and lval in len_ok
    if ok and not isinstance(n3.ast, ast.Return):
        rv = [n for n in c3.nodes if n.kind == "stmt" and isinstance(n.ast, ast.Return) and n.ast.value is not None]
        callv = nf.poly(c3call, s3, n3.id).canon()
        if not (len(rv) == 1 and nf.poly(rv[0].ast.value, s3, rv[0].id).canon() == callv):
            raise AnalysisError(f"{site}: sampled indices are post-processed (unrecognised idiom)")
    if not ok:
        # evidence: the mask parameter is left at its default / given None, or an argument is another attribute of the buffer's own state
        def other_state(v):
            return v is not None and not _unread(v) and re.fullmatch(r"self\.\w+", v) is not None and v[5:] in fields_
        no_mask = (mval is None and lval is not None) or mval == "None"
        if not (no_mask or (mval not in mask_ok and other_state(mval)) or (mval in mask_ok and other_state(lval))):
            raise AnalysisError(f"{site}: `{short(c3call, 80)}` ({CL_} <- {lval}, {MK_} <- {mval}) (unrecognised form)")
    ck.ob("R4-start-from-mask", site, "mask-passed", ok, f"prioritized_sampling({CL_} <- {lval}, {MK_} <- {mval})", "" if ok else "the prioritised sampler must receive mask_ (and current_len) so that disabled starts have zero probability", loc(mi3, f3))
    # the sampler multiplies the priorities by the mask on the mask-given path (path evaluation, not text)
    from ..sympath import enumerate_paths, PathEval
    cpb = nf.cfg_of(pb)
    prets = [n for n in cpb.nodes if n.kind == "stmt" and isinstance(n.ast, ast.Return)]
    ck.need(len(prets) == 1, "PriorityBuffer.prioritized_sampling: expected one return")
    env = {p_: Poly.atom(p_, {p_}, {p_}) for p_ in param_names(pb)}
    sc_p = Scope(None, mipb, env, "ps")
    masked_forms = set()
    for t_ in (f"{MK_}[:{CL_}] * self.priority[:{CL_}]", f"({MK_} * self.priority)[:{CL_}]", f"np.where({MK_}[:{CL_}] != 0, self.priority[:{CL_}], 0)", f"np.where({MK_}[:{CL_}], self.priority[:{CL_}], 0)",
               f"np.where({MK_}[:{CL_}] > 0, self.priority[:{CL_}], 0)", f"np.where({MK_}[:{CL_}] == 0, 0, self.priority[:{CL_}])"):
        try:
            masked_forms.add(nf.poly(parse_expr(t_), sc_p, None).canon())
        except Exception:
            pass
    masked_paths = 0
    unmasked = []
    evald = []
    for pth in enumerate_paths(cpb, cpb.entry, {prets[0].id}):
        lits, conds = [], []
        pe = PathEval(nf, cpb, mipb, "ps", env)
        for nid, lab in pth[:-1]:
            nd = cpb.nodes[nid]
            if nd.kind == "test" and lab in (True, False):
                lits += [(t_, v_ == True) for t_, v_ in cpb._lits(nd.ast.test, lab, nid)]
                try:
                    conds.append((pe.ev(nd.ast.test).canon(), lab))
                except Exception:
                    conds.append((None, lab))
            pe.step(nid, lab)
        evald.append((lits, conds, pe))
    # attributes of the sampler's object that some path leaves holding a value computed from the mask: a cache of the masked priorities
    derived = {k_[5:] for _l, _c, pe in evald for k_, v_ in pe.store.items() if re.fullmatch(r"self\.\w+", k_) and any(f_ in v_.canon() for f_ in masked_forms)}
    stale = None
    for lits, conds, pe in evald:
        absent = (f"{MK_} is None", True) in lits or (f"{MK_} is not None", False) in lits
        mask_given = (f"{MK_} is not None", True) in lits or (f"{MK_} is None", False) in lits
        # a path that never asks whether a mask was given runs the same with a mask: it is read like the mask-given paths
        untested = not any(MK_ in _toks(t_) for t_, _v in lits)
        if absent or not (mask_given or untested):
            continue
        txt = pe.ev(prets[0].ast.value).canon()
        for k, v in pe.store.items():
            txt = txt.replace(k, v.canon())
        if not mask_given and "self." not in txt:
            continue     # e.g. an early exit for the empty buffer: nothing is drawn from the object's state on this path
        masked_paths += 1
        if any(f_ in txt for f_ in masked_forms):
            continue
        used = any(MK_ in _toks(t_) or MK_ in _toks(v_.canon()) for _n, t_, v_ in pe.log) or any(MK_ in _toks(str(ix_)) or MK_ in _toks(v_.canon()) for _n, _b, ix_, v_ in pe.effects)
        cached = sorted(a_ for a_ in derived if re.search(rf"self\.{re.escape(a_)}\b", txt))
        if cached and not used and MK_ not in _toks(txt) and not _unread(txt) and not re.search(r"self\.\w+\(", txt):
            # the distribution is read from derived state (computed from the mask at an earlier call): derived-state coherence
            r_ = _cache_coherence(repo, nf, PER, pbm[0], pb, cached, conds, b, c3call, s3, n3, len_ok, MK_)
            if r_[0] == "stale":
                stale = r_
            continue
        if not used and MK_ not in _toks(txt) and not _unread(txt) and not re.search(r"self\.\w+\(", txt) and "self.priority" in txt:
            unmasked.append(txt)    # the sampled distribution was read completely and no statement of the path uses the mask
        else:
            raise AnalysisError(f"PriorityBuffer.prioritized_sampling: on a path where a mask is given the sampled indices are `{txt[:120]}` (unrecognised form)")
    if stale is not None:
        ck.ob("R4-start-from-mask", RB + "PriorityBuffer.prioritized_sampling", f"stale-derived:{stale[1]}", False, stale[2], stale[3], loc(mipb, pb))
    if masked_paths == 0:
        raise AnalysisError("PriorityBuffer.prioritized_sampling: no path on which a mask is given (unrecognised idiom)")
    ck.ob("R4-start-from-mask", RB + "PriorityBuffer.prioritized_sampling", "mask-multiplied", not unmasked, f"{masked_paths} path(s) with a mask: sampled distribution uses priority[:len] * mask[:len]" if not unmasked else f"with a mask given: {unmasked[0][:150]}",
          "" if not unmasked else "on a path where a mask is given the sampled distribution does not multiply the priorities by it: disabled start indices keep a positive probability", loc(mipb, pb))


def _flag_polarity(test, name):
    """True: the branch is taken when parameter ``name`` is true; False: when it is false; None: not a test of that parameter alone."""
    if isinstance(test, ast.Name) and test.id == name:
        return True
    if isinstance(test, ast.Call) and isinstance(test.func, ast.Name) and test.func.id == "bool" and len(test.args) == 1 and not test.keywords:
        return _flag_polarity(test.args[0], name)
    if isinstance(test, ast.UnaryOp) and isinstance(test.op, ast.Not):
        r = _flag_polarity(test.operand, name)
        return None if r is None else not r
    if isinstance(test, ast.Compare) and len(test.ops) == 1 and isinstance(test.left, ast.Name) and test.left.id == name and isinstance(test.comparators[0], ast.Constant) and isinstance(test.comparators[0].value, bool):
        if isinstance(test.ops[0], (ast.Is, ast.Eq)):
            return test.comparators[0].value
        if isinstance(test.ops[0], (ast.IsNot, ast.NotEq)):
            return not test.comparators[0].value
    return None


def _views(ck, repo, nf):
    # ---- R5 / R6 ----------------------------------------------------------------------------------------------------
    f4 = _m(repo, CQ, "sample_batch")
    mi = f4._module
    site = CQ + ".sample_batch"
    c4 = nf.cfg_of(f4)
    # roles by position in the documented signature (batch_size, horizon, include_intermediate, rng): the names are free
    ps_ = _own_params(f4)
    ck.need(len(ps_) >= 4, f"{site}: signature {ps_} is not (batch size, horizon, include_intermediate, generator) (unrecognised form)")
    BS, HZ, II, RG = ps_[:4]
    s4 = Scope(c4, mi, {p: Poly.atom(p, {p}, {p}) for p in param_names(f4)}, site)
    ifn = [(n, _flag_polarity(n.ast.test, II)) for n in c4.nodes if n.kind == "test" and isinstance(n.ast, ast.If)]
    ifn = [(n, pol) for n, pol in ifn if pol is not None]
    ck.need(len(ifn) == 1, f"{site}: {len(ifn)} branches on `{II}` (unrecognised idiom)")
    ifnode, pol = ifn[0]
    arm_t, arm_f = list(ifnode.ast.body), list(ifnode.ast.orelse)
    if not arm_f and arm_t and isinstance(arm_t[-1], (ast.Return, ast.Raise)) and ifnode.ast in f4.body:
        arm_f = f4.body[f4.body.index(ifnode.ast) + 1:]      # `if c: ...; return x` followed by the other view
    elif arm_t and arm_f and ifnode.ast in f4.body and not any(isinstance(x, (ast.Return, ast.Raise)) for a_ in (arm_t, arm_f) for st_ in a_ for x in ast.walk(st_)):
        # both arms only prepare the selection and the gather follows the branch: each view is its arm followed by the common tail
        tail_ = f4.body[f4.body.index(ifnode.ast) + 1:]
        arm_t, arm_f = arm_t + tail_, arm_f + tail_
    with_branch, without_branch = (arm_t, arm_f) if pol else (arm_f, arm_t)
    # the window index matrix: what every field is gathered at in the with-intermediate view (located by its use, not by its name)
    per_key_w = _field_indices(c4, with_branch, f4, repo)
    if not per_key_w:
        raise AnalysisError(f"{site}: gather of the with-intermediate view not found (unrecognised idiom)")
    wforms = {nf.poly(ix, s4, at).canon() for ix, at in per_key_w.values()}
    ck.need(len(wforms) == 1, f"{site}: fields of the with-intermediate view are gathered at different indices {sorted(wforms)[:2]} (unrecognised idiom)")
    W_ast, W_at = next(iter(per_key_w.values()))
    iv = nf.poly(W_ast, s4, W_at).canon()
    sc_w = Scope(None, mi, s4.env, "w")

    def spec_(txt):
        return nf.poly(parse_expr(txt), sc_w, None)
    START = f"self._sample_idx({BS}, {RG})"
    STARTS = [START]
    # the draw itself where _sample_idx was expanded into this method (it moved to a mixin / became a helper): same start indices
    try:
        f2 = _m(repo, CQ, "_sample_idx")
        c2 = nf.cfg_of(f2)
        r2 = [n for n in c2.nodes if n.kind == "stmt" and isinstance(n.ast, ast.Return) and n.ast.value is not None]
        pp2 = _own_params(f2)
        if len(r2) == 1 and len(pp2) >= 2:
            inl = nf.poly(r2[0].ast.value, Scope(c2, f2._module, {pp2[0]: s4.env[BS], pp2[1]: s4.env[RG]}, "start"), r2[0].id).canon()
            if _parse_canon(inl) is not None and spec_(f"({inl})").canon() == inl:
                STARTS.append(f"({inl})")
    except Exception:
        pass
    start_cs = {spec_(S_).canon() for S_ in STARTS}
    LENS = ("self.current_len", "len(self)")
    COLS = [f"{S_}[:, {nx}]" for S_ in STARTS for nx in ("np.newaxis", "None")] + [f"{S_}.reshape(-1, 1)" for S_ in STARTS] + [f"np.reshape({S_}, (-1, 1))" for S_ in STARTS]
    cols = [spec_(t_) for t_ in COLS]
    steps = [spec_(t_) for nx in ("np.newaxis", "None") for t_ in (f"np.arange({HZ})[{nx}]", f"np.arange({HZ})[{nx}, :]")] + [spec_(f"np.arange({HZ})")]
    STEPS = [f"np.arange({HZ})[{nx}]" for nx in ("np.newaxis", "None")] + [f"np.arange({HZ})[{nx}, :]" for nx in ("np.newaxis", "None")] + [f"np.arange({HZ})", f"np.arange({HZ}).reshape(1, -1)"]
    wants = {spec_(f"({c_} + {ar}) % {L_}").canon() for c_ in COLS for ar in STEPS for L_ in LENS}
    wants |= {spec_(f"np.add.outer({S_}, np.arange({HZ})) % {L_}").canon() for S_ in STARTS for L_ in LENS}     # the outer sum is the same matrix
    # the ring reduction as a function call: np.mod / np.remainder are the operator %
    SUMS = [f"{c_} + {ar}" for c_ in COLS for ar in STEPS] + [f"np.add.outer({S_}, np.arange({HZ}))" for S_ in STARTS] + [f"np.add({c_}, {ar})" for c_ in COLS for ar in STEPS]
    for X_ in SUMS:
        for L_ in LENS:
            for F_ in ("np.mod", "np.remainder"):
                try:
                    wants.add(spec_(f"{F_}({X_}, {L_})").canon())
                except Exception:
                    pass
    want = spec_(f"({START}[:, np.newaxis] + np.arange({HZ})[np.newaxis]) % self.current_len").canon()
    ok = iv in wants
    why5 = ""
    if not ok:
        # evidence: the same sum reduced modulo another attribute of the buffer, or the documented sum with another (constant) stride
        e5 = _parse_canon(iv)
        p5 = nf.poly(e5, sc_w, None) if e5 is not None else None
        m5 = nf.meta.get(p5.single_atom() or "", {}) if p5 is not None else {}
        if not (m5.get("fn") in ("mod", "remainder") and len(m5.get("args", [])) == 2 and not m5.get("kws")):
            raise AnalysisError(f"{site}: window indices `{iv[:120]}` (unrecognised form)")
        A5, M5 = m5["args"]
        len_ok = M5.canon() in {spec_(L_).canon() for L_ in LENS}
        sums_ok = any(A5 == c_ + a_ for c_ in cols for a_ in steps)
        strided = [k_ for c_ in cols for a_ in steps for k_ in (2, 3, -1, 0) if A5 == c_ + a_.scale(k_)]
        other_len = re.fullmatch(r"self\.\w+", M5.canon()) is not None and M5.canon()[5:] in _init_fields(repo, CQ)
        if sums_ok and not len_ok and other_len:
            why5 = f"consecutive slots from the sampled start must be wrapped at current_len, not at {M5.canon()} (buffer_size would read never-written slots of a partly filled buffer)"
        elif len_ok and strided:
            why5 = f"the window must hold consecutive slots from the sampled start (stride 1), got stride {strided[0]}"
        else:
            raise AnalysisError(f"{site}: window indices `{iv[:120]}` (unrecognised form)")
    ck.ob("R5-window-indices", site, "consecutive-mod-len", ok, f"indices = {iv}", "" if ok else f"must be {want}: {why5}", loc(mi, f4))
    # no-intermediate view: which index gathers each field (key-specialised partial evaluation of the branch)
    per_key = _field_indices(c4, without_branch, f4, repo)
    ck.need(per_key, f"{site}: per-field index selection of the no-intermediate view not found (unrecognised idiom)")

    def col(which):
        """Canonical form of column ``which`` (an expression text) of the window matrix, in the spellings of `all rows`."""
        out = set()
        for rows in (":", "..."):
            sl = ast.Subscript(value=W_ast, slice=parse_expr(f"_[{rows}, {which}]").slice, ctx=ast.Load())
            try:
                out.add(nf.poly(ast.fix_missing_locations(ast.copy_location(sl, W_ast)), s4, W_at).canon())
            except Exception:
                pass
        return out
    w_first = col("0") | start_cs       # start itself lies in [0, current_len): same slot as column 0
    w_last = col("-1") | col(f"{HZ} - 1")

    def last_of(n_txt):
        """Spellings of the last slot of a window of ``n_txt`` steps computed from the start directly: the last column of
        (start[:, None] + arange(n)) % len is (start + n - 1) % len."""
        out = set()
        for S_ in STARTS:
            for L_ in LENS:
                for t_ in (f"({S_} + {n_txt} - 1) % {L_}", f"np.mod({S_} + {n_txt} - 1, {L_})", f"np.remainder({S_} + {n_txt} - 1, {L_})"):
                    try:
                        out.add(spec_(t_).canon())
                    except Exception:
                        pass
        return out
    w_last |= last_of(HZ)
    # the same formula with a quantity of the buffer's own state in the place of the sampling horizon (the storage horizon): the last
    # slot of a window of another length
    w_last_other = {c_: a_ for a_ in sorted(_init_fields(repo, CQ)) for c_ in last_of(f"self.{a_}") if c_ not in w_last}
    w_all = {iv}
    w_other = set().union(*[col(str(c_)) for c_ in (1, 2, 3, -2, -3)])
    ing6 = _toks(iv) | _init_fields(repo, CQ) | {"arange", "minimum", "maximum", "clip"}
    for key, (ix, at) in sorted(per_key.items()):
        got = nf.poly(ix, s4, at).canon()
        role = "first" if key in ("observation", "action") else "last" if key == "next_observation" else "window"
        want_k = {"first": w_first, "last": w_last, "window": w_all}[role]
        ok = got in want_k
        why = ""
        if not ok:
            if _unread(got):
                raise AnalysisError(f"{site}: gather index of `{key}` is `{got[:100]}` (unrecognised form)")
            if got in w_first | w_last | w_all | w_other:
                # positive evidence: the index is another documented part of the same window
                part = "the first column of the window" if got in w_first else "the last column of the window" if got in w_last else "the full window" if got in w_all else "an inner column of the window"
                need_ = {"first": "the first column", "last": "the last column (the successor observation belongs to the end of the n-step window)", "window": "the full window"}[role]
                why = f"`{key}` is gathered at {part}, it must be gathered at {need_}"
            elif role == "last" and got in w_last_other:
                why = (f"the successor index of `{key}` ({got[:90]}) is the last step of a window of self.{w_last_other[got]} steps from the start, not of the sampled window of `{HZ}` steps: "
                       f"whenever the sampling horizon differs from self.{w_last_other[got]} the successor observation comes from a step outside the returned rewards and flags")
            elif role == "last" and any(c_ in got for c_ in start_cs) and _offset_unreduced(ix, at, c4, 0, HZ):
                why = (f"the successor index of `{key}` ({got[:90]}) is an offset from the start that is never reduced modulo the ring length: "
                       "windows that wrap around the end of the storage read the wrong slot (or clamp to the last slot)")
            elif not any(c_ in got for c_ in start_cs) and _toks(got) <= ing6 and not re.search(r"self\.\w+\(", got):
                why = f"the gather index of `{key}` does not derive from the sampled start index: the field comes from another transition than the rest of the row"
            else:
                raise AnalysisError(f"{site}: gather index of `{key}` is `{got[:120]}`, neither a documented part of the window nor a form this check can decide (unrecognised form)")
        ck.ob("R6-no-intermediate-view", site, f"field:{key}", ok, f"{key} <- buffer[{short(ix, 50)}]", why, loc(mi, ix) if hasattr(ix, "lineno") else loc(mi, f4))
    ck.floor("no-intermediate-fields", len(per_key), 5)


_F = "rl_blox/blox/replay_buffer.py"
MUTANTS = [
    {"id": "c04-table-clamped-successor", "file": "rl_blox/blox/replay_buffer.py", "rule": "R6", "find": "            batch = {}\n            for k in self.buffer:\n                if k in [\"observation\", \"action\"]:\n                    indices_without_intermediate = indices[:, 0]\n                elif k == \"next_observation\":\n                    indices_without_intermediate = indices[:, -1]\n                else:\n                    indices_without_intermediate = indices\n                batch[k] = jnp.asarray(\n                    self.buffer[k][indices_without_intermediate]\n                )\n            batch = self.Batch(**batch)\n", "replace": "            select = {\n                \"observation\": indices[:, 0],\n                \"action\": indices[:, 0],\n                \"next_observation\": np.minimum(indices[:, 0] + horizon, self.current_len) - 1,\n            }\n            batch = self.Batch(\n                **{\n                    k: jnp.asarray(self.buffer[k][select.get(k, indices)])\n                    for k in self.buffer\n                }\n            )\n"},
    {"id": "c04-table-action-last", "file": "rl_blox/blox/replay_buffer.py", "rule": "R6", "find": "            batch = {}\n            for k in self.buffer:\n                if k in [\"observation\", \"action\"]:\n                    indices_without_intermediate = indices[:, 0]\n                elif k == \"next_observation\":\n                    indices_without_intermediate = indices[:, -1]\n                else:\n                    indices_without_intermediate = indices\n                batch[k] = jnp.asarray(\n                    self.buffer[k][indices_without_intermediate]\n                )\n            batch = self.Batch(**batch)\n", "replace": "            select = {\n                \"observation\": indices[:, 0],\n                \"action\": indices[:, -1],\n                \"next_observation\": indices[:, -1],\n            }\n            batch = self.Batch(\n                **{\n                    k: jnp.asarray(self.buffer[k][select.get(k, indices)])\n                    for k in self.buffer\n                }\n            )\n"},
    {"id": "c04-no-clear", "file": _F, "rule": "R1", "find": "        self.mask_[self.insert_idx] = 0\n        if self.episode_timesteps > self.horizon:", "replace": "        if self.episode_timesteps > self.horizon:"},
    {"id": "c04-clear-after-advance", "file": _F, "rule": "R1", "find": "        self.mask_[self.insert_idx] = 0\n        if self.episode_timesteps > self.horizon:\n            self.mask_[(self.insert_idx - self.horizon) % self.buffer_size] = 1\n\n        inserted_at = [self.insert_idx]\n        self.insert_idx = (self.insert_idx + 1) % self.buffer_size\n",
     "replace": "        if self.episode_timesteps > self.horizon:\n            self.mask_[(self.insert_idx - self.horizon) % self.buffer_size] = 1\n\n        inserted_at = [self.insert_idx]\n        self.insert_idx = (self.insert_idx + 1) % self.buffer_size\n        self.mask_[self.insert_idx] = 0\n"},
    {"id": "c04-guard-ge", "file": _F, "rule": "R2", "find": "        if self.episode_timesteps > self.horizon:", "replace": "        if self.episode_timesteps >= self.horizon:"},
    {"id": "c04-offset-minus-one", "file": _F, "rule": "R2", "find": "            self.mask_[(self.insert_idx - self.horizon) % self.buffer_size] = 1", "replace": "            self.mask_[(self.insert_idx - self.horizon + 1) % self.buffer_size] = 1"},
    {"id": "c04-truncated-enabled", "file": _F, "rule": "R3", "find": "                0 if sample[\"truncated\"] else 1", "replace": "                0 if sample[\"terminated\"] else 1"},
    {"id": "c04-tail-horizon-only", "file": _F, "rule": "R3", "find": "                - np.arange(min(self.episode_timesteps, self.horizon))", "replace": "                - np.arange(self.horizon)"},
    {"id": "c04-no-episode-reset", "file": _F, "rule": "R3", "find": "            self.episode_timesteps = 0\n", "replace": ""},
    {"id": "c04-successor-not-cleared", "file": _F, "rule": "R1", "find": "            self.mask_[self.insert_idx % self.buffer_size] = 0\n", "replace": ""},
    {"id": "c04-sample-any-start", "file": _F, "rule": "R4", "find": "        nz = np.nonzero(self.mask_)[0]", "replace": "        nz = np.arange(self.current_len)"},
    {"id": "c04-window-mod-capacity", "file": _F, "rule": "R5", "find": "        ) % self.current_len\n", "replace": "        ) % self.buffer_size\n"},
    {"id": "c04-window-stride", "file": _F, "rule": "R5", "find": "            indices[:, np.newaxis] + np.arange(horizon)[np.newaxis]", "replace": "            indices[:, np.newaxis] + 2 * np.arange(horizon)[np.newaxis]"},
    {"id": "c04-next-obs-first", "file": _F, "rule": "R6", "find": "                    indices_without_intermediate = indices[:, -1]", "replace": "                    indices_without_intermediate = indices[:, 0]"},
    {"id": "c04-action-last", "file": _F, "rule": "R6", "find": "                if k in [\"observation\", \"action\"]:", "replace": "                if k in [\"observation\"]:"},
    {"id": "c04-per-mask-not-passed", "file": _F, "rule": "R4", "find": "            self.current_len, batch_size, rng, self.mask_\n", "replace": "            self.current_len, batch_size, rng\n"},
    {"id": "c04-sampler-ignores-mask", "file": _F, "rule": "R4", "nth": 0, "find": "            priority = priority * mask[:current_len]", "replace": "            pass"},
    {"id": "c04-stale-start-cache", "file": _F, "rule": "R4", "find": "        nz = np.nonzero(self.mask_)[0]", "replace": "        if getattr(self, \"_starts\", None) is None:\n            self._starts = np.nonzero(self.mask_)[0]\n        nz = self._starts"},
    {"id": "c04-successor-obs-wrong-field", "file": _F, "rule": "R3", "find": "            self.buffer[\"observation\"][self.insert_idx] = sample[\n                \"next_observation\"\n            ]\n", "replace": "            self.buffer[\"observation\"][self.insert_idx] = sample[\n                \"observation\"\n            ]\n"},
    {"id": "c04-clear-after-tail", "file": _F, "rule": "R3", "find": "            )  # mask out truncated subtrajectories\n", "replace": "            )  # mask out truncated subtrajectories\n            self.mask_[(self.insert_idx - 1) % self.buffer_size] = 0\n"},
    {"id": "c04-length-not-counted", "file": _F, "rule": "R1", "find": "        self.current_len = min(self.current_len + 1, self.buffer_size)\n        self.episode_timesteps += 1", "replace": "        self.current_len = min(self.current_len, self.buffer_size)\n        self.episode_timesteps += 1"},
    {"id": "c04-advance-by-two", "file": _F, "rule": "R1", "find": "        inserted_at = [self.insert_idx]\n        self.insert_idx = (self.insert_idx + 1) % self.buffer_size\n", "replace": "        inserted_at = [self.insert_idx]\n        self.insert_idx = (self.insert_idx + 2) % self.buffer_size\n"},
    {"id": "c04-tail-terminated-only-flag", "file": _F, "rule": "R3", "find": "                0 if sample[\"truncated\"] else 1", "replace": "                1 if sample[\"terminated\"] else 0"},
    {"id": "c04-next-obs-unrelated-index", "file": _F, "rule": "R6", "find": "                    indices_without_intermediate = indices[:, -1]", "replace": "                    indices_without_intermediate = np.arange(batch_size)"},
    {"id": "c04-enable-on-short-episode", "file": _F, "rule": "R2", "find": "        if self.episode_timesteps > self.horizon:\n            self.mask_[(self.insert_idx - self.horizon) % self.buffer_size] = 1\n", "replace": "        if self.episode_timesteps > self.horizon:\n            self.mask_[(self.insert_idx - self.horizon) % self.buffer_size] = 1\n        else:\n            self.mask_[(self.insert_idx - self.horizon) % self.buffer_size] = 1\n"},
    {"id": 'c04-tail-shifted-by-one', "file": _F, "rule": 'R3', "find": '            past_idx = (\n                self.insert_idx\n                - np.arange(min(self.episode_timesteps, self.horizon))\n                - 1\n            ) % self.buffer_size\n', "replace": '            n_tail = min(self.episode_timesteps, self.horizon)\n            past_idx = (self.insert_idx - np.arange(n_tail)) % self.buffer_size\n'},
    {"id": 'c04-tail-one-slot-too-many', "file": _F, "rule": 'R3', "find": '            past_idx = (\n                self.insert_idx\n                - np.arange(min(self.episode_timesteps, self.horizon))\n                - 1\n            ) % self.buffer_size\n', "replace": '            n_tail = min(self.episode_timesteps, self.horizon) + 1\n            past_idx = (self.insert_idx - 1 - np.arange(n_tail)) % self.buffer_size\n'},
    {"id": 'c04-successor-row-loop-keeps-observation', "file": _F, "rule": 'R3', "find": '            for k in self.buffer:\n                if k == "reward":\n                    self.buffer[k][self.insert_idx] = 0.0\n                else:\n                    self.buffer[k][self.insert_idx] = sample[k]\n            self.buffer["observation"][self.insert_idx] = sample[\n                "next_observation"\n            ]\n', "replace": '            for k in self.buffer:\n                if k == "reward":\n                    self.buffer[k][self.insert_idx] = 0.0\n                elif k == "next_observation":\n                    self.buffer[k][self.insert_idx] = sample["next_observation"]\n                else:\n                    self.buffer[k][self.insert_idx] = sample[k]\n'},
    {"id": 'c04-successor-row-loop-wrong-slot', "file": _F, "rule": 'R3', "find": '            for k in self.buffer:\n                if k == "reward":\n                    self.buffer[k][self.insert_idx] = 0.0\n                else:\n                    self.buffer[k][self.insert_idx] = sample[k]\n            self.buffer["observation"][self.insert_idx] = sample[\n                "next_observation"\n            ]\n', "replace": '            for name, arr in self.buffer.items():\n                if name == "observation":\n                    arr[self.insert_idx - 1] = sample["next_observation"]\n                    arr[self.insert_idx] = sample["observation"]\n                elif name != "reward":\n                    arr[self.insert_idx] = sample[name]\n                else:\n                    arr[self.insert_idx] = 0.0\n'},
    {"id": 'c04-tail-enabled-when-terminated-and-truncated', "file": _F, "rule": 'R3', "find": '            self.mask_[past_idx] = (\n                0 if sample["truncated"] else 1\n            )  # mask out truncated subtrajectories\n', "replace": '            if sample["terminated"]:\n                self.mask_[past_idx] = 1\n'},
    {"id": 'c04-tail-only-on-termination-full-horizon', "file": _F, "rule": 'R3', "find": '            self.mask_[past_idx] = (\n                0 if sample["truncated"] else 1\n            )  # mask out truncated subtrajectories\n', "replace": '            if sample["truncated"]:\n                pass\n            else:\n                reach = self.horizon\n                self.mask_[(self.insert_idx - 1 - np.arange(reach)) % self.buffer_size] = 1\n'},
    {'id': 'c04-sampler-cdf-cache-keyed-on-length', 'file': _F, 'rule': 'R4', 'edits': [('        self.sampled_indices = np.empty(0, dtype=int)\n\n    def initialize_priority', '        self.sampled_indices = np.empty(0, dtype=int)\n        self._cdf = None\n\n    def initialize_priority'), ('        priority = self.priority[:current_len]\n        if mask is not None:\n            priority = priority * mask[:current_len]\n        probabilities = np.cumsum(priority)\n        random_uniforms', '        if self._cdf is None or self._cdf.shape[0] != current_len:\n            weights = self.priority[:current_len]\n            if mask is not None:\n                weights = weights * mask[:current_len]\n            self._cdf = np.cumsum(weights)\n        probabilities = self._cdf\n        random_uniforms'), ('        self.max_priority = max(np.max(priority), self.max_priority)\n', '        self.max_priority = max(np.max(priority), self.max_priority)\n        self._cdf = None\n')]},
    {'id': 'c04-sampler-cdf-cache-never-refreshed-on-add', 'file': _F, 'rule': 'R4', 'edits': [('        self.sampled_indices = np.empty(0, dtype=int)\n\n    def initialize_priority', '        self.sampled_indices = np.empty(0, dtype=int)\n        self._cdf = None\n\n    def initialize_priority'), ('        priority = self.priority[:current_len]\n        if mask is not None:\n            priority = priority * mask[:current_len]\n        probabilities = np.cumsum(priority)\n        random_uniforms', '        if self._cdf is None:\n            weights = self.priority[:current_len]\n            if mask is not None:\n                weights = weights * mask[:current_len]\n            self._cdf = np.cumsum(weights)\n        probabilities = self._cdf\n        random_uniforms'), ('        self.max_priority = max(np.max(priority), self.max_priority)\n', '        self.max_priority = max(np.max(priority), self.max_priority)\n        self._cdf = None\n')]},
    {'id': 'c04-sampler-never-consults-mask', 'file': _F, 'rule': 'R4', 'nth': 0, 'find': '        priority = self.priority[:current_len]\n        if mask is not None:\n            priority = priority * mask[:current_len]\n', 'replace': '        priority = self.priority[:current_len]\n'},
    {'id': 'c04-successor-row-from-unedited-copy', 'file': _F, 'rule': 'R3', 'find': '            for k in self.buffer:\n                if k == "reward":\n                    self.buffer[k][self.insert_idx] = 0.0\n                else:\n                    self.buffer[k][self.insert_idx] = sample[k]\n            self.buffer["observation"][self.insert_idx] = sample[\n                "next_observation"\n            ]\n', 'replace': '            final = dict(sample)\n            final["reward"] = 0.0\n            for k in self.buffer:\n                self.buffer[k][self.insert_idx] = final[k]\n'},
]
BENIGN = [
    {"id": "c04-b-sampler-inplace-mask", "file": _F, "nth": 0, "find": "            priority = priority * mask[:current_len]", "replace": "            priority = priority.copy()\n            priority *= mask[:current_len]"},
    {"id": "c04-b-done-alias", "file": _F, "find": "        if sample[\"terminated\"] or sample[\"truncated\"]:\n            for k in self.buffer:", "replace": "        episode_over = sample[\"terminated\"] or sample[\"truncated\"]\n        if episode_over:\n            for k in self.buffer:"},
    {"id": "c04-b-counter-explicit", "file": _F, "find": "        self.episode_timesteps += 1\n", "replace": "        self.episode_timesteps = self.episode_timesteps + 1\n"},
    {"id": "c04-b-tail-value-int-not", "file": _F, "find": "            self.mask_[past_idx] = (\n                0 if sample[\"truncated\"] else 1\n            )", "replace": "            self.mask_[past_idx] = int(not sample[\"truncated\"])"},
    {"id": "c04-b-per-keywords", "file": _F, "find": "        return self.priority.prioritized_sampling(\n            self.current_len, batch_size, rng, self.mask_\n        )", "replace": "        return self.priority.prioritized_sampling(\n            current_len=self.current_len, batch_size=batch_size, rng=rng, mask=self.mask_\n        )"},
    {"id": "c04-b-enable-guard-flipped", "file": _F, "find": "        if self.episode_timesteps > self.horizon:\n", "replace": "        if self.horizon < self.episode_timesteps:\n"},
    {"id": "c04-b-table-comprehension", "file": "rl_blox/blox/replay_buffer.py", "find": "            batch = {}\n            for k in self.buffer:\n                if k in [\"observation\", \"action\"]:\n                    indices_without_intermediate = indices[:, 0]\n                elif k == \"next_observation\":\n                    indices_without_intermediate = indices[:, -1]\n                else:\n                    indices_without_intermediate = indices\n                batch[k] = jnp.asarray(\n                    self.buffer[k][indices_without_intermediate]\n                )\n            batch = self.Batch(**batch)\n", "replace": "            select = {\n                \"observation\": indices[:, 0],\n                \"action\": indices[:, 0],\n                \"next_observation\": indices[:, -1],\n            }\n            batch = self.Batch(\n                **{\n                    k: jnp.asarray(self.buffer[k][select.get(k, indices)])\n                    for k in self.buffer\n                }\n            )\n"},
    {"id": "c04-b-enable-commuted", "file": _F, "find": "            self.mask_[(self.insert_idx - self.horizon) % self.buffer_size] = 1", "replace": "            self.mask_[(-self.horizon + self.insert_idx) % self.buffer_size] = 1"},
    {"id": "c04-b-guard-flipped", "file": _F, "find": "        if self.episode_timesteps > self.horizon:", "replace": "        if self.episode_timesteps > self.horizon and True:"},
    {"id": 'c04-b-clear-mod-capacity', "file": _F, "find": '        self.mask_[self.insert_idx] = 0\n        if self.episode_timesteps > self.horizon:', "replace": '        self.mask_[self.insert_idx % self.buffer_size] = 0\n        if self.episode_timesteps > self.horizon:'},
    {"id": 'c04-b-enable-plus-capacity', "file": _F, "find": '            self.mask_[(self.insert_idx - self.horizon) % self.buffer_size] = 1', "replace": '            self.mask_[(self.insert_idx + self.buffer_size - self.horizon) % self.buffer_size] = True'},
    {"id": 'c04-b-threshold-ge-plus-one', "file": _F, "find": '        if self.episode_timesteps > self.horizon:', "replace": '        if self.episode_timesteps >= self.horizon + 1:'},
    {"id": 'c04-b-tail-if-else', "file": _F, "find": '            self.mask_[past_idx] = (\n                0 if sample["truncated"] else 1\n            )  # mask out truncated subtrajectories\n', "replace": '            if sample["truncated"]:\n                self.mask_[past_idx] = 0\n            else:\n                self.mask_[past_idx] = 1\n'},
    {"id": 'c04-b-end-flags-bool', "file": _F, "find": '        if sample["terminated"] or sample["truncated"]:\n            for k in self.buffer:', "replace": '        if bool(sample["terminated"]) or bool(sample["truncated"]):\n            for k in self.buffer:'},
    {"id": 'c04-b-items-loop-last-column', "file": _F, "find": '            batch = {}\n            for k in self.buffer:\n                if k in ["observation", "action"]:\n                    indices_without_intermediate = indices[:, 0]\n                elif k == "next_observation":\n                    indices_without_intermediate = indices[:, -1]\n                else:\n                    indices_without_intermediate = indices\n                batch[k] = jnp.asarray(\n                    self.buffer[k][indices_without_intermediate]\n                )\n            batch = self.Batch(**batch)\n', "replace": '            batch = {}\n            for name, storage in self.buffer.items():\n                if name in ["observation", "action"]:\n                    sel = indices[:, 0]\n                elif name == "next_observation":\n                    sel = indices[:, horizon - 1]\n                else:\n                    sel = indices\n                batch[name] = jnp.asarray(storage[sel])\n            batch = self.Batch(**batch)\n'},
    {"id": 'c04-b-window-broadcast-none', "file": _F, "find": '            indices[:, np.newaxis] + np.arange(horizon)[np.newaxis]\n        ) % self.current_len', "replace": '            indices[:, None] + np.arange(horizon)\n        ) % len(self)'},
    {"id": 'c04-b-sample-batch-params-renamed', "file": _F, "edits": [('        batch_size: int,\n        horizon: int,\n        include_intermediate: bool,\n        rng: np.random.Generator,\n    ) -> tuple[jnp.ndarray]:\n        """Sample a batch of transitions from the replay buffer.\n\n        Parameters\n        ----------\n        batch_size : int\n            Number of samples to be returned.\n\n        horizon : int', '        n_samples: int,\n        n_steps: int,\n        with_steps: bool,\n        gen: np.random.Generator,\n    ) -> tuple[jnp.ndarray]:\n        """Sample a batch of transitions from the replay buffer.\n\n        Parameters\n        ----------\n        batch_size : int\n            Number of samples to be returned.\n\n        horizon : int'), ('        assert batch_size > 0\n        assert horizon > 0\n\n        indices = self._sample_idx(batch_size, rng)', '        assert n_samples > 0\n        assert n_steps > 0\n\n        indices = self._sample_idx(n_samples, gen)'), ('np.arange(horizon)[np.newaxis]\n        ) % self.current_len', 'np.arange(n_steps)[np.newaxis]\n        ) % self.current_len'), ('        if include_intermediate:\n            # sample sub', '        if with_steps:\n            # sample sub')]},
    {"id": 'c04-b-sampler-mask-renamed-where', "file": _F, "edits": [('        mask: npt.NDArray[int] | None = None,\n    ) -> npt.NDArray[int]:\n        """Sample indices based on the priority distribution."""\n        priority = self.priority[:current_len]\n        if mask is not None:\n            priority = priority * mask[:current_len]\n', '        start_mask: npt.NDArray[int] | None = None,\n    ) -> npt.NDArray[int]:\n        """Sample indices based on the priority distribution."""\n        priority = self.priority[:current_len]\n        if start_mask is not None:\n            priority = np.where(start_mask[:current_len] != 0, priority, 0)\n')]},
    {"id": 'c04-b-per-len-and-local', "file": _F, "find": '        return self.priority.prioritized_sampling(\n            self.current_len, batch_size, rng, self.mask_\n        )', "replace": '        sampled = self.priority.prioritized_sampling(\n            len(self), batch_size, rng, self.mask_\n        )\n        return sampled'},
    {"id": 'c04-b-uniform-flatnonzero-kwonly', "file": _F, "edits": [('    def _sample_idx(\n        self, batch_size: int, rng: np.random.Generator\n    ) -> npt.NDArray[int]:\n        nz = np.nonzero(self.mask_)[0]\n        indices = rng.integers(0, len(nz), size=batch_size)\n        return nz[indices]\n', '    def _sample_idx(\n        self, n: int, *, rng: np.random.Generator\n    ) -> npt.NDArray[int]:\n        starts = np.flatnonzero(self.mask_ == 1)\n        return starts[rng.integers(starts.size, size=n)]\n'), ('        indices = self._sample_idx(batch_size, rng)\n', '        indices = self._sample_idx(batch_size, rng=rng)\n')]},
    {"id": 'c04-b-tail-ascending', "file": _F, "find": '            past_idx = (\n                self.insert_idx\n                - np.arange(min(self.episode_timesteps, self.horizon))\n                - 1\n            ) % self.buffer_size\n', "replace": '            n_tail = min(self.episode_timesteps, self.horizon)\n            past_idx = (self.insert_idx - n_tail + np.arange(n_tail)) % self.buffer_size\n'},
    {"id": 'c04-b-tail-count-if-statement', "file": _F, "find": '            past_idx = (\n                self.insert_idx\n                - np.arange(min(self.episode_timesteps, self.horizon))\n                - 1\n            ) % self.buffer_size\n', "replace": '            if self.episode_timesteps < self.horizon:\n                n_tail = self.episode_timesteps\n            else:\n                n_tail = self.horizon\n            past_idx = (self.insert_idx - 1 - np.arange(n_tail)) % self.buffer_size\n'},
    {"id": 'c04-b-start-draw-in-mixin', "file": _F, "edits": [('    def _sample_idx(\n        self, batch_size: int, rng: np.random.Generator\n    ) -> npt.NDArray[int]:\n        nz = np.nonzero(self.mask_)[0]\n        indices = rng.integers(0, len(nz), size=batch_size)\n        return nz[indices]\n\n', ''), ('class SubtrajectoryReplayBuffer:\n', 'class _UniformStarts:\n    def _sample_idx(\n        self, batch_size: int, rng: np.random.Generator\n    ) -> npt.NDArray[int]:\n        nz = np.nonzero(self.mask_)[0]\n        indices = rng.integers(0, len(nz), size=batch_size)\n        return nz[indices]\n\n\nclass SubtrajectoryReplayBuffer(_UniformStarts):\n')]},
    {"id": 'c04-b-ring-helpers-in-mixin', "file": _F, "edits": [('class SubtrajectoryReplayBuffer:\n', 'class _RingMixin:\n    def _advance(self):\n        self.insert_idx = (self.insert_idx + 1) % self.buffer_size\n        self.current_len = min(self.current_len + 1, self.buffer_size)\n\n\nclass SubtrajectoryReplayBuffer(_RingMixin):\n'), ('        self.current_len = min(self.current_len + 1, self.buffer_size)\n        self.episode_timesteps += 1', '        self.episode_timesteps += 1'), ('        inserted_at = [self.insert_idx]\n        self.insert_idx = (self.insert_idx + 1) % self.buffer_size\n', '        inserted_at = [self.insert_idx]\n        self._advance()\n'), ('            inserted_at += [self.insert_idx]\n            self.insert_idx = (self.insert_idx + 1) % self.buffer_size\n            self.current_len = min(self.current_len + 1, self.buffer_size)\n', '            inserted_at += [self.insert_idx]\n            self._advance()\n')]},
    {"id": 'c04-b-window-outer-sum', "file": _F, "find": '        indices = (\n            indices[:, np.newaxis] + np.arange(horizon)[np.newaxis]\n        ) % self.current_len\n', "replace": '        indices = np.add.outer(indices, np.arange(horizon)) % self.current_len\n'},
    {"id": 'c04-b-successor-row-in-items-loop', "file": _F, "find": '            for k in self.buffer:\n                if k == "reward":\n                    self.buffer[k][self.insert_idx] = 0.0\n                else:\n                    self.buffer[k][self.insert_idx] = sample[k]\n            self.buffer["observation"][self.insert_idx] = sample[\n                "next_observation"\n            ]\n', "replace": '            for name, arr in self.buffer.items():\n                if name == "observation":\n                    arr[self.insert_idx] = sample["next_observation"]\n                elif name != "reward":\n                    arr[self.insert_idx] = sample[name]\n                else:\n                    arr[self.insert_idx] = 0.0\n'},
    {"id": 'c04-b-successor-row-keys-loop-elif', "file": _F, "find": '            for k in self.buffer:\n                if k == "reward":\n                    self.buffer[k][self.insert_idx] = 0.0\n                else:\n                    self.buffer[k][self.insert_idx] = sample[k]\n            self.buffer["observation"][self.insert_idx] = sample[\n                "next_observation"\n            ]\n', "replace": '            row = self.insert_idx\n            for k in self.buffer.keys():\n                if k == "reward":\n                    self.buffer[k][row] = 0.0\n                elif "observation" == k:\n                    self.buffer[k][row] = sample["next_observation"]\n                else:\n                    self.buffer[k][row] = sample[k]\n'},
    {"id": 'c04-b-tail-noop-store-omitted', "file": _F, "find": '            self.mask_[past_idx] = (\n                0 if sample["truncated"] else 1\n            )  # mask out truncated subtrajectories\n', "replace": '            if not sample["truncated"]:\n                self.mask_[past_idx] = 1\n'},
    {"id": 'c04-b-tail-noop-store-pass-branch', "file": _F, "find": '            self.mask_[past_idx] = (\n                0 if sample["truncated"] else 1\n            )  # mask out truncated subtrajectories\n', "replace": '            if sample["truncated"]:\n                pass  # these slots were never enabled\n            else:\n                self.mask_[past_idx] = True\n'},
    {'id': 'c04-b-sampler-cdf-cache-invalidated-on-add', 'file': _F, 'edits': [('        self.sampled_indices = np.empty(0, dtype=int)\n\n    def initialize_priority', '        self.sampled_indices = np.empty(0, dtype=int)\n        self._cdf = None\n\n    def initialize_priority'), ('        priority = self.priority[:current_len]\n        if mask is not None:\n            priority = priority * mask[:current_len]\n        probabilities = np.cumsum(priority)\n        random_uniforms', '        if self._cdf is None:\n            weights = self.priority[:current_len]\n            if mask is not None:\n                weights = weights * mask[:current_len]\n            self._cdf = np.cumsum(weights)\n        probabilities = self._cdf\n        random_uniforms'), ('        self.max_priority = max(np.max(priority), self.max_priority)\n', '        self.max_priority = max(np.max(priority), self.max_priority)\n        self._cdf = None\n'), ('        self.priority[insert_idx] = self.max_priority\n', '        self.priority[insert_idx] = self.max_priority\n        self._cdf = None\n')]},
    {'id': 'c04-b-sampler-cdf-cache-invalidated-by-buffer', 'file': _F, 'edits': [('        self.sampled_indices = np.empty(0, dtype=int)\n\n    def initialize_priority', '        self.sampled_indices = np.empty(0, dtype=int)\n        self._cdf = None\n\n    def initialize_priority'), ('        priority = self.priority[:current_len]\n        if mask is not None:\n            priority = priority * mask[:current_len]\n        probabilities = np.cumsum(priority)\n        random_uniforms', '        if self._cdf is None or len(self._cdf) != current_len:\n            weights = self.priority[:current_len]\n            if mask is not None:\n                weights = weights * mask[:current_len]\n            self._cdf = np.cumsum(weights)\n        probabilities = self._cdf\n        random_uniforms'), ('        self.max_priority = max(np.max(priority), self.max_priority)\n', '        self.max_priority = max(np.max(priority), self.max_priority)\n        self._cdf = None\n'), ('        inserted_at = super().add_sample(**sample)\n        self.priority.initialize_priority(inserted_at)\n\n    def _sample_idx(\n        self, batch_size: int, rng: np.random.Generator\n    ) -> npt.NDArray[int]:\n        return self.priority.prioritized_sampling(', '        inserted_at = super().add_sample(**sample)\n        self.priority._cdf = None\n        self.priority.initialize_priority(inserted_at)\n\n    def _sample_idx(\n        self, batch_size: int, rng: np.random.Generator\n    ) -> npt.NDArray[int]:\n        return self.priority.prioritized_sampling(')]},
    {'id': 'c04-b-tail-terminated-and-not-truncated', 'file': _F, 'find': '            self.mask_[past_idx] = (\n                0 if sample["truncated"] else 1\n            )  # mask out truncated subtrajectories\n', 'replace': '            if sample["terminated"] and not sample["truncated"]:\n                self.mask_[past_idx] = 1\n'},
    {'id': 'c04-b-successor-row-loop-conditional-expression', 'file': _F, 'find': '            for k in self.buffer:\n                if k == "reward":\n                    self.buffer[k][self.insert_idx] = 0.0\n                else:\n                    self.buffer[k][self.insert_idx] = sample[k]\n            self.buffer["observation"][self.insert_idx] = sample[\n                "next_observation"\n            ]\n', 'replace': '            for k in self.buffer:\n                self.buffer[k][self.insert_idx] = 0.0 if k == "reward" else sample["next_observation" if k == "observation" else k]\n'},
    {'id': 'c04-b-successor-row-from-edited-copy', 'file': _F, 'find': '            for k in self.buffer:\n                if k == "reward":\n                    self.buffer[k][self.insert_idx] = 0.0\n                else:\n                    self.buffer[k][self.insert_idx] = sample[k]\n            self.buffer["observation"][self.insert_idx] = sample[\n                "next_observation"\n            ]\n', 'replace': '            final = dict(sample)\n            final["reward"] = 0.0\n            final["observation"] = sample["next_observation"]\n            for k in self.buffer:\n                self.buffer[k][self.insert_idx] = final[k]\n'},
    {'id': 'c04-b-sampler-cdf-cache-invalidated-through-helper', 'file': _F, 'edits': [('        self.sampled_indices = np.empty(0, dtype=int)\n\n    def initialize_priority', '        self.sampled_indices = np.empty(0, dtype=int)\n        self._cdf = None\n\n    def initialize_priority'), ('        priority = self.priority[:current_len]\n        if mask is not None:\n            priority = priority * mask[:current_len]\n        probabilities = np.cumsum(priority)\n        random_uniforms', '        if self._cdf is None:\n            weights = self.priority[:current_len]\n            if mask is not None:\n                weights = weights * mask[:current_len]\n            self._cdf = np.cumsum(weights)\n        probabilities = self._cdf\n        random_uniforms'), ('        self.max_priority = max(np.max(priority), self.max_priority)\n', '        self.max_priority = max(np.max(priority), self.max_priority)\n        self._cdf = None\n'), ('        self.priority[insert_idx] = self.max_priority\n', '        self.priority[insert_idx] = self.max_priority\n        self._touch()\n\n    def _touch(self):\n        self._cdf = None\n')]},
    {'id': 'c04-b-sampler-mask-defaults-to-ones', 'file': _F, 'nth': 0, 'find': '        priority = self.priority[:current_len]\n        if mask is not None:\n            priority = priority * mask[:current_len]\n', 'replace': '        if mask is None:\n            mask = np.ones(current_len, dtype=int)\n        priority = self.priority[:current_len] * mask[:current_len]\n'},
]

# ---- overlays for the forms read since round 2 (selector function, gather in a helper / np.take, gather after the branch, ring reduction
# as a call, last slot computed from the start, temporaries in the per-field loop, an edited copy of the transition) -----------------------
_LOOP6 = '            batch = {}\n            for k in self.buffer:\n                if k in ["observation", "action"]:\n                    indices_without_intermediate = indices[:, 0]\n                elif k == "next_observation":\n                    indices_without_intermediate = indices[:, -1]\n                else:\n                    indices_without_intermediate = indices\n                batch[k] = jnp.asarray(\n                    self.buffer[k][indices_without_intermediate]\n                )\n            batch = self.Batch(**batch)\n'
_VIEWS6 = '        if include_intermediate:\n            # sample subtrajectories (with horizon dimension) for unrolling\n            # dynamics\n            batch = self.Batch(\n                **{k: jnp.asarray(self.buffer[k][indices]) for k in self.buffer}\n            )\n        else:\n            # sample at specific horizon (used for multistep rewards)\n' + _LOOP6 + '\n        return batch\n'
_START6 = ('        indices = self._sample_idx(batch_size, rng)\n', '        first = self._sample_idx(batch_size, rng)\n')
_SUM6 = ('            indices[:, np.newaxis] + np.arange(horizon)[np.newaxis]\n', '            first[:, np.newaxis] + np.arange(horizon)[np.newaxis]\n')
_SUCC6 = '            for k in self.buffer:\n                if k == "reward":\n                    self.buffer[k][self.insert_idx] = 0.0\n                else:\n                    self.buffer[k][self.insert_idx] = sample[k]\n            self.buffer["observation"][self.insert_idx] = sample[\n                "next_observation"\n            ]\n'


def _selector6(last):
    return ('            def pick(name):\n                if name == "next_observation":\n                    return ' + last + '\n                match name:\n                    case "action" | "observation":\n                        return indices[:, 0]\n                    case _:\n                        return indices\n'
            '            batch = self.Batch(**{k: jnp.asarray(self.buffer[k][pick(k)]) for k in self.buffer})\n')


def _shared6(action):
    return ('        if include_intermediate:\n            chosen = {}\n        else:\n            chosen = {"observation": indices[:, 0], "action": ' + action + ', "next_observation": indices[:, -1]}\n'
            '        batch = self.Batch(**{k: jnp.asarray(np.take(v, chosen.get(k, indices), axis=0)) for k, v in self.buffer.items()})\n\n        return batch\n')


def _temp6(obs):
    return ('            for k in self.buffer:\n                stored = sample[k]\n                if k == "observation":\n                    stored = sample["' + obs + '"]\n                if k == "reward":\n                    stored = 0.0\n                self.buffer[k][self.insert_idx] = stored\n')


MUTANTS += [
    {"id": "c04-successor-last-of-storage-horizon", "file": _F, "rule": "R6", "edits": [_START6, _SUM6, ('                    indices_without_intermediate = indices[:, -1]\n', '                    indices_without_intermediate = (first + self.horizon - 1) % self.current_len\n')]},
    {"id": "c04-selector-function-successor-first", "file": _F, "rule": "R6", "find": _LOOP6, "replace": _selector6("indices[:, 0]")},
    {"id": "c04-gather-after-branch-action-last", "file": _F, "rule": "R6", "find": _VIEWS6, "replace": _shared6("indices[:, -1]")},
    {"id": "c04-window-np-mod-capacity", "file": _F, "rule": "R5", "find": '        indices = (\n            indices[:, np.newaxis] + np.arange(horizon)[np.newaxis]\n        ) % self.current_len\n', "replace": '        indices = np.mod(indices[:, None] + np.arange(horizon), self.buffer_size)\n'},
    {"id": "c04-successor-row-loop-temporary-keeps-observation", "file": _F, "rule": "R3", "find": _SUCC6, "replace": _temp6("observation")},
    {"id": "c04-successor-row-copy-without-observation", "file": _F, "rule": "R3", "find": _SUCC6, "replace": '            row = dict(sample, reward=0.0)\n            for k in self.buffer:\n                self.buffer[k][self.insert_idx] = row[k]\n'},
]
BENIGN += [
    {"id": "c04-b-successor-last-of-sampled-horizon", "file": _F, "edits": [_START6, _SUM6, ('                    indices_without_intermediate = indices[:, -1]\n', '                    indices_without_intermediate = np.mod(first + horizon - 1, self.current_len)\n')]},
    {"id": "c04-b-selector-function", "file": _F, "find": _LOOP6, "replace": _selector6("indices[:, -1]")},
    {"id": "c04-b-gather-after-branch-take", "file": _F, "find": _VIEWS6, "replace": _shared6("indices[:, 0]")},
    {"id": "c04-b-window-np-remainder-add", "file": _F, "find": '        indices = (\n            indices[:, np.newaxis] + np.arange(horizon)[np.newaxis]\n        ) % self.current_len\n', "replace": '        indices = np.remainder(np.add(indices[:, None], np.arange(horizon)), len(self))\n'},
    {"id": "c04-b-successor-row-loop-temporary", "file": _F, "find": _SUCC6, "replace": _temp6("next_observation")},
    {"id": "c04-b-successor-row-copy-with-replacements", "file": _F, "find": _SUCC6, "replace": '            row = dict(sample, observation=sample["next_observation"], reward=0.0)\n            for k in self.buffer:\n                self.buffer[k][self.insert_idx] = row[k]\n'},
    {"id": "c04-b-gather-take-method-both-views", "file": _F, "edits": [('                **{k: jnp.asarray(self.buffer[k][indices]) for k in self.buffer}\n', '                **{k: jnp.asarray(self.buffer[k].take(indices, axis=0)) for k in self.buffer}\n'), ('                batch[k] = jnp.asarray(\n                    self.buffer[k][indices_without_intermediate]\n                )\n', '                batch[k] = jnp.asarray(np.take(self.buffer[k], indices_without_intermediate, 0))\n')]},
    {"id": "c04-b-gather-helper-method", "file": _F, "edits": [('                **{k: jnp.asarray(self.buffer[k][indices]) for k in self.buffer}\n', '                **{k: self._rows(indices, k) for k in self.buffer}\n'), ('                batch[k] = jnp.asarray(\n                    self.buffer[k][indices_without_intermediate]\n                )\n', '                batch[k] = self._rows(where=indices_without_intermediate, field=k)\n'), ('    def _sample_idx(\n        self, batch_size: int, rng: np.random.Generator\n    ) -> npt.NDArray[int]:\n        nz = np.nonzero', '    def _rows(self, where, field):\n        picked = self.buffer[field][where]\n        return jnp.asarray(picked)\n\n    def _sample_idx(\n        self, batch_size: int, rng: np.random.Generator\n    ) -> npt.NDArray[int]:\n        nz = np.nonzero')]},
    {"id": "c04-b-end-guard-clause", "file": _F, "find": '        if sample["terminated"] or sample["truncated"]:\n            for k in self.buffer:', "replace": '        if not (sample["terminated"] or sample["truncated"]):\n            return inserted_at\n        if True:\n            for k in self.buffer:'},
]
