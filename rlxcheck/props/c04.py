"""C04 - sampled subtrajectories are contiguous single-episode runs (necessary structural conditions only)."""
from __future__ import annotations

import ast

from ..cfg import CFG
from ..loops import dotted
from ..nf import NF, Scope, Poly, parse_expr
from ..repo import Repo, loc, short, AnalysisError, positional_params, param_names, bind_call
from ..sem import guard_literals, spec, stmt_calls, on_every_path_once

EXPLANATION = (
    "Window validity is modular index arithmetic over arbitrary add-histories; no sound static argument in reach bounds it, so the "
    "behavioural statement itself is NOT decided. Decided are six structural conditions each of which is necessary - breaking it breaks "
    "the behaviour: (R1) the mask of every slot that is written (transition slot and the extra successor row) is cleared before the "
    "write position advances; (R2) the enabling store mask[(insert - h) mod size] = 1 uses the same h as its strict guard "
    "episode_timesteps > h; (R3) the episode tail is enabled on termination and disabled on truncation over min(episode_timesteps, "
    "horizon) slots, and the episode counter is reset in that branch; (R4) every _sample_idx draws start indices from mask_ only; (R5) "
    "window indices are (start[:, None] + arange(horizon)) mod current_len; (R6) the no-intermediate view takes observation/action from "
    "the first and next_observation from the last step of the same window."
)
TRUSTED = ["numpy nonzero / modular indexing semantics"]
RULES = {
    "R1-mask-clear-on-write": "mask_[insert_idx] = 0 precedes the advance; the extra successor row's mask is cleared too",
    "R2-enable-offset-agreement": "mask_[(insert_idx - H) % buffer_size] = 1 is guarded by episode_timesteps > H with the same H (strict)",
    "R3-tail": "in the episode-end branch the last min(episode_timesteps, horizon) slots get 0 iff truncated else 1, episode_timesteps is reset to 0, the successor row stores next_observation as observation and reward 0",
    "R4-start-from-mask": "uniform: nz = nonzero(mask_)[0], start = nz[rng.integers(0, len(nz))]; PER: sampler receives (current_len, ..., mask_)",
    "R5-window-indices": "indices = (start[:, newaxis] + arange(horizon)[newaxis]) % current_len",
    "R6-no-intermediate-view": "observation, action -> indices[:, 0]; next_observation -> indices[:, -1]; everything else the full window",
}

RB = "rl_blox.blox.replay_buffer."
CQ = RB + "SubtrajectoryReplayBuffer"


def _m(repo, cq, name):
    m = repo.method(cq, name, inherited=False)
    if m is None:
        raise AnalysisError(f"{cq}.{name} not found (anchor vanished)")
    fn = m[1]
    fn._module = repo.cls(cq)._module
    return fn


class MaskStore:
    """A write of mask_: direct `self.mask_[idx] = val` or through a one-store helper method `self.h(idx, flag)`."""

    def __init__(self, node, idx, val, via=None):
        self.node, self.idx, self.val, self.via = node, idx, val, via
        self.id = node.id
        self.ast = node.ast

    def value(self) -> str:
        return _norm_val(self.val)


def _norm_val(v) -> str:
    """Canonical text of a stored mask value: constants, and `a if c else b` with constant / negated conditions folded."""
    if isinstance(v, ast.Constant) and isinstance(v.value, (bool, int)):
        return str(int(v.value))
    if isinstance(v, ast.IfExp):
        t, a, b = v.test, v.body, v.orelse
        if isinstance(t, ast.Constant):
            return _norm_val(a if t.value else b)
        if isinstance(t, ast.UnaryOp) and isinstance(t.op, ast.Not):
            return _norm_val(ast.IfExp(test=t.operand, body=b, orelse=a))
        return f"{_norm_val(a)} if {ast.unparse(t)} else {_norm_val(b)}"
    return ast.unparse(v)


class _Subst(ast.NodeTransformer):
    def __init__(self, m):
        self.m = m

    def visit_Name(self, n):
        return self.m.get(n.id, n)


def _mask_stores(cfg, cls=None):
    import copy
    out = []
    helpers = {}
    if cls is not None:
        for meth in cls.body:
            if isinstance(meth, ast.FunctionDef):
                sts = [x for x in ast.walk(meth) if isinstance(x, ast.Assign) and isinstance(x.targets[0], ast.Subscript) and dotted(x.targets[0].value) == "self.mask_"]
                params = [a.arg for a in meth.args.args[1:]]
                if len(sts) == 1 and meth.name not in ("add_sample", "__init__") and isinstance(sts[0].targets[0].slice, ast.Name) and sts[0].targets[0].slice.id in params:
                    helpers[meth.name] = (meth, sts[0], params)
    for n in cfg.nodes:
        s = n.ast
        if n.kind == "stmt" and isinstance(s, ast.Assign) and isinstance(s.targets[0], ast.Subscript) and dotted(s.targets[0].value) == "self.mask_":
            out.append(MaskStore(n, s.targets[0].slice, s.value))
        elif n.kind == "stmt" and isinstance(s, ast.Expr) and isinstance(s.value, ast.Call) and isinstance(s.value.func, ast.Attribute) and dotted(s.value.func.value) == "self" and s.value.func.attr in helpers:
            meth, st, params = helpers[s.value.func.attr]
            m = {p: a for p, a in zip(params, s.value.args)}
            for k in s.value.keywords:
                m[k.arg] = k.value
            idx = _Subst(m).visit(copy.deepcopy(st.targets[0].slice))
            val = _Subst(m).visit(copy.deepcopy(st.value))
            out.append(MaskStore(n, idx, val, via=meth.name))
    return out


_KEYS = ("observation", "action", "reward", "next_observation", "terminated", "truncated")


def _const_test(t, k, env):
    """Evaluate a test on the loop key ``k`` (a constant); None if it does not only depend on the key."""
    if isinstance(t, ast.Compare) and len(t.ops) == 1 and isinstance(t.left, ast.Name) and t.left.id == "k":
        op, c = t.ops[0], t.comparators[0]
        if isinstance(c, ast.Name) and isinstance(env.get(c.id), ast.Dict):
            c = ast.List(elts=[x for x in env[c.id].keys if x is not None], ctx=ast.Load())
        if isinstance(op, (ast.Eq, ast.NotEq)) and isinstance(c, ast.Constant):
            r = c.value == k
            return r if isinstance(op, ast.Eq) else not r
        if isinstance(op, (ast.In, ast.NotIn)) and isinstance(c, (ast.List, ast.Tuple, ast.Set)) and all(isinstance(x, ast.Constant) for x in c.elts):
            r = k in [x.value for x in c.elts]
            return r if isinstance(op, ast.In) else not r
        return None
    if isinstance(t, ast.BoolOp):
        vs = [_const_test(x, k, env) for x in t.values]
        if any(v is None for v in vs):
            return None
        return all(vs) if isinstance(t.op, ast.And) else any(vs)
    if isinstance(t, ast.UnaryOp) and isinstance(t.op, ast.Not):
        v = _const_test(t.operand, k, env)
        return None if v is None else not v
    return None


def _specialise(e, k, env):
    """Resolve key-dependent selections in an index expression for the concrete key ``k``."""
    if isinstance(e, ast.Name) and e.id in env and not isinstance(env[e.id], ast.Dict):
        return _specialise(env[e.id], k, env)
    if isinstance(e, ast.IfExp):
        v = _const_test(e.test, k, env)
        if v is None:
            raise AnalysisError(f"{CQ}.sample_batch: index selection `{short(e, 60)}` does not only depend on the field name (unrecognised idiom)")
        return _specialise(e.body if v else e.orelse, k, env)
    if isinstance(e, ast.Call) and isinstance(e.func, ast.Attribute) and e.func.attr == "get" and isinstance(e.func.value, ast.Name) and isinstance(env.get(e.func.value.id), ast.Dict) \
            and e.args and isinstance(e.args[0], ast.Name) and e.args[0].id == "k":
        d = env[e.func.value.id]
        for kk, vv in zip(d.keys, d.values):
            if isinstance(kk, ast.Constant) and kk.value == k:
                return _specialise(vv, k, env)
        if len(e.args) > 1:
            return _specialise(e.args[1], k, env)
        raise AnalysisError(f"{CQ}.sample_batch: `{short(e, 60)}` has no default for field `{k}`")
    if isinstance(e, ast.Subscript) and isinstance(e.value, ast.Name) and isinstance(env.get(e.value.id), ast.Dict) and isinstance(e.slice, ast.Name) and e.slice.id == "k":
        d = env[e.value.id]
        for kk, vv in zip(d.keys, d.values):
            if isinstance(kk, ast.Constant) and kk.value == k:
                return _specialise(vv, k, env)
        raise AnalysisError(f"{CQ}.sample_batch: `{short(e, 60)}` has no entry for field `{k}`")
    return e


_REDUCER_CALLS = {"mod", "remainder", "fmod", "where", "take", "divmod"}


def _offset_unreduced(e, at, cfg, depth=0):
    """True when a horizon-dependent offset occurs in index expression ``e`` outside every ring reduction (%, np.mod, np.where, take)."""
    if depth > 10:
        return False
    if isinstance(e, ast.BinOp) and isinstance(e.op, ast.Mod):
        return False
    if isinstance(e, ast.Call) and ((isinstance(e.func, ast.Attribute) and e.func.attr in _REDUCER_CALLS) or (isinstance(e.func, ast.Name) and e.func.id in _REDUCER_CALLS)):
        return False
    if isinstance(e, ast.Name):
        if e.id == "horizon":
            return True
        ds = cfg.defs_of(at, e.id)
        if len(ds) == 1 and ds[0].kind == "assign" and ds[0].value is not None:
            return _offset_unreduced(ds[0].value, ds[0].node, cfg, depth + 1)
        return False
    if isinstance(e, ast.Subscript):
        return _offset_unreduced(e.value, at, cfg, depth + 1)
    return any(_offset_unreduced(c, at, cfg, depth + 1) for c in ast.iter_child_nodes(e))


def _gather_index(e):
    """IDX of the (single) `self.buffer[k][IDX]` gather inside expression e."""
    gs = [n for n in ast.walk(e) if isinstance(n, ast.Subscript) and isinstance(n.value, ast.Subscript) and dotted(n.value.value) == "self.buffer"
          and isinstance(n.value.slice, ast.Name) and n.value.slice.id == "k"]
    return gs[0].slice if len(gs) == 1 else None


def _field_indices(cfg, stmts, fn):
    """field name -> (index expression, CFG node at which to normalise it) for the statements of the no-intermediate branch."""
    out = {}
    env = {}   # locals of the branch that hold selection tables / per-key choices

    def node_of(st):
        return cfg.stmt_node[id(st)]

    def run_body(body, k, kenv):
        for st in body:
            if isinstance(st, ast.If):
                v = _const_test(st.test, k, kenv)
                if v is None:
                    raise AnalysisError(f"{CQ}.sample_batch: branch `{short(st.test, 50)}` inside the per-field loop does not only depend on the field name (unrecognised idiom)")
                run_body(st.body if v else st.orelse, k, kenv)
            elif isinstance(st, ast.Assign) and len(st.targets) == 1:
                t = st.targets[0]
                ix = _gather_index(st.value)
                if ix is not None:
                    out[k] = (_specialise(ix, k, kenv), kenv.get("@at", node_of(st)))
                elif isinstance(t, ast.Name):
                    kenv[t.id] = st.value
                    kenv["@at"] = node_of(st)
    for st in stmts:
        if isinstance(st, ast.For) and isinstance(st.target, ast.Name) and st.target.id == "k" and dotted(st.iter) in ("self.buffer", "self.buffer.keys()"):
            for k in _KEYS:
                run_body(st.body, k, dict(env))
        elif isinstance(st, ast.Assign) and len(st.targets) == 1 and isinstance(st.targets[0], ast.Name) and isinstance(st.value, ast.Dict) and all(isinstance(x, ast.Constant) for x in st.value.keys if x is not None) \
                and not any(isinstance(x, (ast.DictComp,)) for x in ast.walk(st.value)):
            env[st.targets[0].id] = st.value
        else:
            for dc in [x for x in ast.walk(st) if isinstance(x, ast.DictComp)]:
                g = dc.generators[0]
                if len(dc.generators) == 1 and isinstance(g.target, ast.Name) and g.target.id == "k" and dotted(g.iter) in ("self.buffer", "self.buffer.keys()") and not g.ifs:
                    ix = _gather_index(dc.value)
                    if ix is None:
                        continue
                    for k in _KEYS:
                        out[k] = (_specialise(ix, k, env), node_of(st))
    return out


def run(ck, repo: Repo, tier: str):
    nf = NF(repo, inline_depth=1, inline_calls=False)
    fn = _m(repo, CQ, "add_sample")
    mi = fn._module
    cfg = nf.cfg_of(fn)
    site = CQ + ".add_sample"
    sc = Scope(None, mi, {}, site)
    masks = _mask_stores(cfg, repo.cls(CQ))
    advs = [n for n in cfg.nodes if n.kind == "stmt" and isinstance(n.ast, ast.Assign) and dotted(n.ast.targets[0]) == "self.insert_idx"]
    ck.need(len(advs) == 2, f"{site}: expected two advances of insert_idx (transition + successor row), found {len(advs)}")
    for a in advs:
        v = nf.poly(a.ast.value, sc, None).canon()
        ck.ob("R1-mask-clear-on-write", site, f"advance:{'tail' if cfg.control_deps(a.id) else 'main'}", v == "mod(1 + self.insert_idx, self.buffer_size)", f"insert_idx' = {v}", "" if v == "mod(1 + self.insert_idx, self.buffer_size)" else "the write position must advance by one modulo the capacity", loc(mi, a.ast))
    a_main = next(a for a in advs if not cfg.control_deps(a.id))
    a_tail = next(a for a in advs if cfg.control_deps(a.id))
    # R1: a clear store at the write slot before each advance
    def idx_of(n):
        return nf.poly(n.idx, sc, None).canon()
    clears_main = [n for n in masks if idx_of(n) == "self.insert_idx" and n.value() == "0" and not cfg.control_deps(n.id)]
    ok = len(clears_main) == 1 and cfg.dominates(clears_main[0].id, a_main.id)
    ck.ob("R1-mask-clear-on-write", site, "clear-transition-slot", ok, f"{[short(n.ast) for n in clears_main]}", "" if ok else "the slot being overwritten must be removed from the valid start indices before the position advances: otherwise windows cross the write position into overwritten data", loc(mi, fn))
    clears_tail = [n for n in masks if idx_of(n) in ("self.insert_idx", "mod(self.insert_idx, self.buffer_size)") and n.value() == "0" and cfg.control_deps(n.id)]
    ok = len(clears_tail) == 1 and cfg.dominates(a_main.id, clears_tail[0].id) and cfg.dominates(clears_tail[0].id, a_tail.id)
    ck.ob("R1-mask-clear-on-write", site, "clear-successor-row", ok, f"{[short(n.ast) for n in clears_tail]}", "" if ok else "the extra successor row written at an episode end must be excluded from the start indices", loc(mi, fn))
    # R2 enabling store
    enables = [n for n in masks if n.value() == "1"]
    ck.need(len(enables) == 1, f"{site}: {len(enables)} enabling stores `mask_[..] = 1` in add_sample (unrecognised idiom: the mask protocol was restructured)")
    ck.ob("R2-enable-offset-agreement", site, "single-enable", True, f"{[short(n.ast) for n in enables]}", "", loc(mi, fn))
    for n in enables:
        idx = idx_of(n)
        g = guard_literals(nf, cfg, mi, n.id)
        want_idx = nf.poly(parse_expr("(self.insert_idx - self.horizon) % self.buffer_size"), sc, None).canon()
        want_g = spec(nf, mi, "self.episode_timesteps > self.horizon")
        rel = [x for x in g if "episode_timesteps" in x]
        other = [x for x in g if "episode_timesteps" not in x]
        if other:
            raise AnalysisError(f"{site}: the enabling store is additionally guarded by {other} (unrecognised idiom)")
        before_adv = cfg.paths_avoiding(a_main.id, n.id, set()) is None
        ok = idx == want_idx and rel == [want_g] and before_adv
        why = ""
        if not ok:
            why = f"the start index enabled is `{idx}` under {g}: offset and threshold must both be self.horizon with a strict `>` (a window may only start `horizon` steps behind the write position once the episode is longer than the horizon)"
        ck.ob("R2-enable-offset-agreement", site, "offset-equals-threshold", ok, f"`{short(n.ast)}` if {g}", why, loc(mi, n.ast))
    # episode counter
    ET = "self.episode_timesteps"
    writes_et = [n for n in cfg.nodes if n.kind == "stmt" and isinstance(n.ast, (ast.Assign, ast.AugAssign)) and dotted(n.ast.targets[0] if isinstance(n.ast, ast.Assign) else n.ast.target) == ET]

    def new_value(n):
        if isinstance(n.ast, ast.Assign):
            return nf.poly(n.ast.value, sc, None).canon()
        return nf._binop_polys(Poly.atom(ET, {ET}, {ET}), nf.poly(n.ast.value, sc, None), n.ast.op).canon()
    incs = [n for n in writes_et if new_value(n) == f"1 + {ET}"]
    resets = [n for n in writes_et if new_value(n) == "0"]
    odd = [n for n in writes_et if n not in incs and n not in resets]
    ok = len(incs) == 1 and not odd and not cfg.control_deps(incs[0].id) and all(cfg.dominates(incs[0].id, n.id) for n in enables)
    ck.ob("R2-enable-offset-agreement", site, "episode-counter", ok, f"{[short(n.ast) for n in writes_et]}", "" if ok else "episode_timesteps must count this step (exactly +1, unconditionally) before the guard is evaluated", loc(mi, fn))
    # R3 tail
    tails = [n for n in masks if n not in enables and n not in clears_main and n not in clears_tail]
    ck.need(len(tails) == 1, f"{site}: {len(tails)} tail stores in add_sample (unrecognised idiom: the mask protocol was restructured)")
    ck.ob("R3-tail", site, "single-tail-store", True, f"{[short(n.ast, 70) for n in tails]}", "", loc(mi, fn))
    if len(tails) == 1:
        t = tails[0]
        g = guard_literals(nf, cfg, mi, t.id)
        want_end = {spec(nf, mi, "sample['terminated'] or sample['truncated']"), spec(nf, mi, "sample['truncated'] or sample['terminated']")}
        okg = len(g) == 1 and g[0] in want_end
        if not okg and not any("terminated" in x or "truncated" in x for x in g):
            raise AnalysisError(f"{site}: the tail store is guarded by {g} (unrecognised idiom)")
        ck.ob("R3-tail", site, "episode-end-branch", okg, f"under {g}", "" if okg else "the tail is (de)activated exactly when the episode ended (terminated or truncated)", loc(mi, t.ast))
        v = t.value()
        vc = nf.poly(t.val, sc, None).canon()
        good = {nf.poly(parse_expr(x), sc, None).canon() for x in ("0 if sample['truncated'] else 1", "1 - sample['truncated']", "not sample['truncated']", "int(not sample['truncated'])", "1 - int(sample['truncated'])")}
        okv = v == "0 if sample['truncated'] else 1" or vc in good
        if not okv and "truncated" in vc and "terminated" not in vc and vc not in ("sample['truncated']",) and not vc.startswith("ite("):
            raise AnalysisError(f"{site}: tail value `{vc}` not recognised")
        ck.ob("R3-tail", site, "truncated-disables", okv, f"value = {v}", "" if okv else "truncated tails must be masked out (0), terminated tails enabled (1)", loc(mi, t.ast))
        # index expression via reaching definition
        idx = t.idx
        if isinstance(idx, ast.Name):
            ds = cfg.defs_of(t.id, idx.id)
            idx = ds[0].value if len(ds) == 1 else idx
        iv = nf.poly(idx, sc, None).canon()
        want = nf.poly(parse_expr("(self.insert_idx - np.arange(min(self.episode_timesteps, self.horizon)) - 1) % self.buffer_size"), sc, None).canon()
        oki = iv == want and cfg.dominates(a_main.id, t.id)
        ck.ob("R3-tail", site, "last-min(len,horizon)-slots", oki, f"index = {iv}", "" if oki else f"must be the last min(episode_timesteps, horizon) written slots: {want} (evaluated after the first advance)", loc(mi, t.ast))
    ok = len(resets) == 1 and bool(cfg.control_deps(resets[0].id)) and (not tails or cfg.dominates(tails[0].id, resets[0].id)) and set(guard_literals(nf, cfg, mi, resets[0].id)) == set(guard_literals(nf, cfg, mi, tails[0].id) if tails else [])
    ck.ob("R3-tail", site, "episode-counter-reset", ok, f"{[short(n.ast) for n in resets]}", "" if ok else "episode_timesteps must be reset to 0 exactly at the episode end, after the tail was marked", loc(mi, fn))
    # successor row: written at the (advanced) write position, observation <- next_observation
    succ = []
    for n in cfg.nodes:
        s_ = n.ast
        if n.kind == "stmt" and isinstance(s_, ast.Assign) and isinstance(s_.targets[0], ast.Subscript) and isinstance(s_.targets[0].value, ast.Subscript) and dotted(s_.targets[0].value.value) == "self.buffer" \
                and cfg.paths_avoiding(a_main.id, n.id, set()) is not None and cfg.paths_avoiding(n.id, a_tail.id, set()) is not None and cfg.control_deps(n.id):
            succ.append(n)
    obs_rows = [n for n in succ if isinstance(n.ast.targets[0].value.slice, ast.Constant) and n.ast.targets[0].value.slice.value == "observation"]
    if not obs_rows:
        raise AnalysisError(f"{site}: the store of the successor row's observation was not found (unrecognised idiom)")
    last = obs_rows[-1]
    val = nf.poly(last.ast.value, sc, None).canon()
    at_idx = all(nf.poly(n.ast.targets[0].slice, sc, None).canon() in ("self.insert_idx", "mod(self.insert_idx, self.buffer_size)") for n in succ)
    ok = val == "sample['next_observation']" and at_idx and not any(cfg.paths_avoiding(last.id, m.id, set()) is not None and m is not last for m in obs_rows if m.id != last.id and False)
    ck.ob("R3-tail", site, "successor-row-content", ok, f"`{short(last.ast, 70)}`; all successor-row stores at the advanced write position: {at_idx}",
          "" if ok else "the extra row after an episode end must hold the final successor observation at the slot following the last transition (it is what next_observation of the last window reads)", loc(mi, last.ast))
    lens = [n for n in cfg.nodes if n.kind == "stmt" and isinstance(n.ast, ast.Assign) and dotted(n.ast.targets[0]) == "self.current_len"]
    ok = len(lens) == 2 and all(nf.poly(n.ast.value, sc, None).canon() == "min(1 + self.current_len, self.buffer_size)" for n in lens)
    ck.ob("R1-mask-clear-on-write", site, "length-per-written-row", ok, f"{len(lens)} length updates", "" if ok else "each written row (incl. the successor row) increases the length, saturating at the capacity", loc(mi, fn))

    # ---- R4 ------------------------------------------------------------------------------------------------------
    f2 = _m(repo, CQ, "_sample_idx")
    c2 = nf.cfg_of(f2)
    rets = [n for n in c2.nodes if n.kind == "stmt" and isinstance(n.ast, ast.Return)]
    ck.need(len(rets) == 1, f"{CQ}._sample_idx: {len(rets)} returns (unrecognised idiom)")
    s2 = Scope(c2, mi, {p: Poly.atom(p, {p}, {p}) for p in positional_params(f2)}, CQ + "._sample_idx")
    got = nf.poly(rets[0].ast.value, s2, rets[0].id).canon()
    want = "nonzero(self.mask_)[0][rng.integers(0, len(nonzero(self.mask_)[0]), size=batch_size)]"
    if got == want:
        ck.ob("R4-start-from-mask", CQ + "._sample_idx", "uniform-over-enabled", True, f"return {got}", "", loc(mi, f2))
    else:
        # a cached / derived attribute instead of the live mask? then every writer of mask_ must refresh it (derived-state coherence)
        attrs = sorted({x.attr for x in ast.walk(f2) if isinstance(x, ast.Attribute) and isinstance(x.ctx, ast.Load) and dotted(x.value) == "self" and x.attr not in ("mask_",)})
        cls = repo.cls(CQ)
        derived = []
        for a in attrs:
            for meth in cls.body:
                if isinstance(meth, ast.FunctionDef):
                    for x in ast.walk(meth):
                        if isinstance(x, ast.Assign) and any(dotted(t) == f"self.{a}" for t in x.targets) and "self.mask_" in ast.unparse(x.value):
                            derived.append(a)
        derived = sorted(set(derived))
        if derived:
            stale = []
            for meth in cls.body:
                if not isinstance(meth, ast.FunctionDef):
                    continue
                meth._module = mi
                mc = nf.cfg_of(meth)
                for n in mc.nodes:
                    if n.kind == "stmt" and isinstance(n.ast, ast.Assign) and isinstance(n.ast.targets[0], ast.Subscript) and dotted(n.ast.targets[0].value) == "self.mask_":
                        for a in derived:
                            refresh = {m.id for m in mc.nodes if m.kind == "stmt" and isinstance(m.ast, ast.Assign) and any(dotted(t) == f"self.{a}" for t in m.ast.targets)}
                            # calls of helpers that themselves refresh are not followed: a direct refresh must lie on every path to the exit
                            pth = mc.paths_avoiding(n.id, mc.exit, refresh)
                            if pth is not None:
                                stale.append((meth.name, n, a))
            if stale:
                mname, n, a = stale[0]
                ck.ob("R4-start-from-mask", CQ + "._sample_idx", f"stale-derived:{a}", False, f"start indices read from self.{a} (derived from mask_); `{short(n.ast)}` in {mname} does not refresh it",
                      f"`self.{a}` caches a value computed from mask_, but {len(stale)} write(s) of mask_ (first: {mname} line {n.lineno}) leave it unchanged: sampling can start at slots that were just overwritten / disabled", loc(mi, n.ast))
            else:
                raise AnalysisError(f"{CQ}._sample_idx: start indices come from derived attribute(s) {derived} (unrecognised idiom)")
        elif "self.mask_" not in got:
            ck.ob("R4-start-from-mask", CQ + "._sample_idx", "uniform-over-enabled", False, f"return {got[:120]}", "start indices are not derived from mask_: disabled slots (other episodes, truncated tails, overwritten data) can be returned", loc(mi, f2))
        else:
            raise AnalysisError(f"{CQ}._sample_idx: returns `{got[:100]}` (unrecognised idiom)")
    f3 = _m(repo, RB + "SubtrajectoryReplayBufferPER", "_sample_idx")
    c3 = nf.cfg_of(f3)
    pbm = repo.method(RB + "PriorityBuffer", "prioritized_sampling")
    ck.need(pbm is not None, "PriorityBuffer.prioritized_sampling not found (anchor vanished)")
    scalls = stmt_calls(c3, lambda c: isinstance(c.func, ast.Attribute) and c.func.attr == "prioritized_sampling")
    ck.need(len(scalls) == 1, f"{RB}SubtrajectoryReplayBufferPER._sample_idx: expected one prioritized_sampling call (unrecognised idiom)")
    n3, c3call = scalls[0]
    b = bind_call(pbm[1], c3call, skip_self=True)
    s3 = Scope(c3, mi, {}, "per")
    mval = nf.poly(b["mask"], s3, n3.id).canon() if "mask" in b else None
    lval = nf.poly(b["current_len"], s3, n3.id).canon() if "current_len" in b else None
    ok = mval == "self.mask_" and lval == "self.current_len" and isinstance(n3.ast, ast.Return)
    if ok is False and mval == "self.mask_" and lval == "self.current_len":
        raise AnalysisError(f"{RB}SubtrajectoryReplayBufferPER._sample_idx: sampled indices are post-processed (unrecognised idiom)")
    ck.ob("R4-start-from-mask", RB + "SubtrajectoryReplayBufferPER._sample_idx", "mask-passed", ok, f"prioritized_sampling(current_len <- {lval}, mask <- {mval})", "" if ok else "the prioritised sampler must receive mask_ (and current_len) so that disabled starts have zero probability", loc(mi, f3))
    # the sampler multiplies the priorities by the mask on the mask-given path (path evaluation, not text)
    from ..sympath import enumerate_paths, PathEval
    pb = pbm[1]
    pb._module = mi
    cpb = nf.cfg_of(pb)
    prets = [n for n in cpb.nodes if n.kind == "stmt" and isinstance(n.ast, ast.Return)]
    ck.need(len(prets) == 1, "PriorityBuffer.prioritized_sampling: expected one return")
    env = {p_: Poly.atom(p_, {p_}, {p_}) for p_ in positional_params(pb)}
    masked_paths = unmasked = 0
    for pth in enumerate_paths(cpb, cpb.entry, {prets[0].id}):
        lits = []
        for nid, lab in pth:
            nd = cpb.nodes[nid]
            if nd.kind == "test" and lab in (True, False):
                lits += [(t_, v_ == True) for t_, v_ in cpb._lits(nd.ast.test, lab, nid)]
        mask_given = ("mask is not None", True) in lits or ("mask is None", False) in lits
        pe = PathEval(nf, cpb, mi, "ps", env).run(pth[:-1])
        txt = pe.ev(prets[0].ast.value).canon()
        for k, v in pe.store.items():
            txt = txt.replace(k, v.canon())
        if mask_given:
            masked_paths += 1
            if "mask[:current_len]*self.priority[:current_len]" not in txt and "self.priority[:current_len]*mask[:current_len]" not in txt:
                unmasked += 1
    if masked_paths == 0:
        raise AnalysisError("PriorityBuffer.prioritized_sampling: no path on which a mask is given (unrecognised idiom)")
    ck.ob("R4-start-from-mask", RB + "PriorityBuffer.prioritized_sampling", "mask-multiplied", unmasked == 0, f"{masked_paths} path(s) with a mask: sampled distribution uses priority[:len] * mask[:len]",
          "" if unmasked == 0 else "on a path where a mask is given the sampled distribution does not multiply the priorities by it: disabled start indices keep a positive probability", loc(mi, pb))

    # ---- R5 / R6 ----------------------------------------------------------------------------------------------------
    f4 = _m(repo, CQ, "sample_batch")
    c4 = nf.cfg_of(f4)
    s4 = Scope(c4, mi, {p: Poly.atom(p, {p}, {p}) for p in positional_params(f4)}, CQ + ".sample_batch")
    ifn = [n for n in c4.nodes if n.kind == "test" and isinstance(n.ast, ast.If) and ast.unparse(n.ast.test) in ("include_intermediate", "not include_intermediate")]
    if len(ifn) == 1 and ast.unparse(ifn[0].ast.test).startswith("not "):
        # swapped arms: normalise to (with-intermediate, without-intermediate)
        import copy as _copy
        sw = _copy.copy(ifn[0].ast)
        sw.body, sw.orelse = ifn[0].ast.orelse, ifn[0].ast.body
        ifn[0].ast_swapped = sw
    ck.need(len(ifn) == 1, f"{CQ}.sample_batch: include_intermediate branch not found")
    iv = nf.name("indices", s4, ifn[0].id).canon()
    want = nf.poly(parse_expr("(self._sample_idx(batch_size, rng)[:, np.newaxis] + np.arange(horizon)[np.newaxis]) % self.current_len"), Scope(None, mi, s4.env, "w"), None).canon()
    ok = iv == want
    ck.ob("R5-window-indices", CQ + ".sample_batch", "consecutive-mod-len", ok, f"indices = {iv}", "" if ok else f"must be {want}: consecutive slots from the sampled start, wrapped at current_len (buffer_size would read never-written slots of a partly filled buffer)", loc(mi, f4))
    # no-intermediate view: which index gathers each field (key-specialised partial evaluation of the branch)
    per_key = _field_indices(c4, getattr(ifn[0], 'ast_swapped', ifn[0].ast).orelse, f4)
    ck.need(per_key, f"{CQ}.sample_batch: per-field index selection of the no-intermediate view not found (unrecognised idiom)")
    w_first = nf.poly(parse_expr("indices[:, 0]"), s4, ifn[0].id).canon()
    w_last = nf.poly(parse_expr("indices[:, -1]"), s4, ifn[0].id).canon()
    w_all = iv
    start_c = nf.poly(parse_expr("self._sample_idx(batch_size, rng)"), Scope(None, mi, s4.env, "w"), None).canon()
    REDUCERS = ("mod(", "remainder(", "fmod(", "where(", "take(", "divmod(")
    for key, (ix, at) in sorted(per_key.items()):
        got = nf.poly(ix, s4, at).canon()
        role = "first" if key in ("observation", "action") else "last" if key == "next_observation" else "window"
        want_k = {"first": w_first, "last": w_last, "window": w_all}[role]
        ok = got == want_k or (role == "first" and got == start_c)   # start itself lies in [0, current_len): same slot as column 0
        why = ""
        if not ok:
            if start_c not in got:
                why = f"the gather index of `{key}` does not derive from the sampled start index: the field comes from another transition than the rest of the row"
            elif role == "last" and _offset_unreduced(ix, at, c4):
                why = (f"the successor index of `{key}` ({got[:90]}) is an offset from the start that is never reduced modulo the ring length: "
                       "windows that wrap around the end of the storage read the wrong slot (or clamp to the last slot)")
            elif role == "last" and got.startswith(w_all + "["):
                why = f"`{key}` is gathered at another column of the window ({got[len(w_all):]}) than the last one: the successor observation does not belong to the end of the n-step window"
            elif role == "window" or role == "first":
                why = f"`{key}` must be gathered at {'the first column of the window' if role == 'first' else 'the full window'} ({want_k[:80]}), got {got[:90]}"
            else:
                raise AnalysisError(f"{CQ}.sample_batch: successor index `{got[:120]}` is neither indices[:, -1] nor a form this check can decide")
        ck.ob("R6-no-intermediate-view", CQ + ".sample_batch", f"field:{key}", ok, f"{key} <- buffer[{short(ix, 50)}]", why, loc(mi, ix) if hasattr(ix, "lineno") else loc(mi, f4))
    ck.floor("no-intermediate-fields", len(per_key), 5)


_F = "rl_blox/blox/replay_buffer.py"
MUTANTS = [
    {"id": "c04-table-clamped-successor", "file": "rl_blox/blox/replay_buffer.py", "rule": "R6", "find": "            batch = {}\n            for k in self.buffer:\n                if k in [\"observation\", \"action\"]:\n                    indices_without_intermediate = indices[:, 0]\n                elif k == \"next_observation\":\n                    indices_without_intermediate = indices[:, -1]\n                else:\n                    indices_without_intermediate = indices\n                batch[k] = jnp.asarray(\n                    self.buffer[k][indices_without_intermediate]\n                )\n            batch = self.Batch(**batch)\n", "replace": "            select = {\n                \"observation\": indices[:, 0],\n                \"action\": indices[:, 0],\n                \"next_observation\": np.minimum(indices[:, 0] + horizon, self.current_len) - 1,\n            }\n            batch = self.Batch(\n                **{\n                    k: jnp.asarray(self.buffer[k][select.get(k, indices)])\n                    for k in self.buffer\n                }\n            )\n"},
    {"id": "c04-table-action-last", "file": "rl_blox/blox/replay_buffer.py", "rule": "R6", "find": "            batch = {}\n            for k in self.buffer:\n                if k in [\"observation\", \"action\"]:\n                    indices_without_intermediate = indices[:, 0]\n                elif k == \"next_observation\":\n                    indices_without_intermediate = indices[:, -1]\n                else:\n                    indices_without_intermediate = indices\n                batch[k] = jnp.asarray(\n                    self.buffer[k][indices_without_intermediate]\n                )\n            batch = self.Batch(**batch)\n", "replace": "            select = {\n                \"observation\": indices[:, 0],\n                \"action\": indices[:, -1],\n                \"next_observation\": indices[:, -1],\n            }\n            batch = self.Batch(\n                **{\n                    k: jnp.asarray(self.buffer[k][select.get(k, indices)])\n                    for k in self.buffer\n                }\n            )\n"},
    {"id": "c04-no-clear", "file": _F, "rule": "R1", "find": "        self.mask_[self.insert_idx] = 0\n        if self.episode_timesteps > self.horizon:", "replace": "        if self.episode_timesteps > self.horizon:"},
    {"id": "c04-clear-after-advance", "file": _F, "rule": "R1", "find": "        self.mask_[self.insert_idx] = 0\n        if self.episode_timesteps > self.horizon:\n            self.mask_[(self.insert_idx - self.horizon) % self.buffer_size] = 1\n\n        inserted_at = [self.insert_idx]\n        self.insert_idx = (self.insert_idx + 1) % self.buffer_size\n",
     "replace": "        if self.episode_timesteps > self.horizon:\n            self.mask_[(self.insert_idx - self.horizon) % self.buffer_size] = 1\n\n        inserted_at = [self.insert_idx]\n        self.insert_idx = (self.insert_idx + 1) % self.buffer_size\n        self.mask_[self.insert_idx] = 0\n"},
    {"id": "c04-guard-ge", "file": _F, "rule": "R2", "find": "        if self.episode_timesteps > self.horizon:", "replace": "        if self.episode_timesteps >= self.horizon:"},
    {"id": "c04-offset-minus-one", "file": _F, "rule": "R2", "find": "            self.mask_[(self.insert_idx - self.horizon) % self.buffer_size] = 1", "replace": "            self.mask_[(self.insert_idx - self.horizon + 1) % self.buffer_size] = 1"},
    {"id": "c04-truncated-enabled", "file": _F, "rule": "R3", "find": "                0 if sample[\"truncated\"] else 1", "replace": "                0 if sample[\"terminated\"] else 1"},
    {"id": "c04-tail-horizon-only", "file": _F, "rule": "R3", "find": "                - np.arange(min(self.episode_timesteps, self.horizon))", "replace": "                - np.arange(self.horizon)"},
    {"id": "c04-no-episode-reset", "file": _F, "rule": "R3", "find": "            self.episode_timesteps = 0\n", "replace": ""},
    {"id": "c04-successor-not-cleared", "file": _F, "rule": "R1", "find": "            self.mask_[self.insert_idx % self.buffer_size] = 0\n", "replace": ""},
    {"id": "c04-sample-any-start", "file": _F, "rule": "R4", "find": "        nz = np.nonzero(self.mask_)[0]", "replace": "        nz = np.arange(self.current_len)"},
    {"id": "c04-window-mod-capacity", "file": _F, "rule": "R5", "find": "        ) % self.current_len\n", "replace": "        ) % self.buffer_size\n"},
    {"id": "c04-window-stride", "file": _F, "rule": "R5", "find": "            indices[:, np.newaxis] + np.arange(horizon)[np.newaxis]", "replace": "            indices[:, np.newaxis] + 2 * np.arange(horizon)[np.newaxis]"},
    {"id": "c04-next-obs-first", "file": _F, "rule": "R6", "find": "                    indices_without_intermediate = indices[:, -1]", "replace": "                    indices_without_intermediate = indices[:, 0]"},
    {"id": "c04-action-last", "file": _F, "rule": "R6", "find": "                if k in [\"observation\", \"action\"]:", "replace": "                if k in [\"observation\"]:"},
]
BENIGN = [
    {"id": "c04-b-sampler-inplace-mask", "file": _F, "nth": 0, "find": "            priority = priority * mask[:current_len]", "replace": "            priority = priority.copy()\n            priority *= mask[:current_len]"},
    {"id": "c04-b-done-alias", "file": _F, "find": "        if sample[\"terminated\"] or sample[\"truncated\"]:\n            for k in self.buffer:", "replace": "        episode_over = sample[\"terminated\"] or sample[\"truncated\"]\n        if episode_over:\n            for k in self.buffer:"},
    {"id": "c04-b-counter-explicit", "file": _F, "find": "        self.episode_timesteps += 1\n", "replace": "        self.episode_timesteps = self.episode_timesteps + 1\n"},
    {"id": "c04-b-tail-value-int-not", "file": _F, "find": "            self.mask_[past_idx] = (\n                0 if sample[\"truncated\"] else 1\n            )", "replace": "            self.mask_[past_idx] = int(not sample[\"truncated\"])"},
    {"id": "c04-b-per-keywords", "file": _F, "find": "        return self.priority.prioritized_sampling(\n            self.current_len, batch_size, rng, self.mask_\n        )", "replace": "        return self.priority.prioritized_sampling(\n            current_len=self.current_len, batch_size=batch_size, rng=rng, mask=self.mask_\n        )"},
    {"id": "c04-b-enable-guard-flipped", "file": _F, "find": "        if self.episode_timesteps > self.horizon:\n", "replace": "        if self.horizon < self.episode_timesteps:\n"},
    {"id": "c04-b-table-comprehension", "file": "rl_blox/blox/replay_buffer.py", "find": "            batch = {}\n            for k in self.buffer:\n                if k in [\"observation\", \"action\"]:\n                    indices_without_intermediate = indices[:, 0]\n                elif k == \"next_observation\":\n                    indices_without_intermediate = indices[:, -1]\n                else:\n                    indices_without_intermediate = indices\n                batch[k] = jnp.asarray(\n                    self.buffer[k][indices_without_intermediate]\n                )\n            batch = self.Batch(**batch)\n", "replace": "            select = {\n                \"observation\": indices[:, 0],\n                \"action\": indices[:, 0],\n                \"next_observation\": indices[:, -1],\n            }\n            batch = self.Batch(\n                **{\n                    k: jnp.asarray(self.buffer[k][select.get(k, indices)])\n                    for k in self.buffer\n                }\n            )\n"},
    {"id": "c04-b-enable-commuted", "file": _F, "find": "            self.mask_[(self.insert_idx - self.horizon) % self.buffer_size] = 1", "replace": "            self.mask_[(-self.horizon + self.insert_idx) % self.buffer_size] = 1"},
    {"id": "c04-b-guard-flipped", "file": _F, "find": "        if self.episode_timesteps > self.horizon:", "replace": "        if self.episode_timesteps > self.horizon and True:"},
]
