"""C04 - sampled subtrajectories are contiguous single-episode runs (necessary structural conditions only)."""
from __future__ import annotations

import ast
from ..expand import clone

from ..cfg import CFG
from ..loops import dotted
from ..nf import NF, Scope, Poly, parse_expr
from ..sem import same_ingredients
from ..repo import Repo, loc, short, AnalysisError, positional_params, param_names, bind_call
from ..sem import guard_literals, spec, stmt_calls, on_every_path_once

EXPLANATION = (
    "Window validity is modular index arithmetic over arbitrary add-histories; no sound static argument in reach bounds it, so the "
    "behavioural statement itself is NOT decided. Decided are six structural conditions each of which is necessary - breaking it breaks "
    "the behaviour: (R1) the mask of every slot that is written (transition slot and the extra successor row) is cleared before the "
    "write position advances; (R2) the enabling store mask[(insert - h) mod size] = 1 uses the same h as its strict guard "
    "episode_timesteps > h; (R3) the episode tail is enabled on termination and disabled on truncation over min(episode_timesteps, "
    "horizon) slots, and the episode counter is reset in that branch; (R4) every _sample_idx draws start indices from mask_ only; (R5) "
    "window indices are (start[:, None] + arange(horizon)) mod current_len; (R6) the no-intermediate view takes observation/action from "
    "the first and next_observation from the last step of the same window."
)
TRUSTED = ["numpy nonzero / modular indexing semantics"]
RULES = {
    "R1-mask-clear-on-write": "mask_[insert_idx] = 0 precedes the advance; the extra successor row's mask is cleared too",
    "R2-enable-offset-agreement": "mask_[(insert_idx - H) % buffer_size] = 1 is guarded by episode_timesteps > H with the same H (strict)",
    "R3-tail": "in the episode-end branch the last min(episode_timesteps, horizon) slots get 0 iff truncated else 1, episode_timesteps is reset to 0, the successor row stores next_observation as observation and reward 0",
    "R4-start-from-mask": "uniform: nz = nonzero(mask_)[0], start = nz[rng.integers(0, len(nz))]; PER: sampler receives (current_len, ..., mask_)",
    "R5-window-indices": "indices = (start[:, newaxis] + arange(horizon)[newaxis]) % current_len",
    "R6-no-intermediate-view": "observation, action -> indices[:, 0]; next_observation -> indices[:, -1]; everything else the full window",
}

RB = "rl_blox.blox.replay_buffer."
CQ = RB + "SubtrajectoryReplayBuffer"


def _m(repo, cq, name):
    m = repo.method(cq, name, inherited=False)
    if m is None:
        raise AnalysisError(f"{cq}.{name} not found (anchor vanished)")
    fn = m[1]
    fn._module = repo.cls(cq)._module
    return fn


class MaskStore:
    """A write of mask_: direct `self.mask_[idx] = val` or through a one-store helper method `self.h(idx, flag)`."""

    def __init__(self, node, idx, val, via=None):
        self.node, self.idx, self.val, self.via = node, idx, val, via
        self.id = node.id
        self.ast = node.ast

    def value(self) -> str:
        return _norm_val(self.val)


def _norm_val(v) -> str:
    """Canonical text of a stored mask value: constants, and `a if c else b` with constant / negated conditions folded."""
    if isinstance(v, ast.Constant) and isinstance(v.value, (bool, int)):
        return str(int(v.value))
    if isinstance(v, ast.IfExp):
        t, a, b = v.test, v.body, v.orelse
        if isinstance(t, ast.Constant):
            return _norm_val(a if t.value else b)
        if isinstance(t, ast.UnaryOp) and isinstance(t.op, ast.Not):
            return _norm_val(ast.IfExp(test=t.operand, body=b, orelse=a))
        return f"{_norm_val(a)} if {ast.unparse(t)} else {_norm_val(b)}"
    return ast.unparse(v)


class _Subst(ast.NodeTransformer):
    def __init__(self, m):
        self.m = m

    def visit_Name(self, n):
        return self.m.get(n.id, n)


def _mask_stores(cfg, cls=None):
    import copy
    out = []
    helpers = {}
    if cls is not None:
        for meth in cls.body:
            if isinstance(meth, ast.FunctionDef):
                sts = [x for x in ast.walk(meth) if isinstance(x, ast.Assign) and isinstance(x.targets[0], ast.Subscript) and dotted(x.targets[0].value) == "self.mask_"]
                params = [a.arg for a in meth.args.args[1:]]
                if len(sts) == 1 and meth.name not in ("add_sample", "__init__") and isinstance(sts[0].targets[0].slice, ast.Name) and sts[0].targets[0].slice.id in params:
                    helpers[meth.name] = (meth, sts[0], params)
    for n in cfg.nodes:
        s = n.ast
        if n.kind == "stmt" and isinstance(s, ast.Assign) and isinstance(s.targets[0], ast.Subscript) and dotted(s.targets[0].value) == "self.mask_":
            out.append(MaskStore(n, s.targets[0].slice, s.value))
        elif n.kind == "stmt" and isinstance(s, ast.Expr) and isinstance(s.value, ast.Call) and isinstance(s.value.func, ast.Attribute) and dotted(s.value.func.value) == "self" and s.value.func.attr in helpers:
            meth, st, params = helpers[s.value.func.attr]
            m = {p: a for p, a in zip(params, s.value.args)}
            for k in s.value.keywords:
                m[k.arg] = k.value
            idx = _Subst(m).visit(clone(st.targets[0].slice))
            val = _Subst(m).visit(clone(st.value))
            out.append(MaskStore(n, idx, val, via=meth.name))
    return out


_KEYS = ("observation", "action", "reward", "next_observation", "terminated", "truncated")


def _const_test(t, k, env):
    """Evaluate a test on the loop key ``k`` (a constant); None if it does not only depend on the key."""
    if isinstance(t, ast.Compare) and len(t.ops) == 1 and isinstance(t.left, ast.Name) and t.left.id == "k":
        op, c = t.ops[0], t.comparators[0]
        if isinstance(c, ast.Name) and isinstance(env.get(c.id), ast.Dict):
            c = ast.List(elts=[x for x in env[c.id].keys if x is not None], ctx=ast.Load())
        if isinstance(op, (ast.Eq, ast.NotEq)) and isinstance(c, ast.Constant):
            r = c.value == k
            return r if isinstance(op, ast.Eq) else not r
        if isinstance(op, (ast.In, ast.NotIn)) and isinstance(c, (ast.List, ast.Tuple, ast.Set)) and all(isinstance(x, ast.Constant) for x in c.elts):
            r = k in [x.value for x in c.elts]
            return r if isinstance(op, ast.In) else not r
        return None
    if isinstance(t, ast.BoolOp):
        vs = [_const_test(x, k, env) for x in t.values]
        if any(v is None for v in vs):
            return None
        return all(vs) if isinstance(t.op, ast.And) else any(vs)
    if isinstance(t, ast.UnaryOp) and isinstance(t.op, ast.Not):
        v = _const_test(t.operand, k, env)
        return None if v is None else not v
    return None


def _specialise(e, k, env):
    """Resolve key-dependent selections in an index expression for the concrete key ``k``."""
    if isinstance(e, ast.Name) and e.id in env and not isinstance(env[e.id], ast.Dict):
        return _specialise(env[e.id], k, env)
    if isinstance(e, ast.IfExp):
        v = _const_test(e.test, k, env)
        if v is None:
            raise AnalysisError(f"{CQ}.sample_batch: index selection `{short(e, 60)}` does not only depend on the field name (unrecognised idiom)")
        return _specialise(e.body if v else e.orelse, k, env)
    if isinstance(e, ast.Call) and isinstance(e.func, ast.Attribute) and e.func.attr == "get" and isinstance(e.func.value, ast.Name) and isinstance(env.get(e.func.value.id), ast.Dict) \
            and e.args and isinstance(e.args[0], ast.Name) and e.args[0].id == "k":
        d = env[e.func.value.id]
        for kk, vv in zip(d.keys, d.values):
            if isinstance(kk, ast.Constant) and kk.value == k:
                return _specialise(vv, k, env)
        if len(e.args) > 1:
            return _specialise(e.args[1], k, env)
        raise AnalysisError(f"{CQ}.sample_batch: `{short(e, 60)}` has no default for field `{k}`")
    if isinstance(e, ast.Subscript) and isinstance(e.value, ast.Name) and isinstance(env.get(e.value.id), ast.Dict) and isinstance(e.slice, ast.Name) and e.slice.id == "k":
        d = env[e.value.id]
        for kk, vv in zip(d.keys, d.values):
            if isinstance(kk, ast.Constant) and kk.value == k:
                return _specialise(vv, k, env)
        raise AnalysisError(f"{CQ}.sample_batch: `{short(e, 60)}` has no entry for field `{k}`")
    return e


_REDUCER_CALLS = {"mod", "remainder", "fmod", "where", "take", "divmod"}


def _offset_unreduced(e, at, cfg, depth=0):
    """True when a horizon-dependent offset occurs in index expression ``e`` outside every ring reduction (%, np.mod, np.where, take)."""
    if depth > 10:
        return False
    if isinstance(e, ast.BinOp) and isinstance(e.op, ast.Mod):
        return False
    if isinstance(e, ast.Call) and ((isinstance(e.func, ast.Attribute) and e.func.attr in _REDUCER_CALLS) or (isinstance(e.func, ast.Name) and e.func.id in _REDUCER_CALLS)):
        return False
    if isinstance(e, ast.Name):
        if e.id == "horizon":
            return True
        ds = cfg.defs_of(at, e.id)
        if len(ds) == 1 and ds[0].kind == "assign" and ds[0].value is not None:
            return _offset_unreduced(ds[0].value, ds[0].node, cfg, depth + 1)
        return False
    if isinstance(e, ast.Subscript):
        return _offset_unreduced(e.value, at, cfg, depth + 1)
    return any(_offset_unreduced(c, at, cfg, depth + 1) for c in ast.iter_child_nodes(e))


def _gather_index(e):
    """IDX of the (single) `self.buffer[k][IDX]` gather inside expression e."""
    gs = [n for n in ast.walk(e) if isinstance(n, ast.Subscript) and isinstance(n.value, ast.Subscript) and dotted(n.value.value) == "self.buffer"
          and isinstance(n.value.slice, ast.Name) and n.value.slice.id == "k"]
    return gs[0].slice if len(gs) == 1 else None


def _field_indices(cfg, stmts, fn):
    """field name -> (index expression, CFG node at which to normalise it) for the statements of the no-intermediate branch."""
    out = {}
    env = {}   # locals of the branch that hold selection tables / per-key choices

    def node_of(st):
        return cfg.stmt_node[id(st)]

    def run_body(body, k, kenv):
        for st in body:
            if isinstance(st, ast.If):
                v = _const_test(st.test, k, kenv)
                if v is None:
                    raise AnalysisError(f"{CQ}.sample_batch: branch `{short(st.test, 50)}` inside the per-field loop does not only depend on the field name (unrecognised idiom)")
                run_body(st.body if v else st.orelse, k, kenv)
            elif isinstance(st, ast.Match):
                subj = _const_test(ast.Compare(left=st.subject, ops=[ast.Eq()], comparators=[ast.Constant(value=k)]), k, kenv)
                if subj is not True:
                    raise AnalysisError(f"{CQ}.sample_batch: `match {short(st.subject, 30)}` inside the per-field loop is not a match on the field name (unrecognised idiom)")

                def _pat(p_):
                    if isinstance(p_, ast.MatchValue) and isinstance(p_.value, ast.Constant):
                        return p_.value.value == k
                    if isinstance(p_, ast.MatchOr):
                        rs = [_pat(x_) for x_ in p_.patterns]
                        return None if any(r_ is None for r_ in rs) else any(rs)
                    if isinstance(p_, ast.MatchAs) and p_.pattern is None:
                        return True
                    return None
                chosen = None
                for case_ in st.cases:
                    r_ = _pat(case_.pattern) if case_.guard is None else None
                    if r_ is None:
                        raise AnalysisError(f"{CQ}.sample_batch: case pattern `{short(case_.pattern, 40)}` inside the per-field loop is not a constant field name (unrecognised idiom)")
                    if r_:
                        chosen = case_
                        break
                if chosen is not None:
                    run_body(chosen.body, k, kenv)
            elif isinstance(st, (ast.For, ast.While, ast.Try, ast.With)):
                raise AnalysisError(f"{CQ}.sample_batch: `{short(st, 50)}` inside the per-field loop (unrecognised idiom)")
            elif isinstance(st, ast.Assign) and len(st.targets) == 1:
                t = st.targets[0]
                ix = _gather_index(st.value)
                if ix is not None:
                    out[k] = (_specialise(ix, k, kenv), kenv.get("@at", node_of(st)))
                elif isinstance(t, ast.Name):
                    kenv[t.id] = st.value
                    kenv["@at"] = node_of(st)
    for st in stmts:
        if isinstance(st, ast.For) and isinstance(st.target, ast.Name) and st.target.id == "k" and dotted(st.iter) in ("self.buffer", "self.buffer.keys()"):
            for k in _KEYS:
                run_body(st.body, k, dict(env))
        elif isinstance(st, ast.Assign) and len(st.targets) == 1 and isinstance(st.targets[0], ast.Name) and isinstance(st.value, ast.Dict) and all(isinstance(x, ast.Constant) for x in st.value.keys if x is not None) \
                and not any(isinstance(x, (ast.DictComp,)) for x in ast.walk(st.value)):
            env[st.targets[0].id] = st.value
        else:
            for dc in [x for x in ast.walk(st) if isinstance(x, ast.DictComp)]:
                g = dc.generators[0]
                if len(dc.generators) == 1 and isinstance(g.target, ast.Name) and g.target.id == "k" and dotted(g.iter) in ("self.buffer", "self.buffer.keys()") and not g.ifs:
                    ix = _gather_index(dc.value)
                    if ix is None:
                        continue
                    for k in _KEYS:
                        out[k] = (_specialise(ix, k, env), node_of(st))
    return out


def _add_sample_effects(ck, repo, nf):
    """R1-R3 on SubtrajectoryReplayBuffer.add_sample as *per-path effect summaries* over the entry state.

    Every acyclic path entry -> return is evaluated symbolically (sympath.PathEval: environment of locals, store of attribute /
    subscript locations; helpers are already expanded, aliases disappear in the normal forms).  A path is summarised by: the ordered
    mask stores (index, value), the final write position / length / episode counter, whether the episode-end condition and the
    enabling condition hold on it.  The summaries are compared with the protocol; local names, statement order of independent
    effects and helper structure do not matter."""
    from ..sympath import enumerate_paths, PathEval
    from ..sem import _negate, _flatten_and
    fn = _m(repo, CQ, "add_sample")
    mi = fn._module
    cfg = nf.cfg_of(fn)
    site = CQ + ".add_sample"
    where = loc(mi, fn)
    rets = [n for n in cfg.nodes if n.kind == "stmt" and isinstance(n.ast, ast.Return)]
    stops = {r.id for r in rets} or {cfg.exit}
    sc0 = Scope(None, mi, {}, site)

    def S(txt):
        return nf.poly(parse_expr(txt), sc0, None).canon()
    I0, N, H, ET, LEN = "self.insert_idx", "self.buffer_size", "self.horizon", "self.episode_timesteps", "self.current_len"
    NEXT = S(f"({I0} + 1) % {N}")
    NEXT2 = S(f"(({I0} + 1) % {N} + 1) % {N}")
    END = {S("sample['terminated'] or sample['truncated']"), S("sample['truncated'] or sample['terminated']")}
    ENABLE_T = S(f"{ET} + 1 > {H}")
    ENABLE_IDX = S(f"({I0} - {H}) % {N}")
    TAIL_IDX = {S(f"(({I0} + 1) % {N} - np.arange(min({ET} + 1, {H})) - 1) % {N}")}
    TAIL_VAL = {nf.poly(parse_expr(x), sc0, None).canon() for x in ("0 if sample['truncated'] else 1", "1 - sample['truncated']", "not sample['truncated']", "int(not sample['truncated'])", "1 if not sample['truncated'] else 0")}
    LEN1, LEN2 = S(f"min({LEN} + 1, {N})"), S(f"min(min({LEN} + 1, {N}) + 1, {N})")
    try:
        paths = enumerate_paths(cfg, cfg.entry, stops, max_paths=40000)
    except RuntimeError:
        raise AnalysisError(f"{site}: too many paths for the per-path evaluation")
    sums = {}
    for pth in paths:
        pe = PathEval(nf, cfg, mi, site, {})
        lits = []
        for nid, lab in pth[:-1]:
            nd = cfg.nodes[nid]
            if nd.kind == "test" and lab in (True, False) and hasattr(nd.ast, "test") and isinstance(nd.ast, ast.If):
                c = pe.ev(nd.ast.test).canon()
                lits += _flatten_and(c) if lab else [_negate(c)]
            pe.step(nid, lab)
        masks = tuple((ix, v.canon()) for _, b, ix, v in pe.effects if b == "self.mask_" and ix is not None)
        fin = tuple(pe.store[x].canon() if x in pe.store else x for x in (I0, LEN, ET))
        ended = any(l in END for l in lits) or any(l.startswith("or(") and "terminated" in l and "truncated" in l for l in lits)
        not_ended = any(l in {f"not({e})" for e in END} for l in lits) or (any("not(sample['terminated'])" == l for l in lits) and any("not(sample['truncated'])" == l for l in lits))
        a_, b_ = S(f"{ET} + 1"), H
        rel = [l for l in lits if l in (f"Lt({b_}, {a_})", f"LtE({b_}, {a_})", f"Lt({a_}, {b_})", f"LtE({a_}, {b_})", f"Eq({a_}, {b_})", f"Eq({b_}, {a_})")]
        enable = f"Lt({b_}, {a_})" in rel                                   # the path condition implies episode_timesteps' > horizon
        no_enable = f"LtE({a_}, {b_})" in rel or f"Lt({a_}, {b_})" in rel    # ... implies episode_timesteps' <= horizon
        weak = tuple(r for r in rel if r in (f"LtE({b_}, {a_})", f"Eq({a_}, {b_})", f"Eq({b_}, {a_})"))
        sums.setdefault((masks, fin, ended, not_ended, enable, no_enable, weak), tuple(sorted(set(lits))))
    ck.count("add_sample-paths", len(paths))
    ck.count("add_sample-effect-summaries", len(sums))
    if len(sums) < 2:
        raise AnalysisError(f"{site}: only {len(sums)} distinct effect summaries (expected plain-step and episode-end paths)")
    seen_keys = set()

    def ob(rule, key, ok, construct, why):
        if (rule, key, ok) in seen_keys:
            return
        seen_keys.add((rule, key, ok))
        ck.ob(rule, site, key, ok, construct, "" if ok else why, where)
    for (masks, fin, ended, not_ended, enable, no_enable, weak), lits in sorted(sums.items(), key=lambda kv: str(kv[0])):
        if ended == not_ended:
            # the path does not pass the episode-end test in a recognised form
            if not masks and fin == (I0, LEN, ET):
                continue   # a path without effects (e.g. an early exception exit)
            raise AnalysisError(f"{site}: a path with mask effects {masks[:2]} is not classified by the episode-end condition (literals {list(lits)[:4]})")
        if enable == no_enable:
            if weak and any(m[1] == "1" for m in masks):
                ob("R2-enable-offset-agreement", "offset-equals-threshold", False, f"a start index is enabled under {list(weak)}",
                   "the enabling condition does not imply episode_timesteps > horizon (off by one): a window starting there reaches back one step into the previous episode")
                continue
            raise AnalysisError(f"{site}: a path is not classified by the enabling condition episode_timesteps > horizon (literals {list(lits)[:4]})")
        tag = ("end" if ended else "step") + ("+enable" if enable else "")
        idxs = [m[0] for m in masks]
        # R1: the written slot is cleared, and it is the first mask effect on that slot
        clear_pos = [k for k, m in enumerate(masks) if m == (I0, "0")]
        ob("R1-mask-clear-on-write", "clear-transition-slot", bool(clear_pos) and idxs.index(I0) == clear_pos[0], f"[{tag}] mask effects {list(masks)[:5]}",
           "the slot being overwritten must be removed from the valid start indices (mask_[insert_idx] = 0 with the pre-advance index): otherwise windows cross the write position into overwritten data")
        # R2: enabling store
        ones = [m for m in masks if m[1] == "1"]
        if enable:
            ok = ones == [(ENABLE_IDX, "1")]
            ob("R2-enable-offset-agreement", "offset-equals-threshold", ok, f"[{tag}] enabling stores {ones} under {ENABLE_T}",
               f"once the episode is longer than the horizon exactly the start `horizon` steps behind the write position becomes valid (expected {ENABLE_IDX}): offset and threshold must both be self.horizon")
        else:
            ok = not ones
            ob("R2-enable-offset-agreement", "no-enable-below-threshold", ok, f"[{tag}] enabling stores {ones} under not({ENABLE_T})",
               "a start index is enabled although the episode is not yet longer than the horizon: its window reaches back into the previous episode")
        extra = [m for m in masks if m not in ((I0, "0"), (ENABLE_IDX, "1"))]
        if not ended:
            ob("R3-tail", "no-tail-before-episode-end", not extra, f"[{tag}] other mask effects {extra}", "mask entries other than the written slot and the horizon-delayed start change although the episode goes on")
            ob("R1-mask-clear-on-write", "advance:main", fin[0] == NEXT, f"[{tag}] insert_idx' = {fin[0]}", "the write position must advance by one modulo the capacity")
            ob("R1-mask-clear-on-write", "length-per-written-row", fin[1] == LEN1, f"[{tag}] current_len' = {fin[1]}", "each written row increases the length, saturating at the capacity")
            ob("R2-enable-offset-agreement", "episode-counter", fin[2] == S(f"{ET} + 1"), f"[{tag}] episode_timesteps' = {fin[2]}", "episode_timesteps must count this step (exactly +1)")
        else:
            succ_clear = [m for m in extra if m[0] in (NEXT, S(f"(({I0} + 1) % {N}) % {N}")) and m[1] == "0"]
            ob("R1-mask-clear-on-write", "clear-successor-row", len(succ_clear) == 1, f"[{tag}] successor-row clear {succ_clear}", "the extra successor row written at an episode end must be excluded from the start indices")
            tails = [m for m in extra if m not in succ_clear]
            if len(tails) != 1:
                raise AnalysisError(f"{site}: {len(tails)} tail effects on an episode-end path ({tails[:3]}): the vectorised tail store was restructured (unrecognised idiom)")
            tidx, tval = tails[0]
            okv = tval in TAIL_VAL
            if not okv and "truncated" in tval and "terminated" not in tval and not tval.startswith("ite(") and tval != "sample['truncated']":
                raise AnalysisError(f"{site}: tail value `{tval}` not recognised")
            ob("R3-tail", "truncated-disables", okv, f"[{tag}] tail value = {tval}", "truncated tails must be masked out (0), terminated tails enabled (1)")
            if tidx not in TAIL_IDX:
                import re as _re
                toks = lambda t_: set(_re.findall(r"[A-Za-z_][A-Za-z_0-9]*", t_))
                fields_ = {t_.attr for c_ in repo.mro(CQ) for m_ in [repo.method(c_, "__init__", inherited=False)] if m_ for x_ in ast.walk(m_[1]) if isinstance(x_, ast.Assign)
                           for t_ in x_.targets if isinstance(t_, ast.Attribute) and dotted(t_.value) == "self"}
                if not toks(tidx) <= set().union(*[toks(t_) for t_ in TAIL_IDX]) | fields_:
                    raise AnalysisError(f"{site}: tail index `{tidx[:120]}` (unrecognised form)")
            ob("R3-tail", "last-min(len,horizon)-slots", tidx in TAIL_IDX, f"[{tag}] tail index = {tidx}", f"must be the last min(episode_timesteps, horizon) written slots: {sorted(TAIL_IDX)[0]}")
            # the clear of the written slot precedes the tail store (which may re-enable that very slot)
            pos_tail = masks.index(tails[0])
            ob("R3-tail", "tail-after-clear", bool(clear_pos) and clear_pos[0] < pos_tail, f"[{tag}] clear at effect {clear_pos[:1]}, tail at effect {pos_tail}", "the tail must be marked after the written slot was cleared, otherwise the clear wipes the last start of a terminated episode")
            ob("R1-mask-clear-on-write", "advance:tail", fin[0] == NEXT2, f"[{tag}] insert_idx' = {fin[0]}", "at an episode end the write position must advance by two rows (transition + successor row) modulo the capacity")
            ob("R1-mask-clear-on-write", "length-per-written-row", fin[1] == LEN2, f"[{tag}] current_len' = {fin[1]}", "each written row (incl. the successor row) increases the length, saturating at the capacity")
            ob("R3-tail", "episode-counter-reset", fin[2] == "0", f"[{tag}] episode_timesteps' = {fin[2]}", "episode_timesteps must be reset to 0 at the episode end")
    # successor row content: observation <- next_observation at the slot after the transition (path evaluation of the buffer stores)
    ok_succ = None
    for pth in paths:
        pe = PathEval(nf, cfg, mi, site, {}).run(pth[:-1])
        obs_eff = [(ix, v.canon()) for _, b, ix, v in pe.effects if b == "self.buffer['observation']" and ix != I0]
        if obs_eff:
            # the last store to the successor row's observation decides its content
            ok_succ = (ok_succ is None or ok_succ) and all(ix in (NEXT, S(f"(({I0} + 1) % {N}) % {N}")) for ix, _ in obs_eff) and obs_eff[-1][1] == "sample['next_observation']"
    if ok_succ is None:
        raise AnalysisError(f"{site}: the store of the successor row's observation was not found (unrecognised idiom)")
    ck.ob("R3-tail", site, "successor-row-content", ok_succ, "observation of the extra row <- next_observation at (insert_idx + 1) % buffer_size",
          "" if ok_succ else "the extra row after an episode end must hold the final successor observation at the slot following the last transition (it is what next_observation of the last window reads)", where)


def run(ck, repo: Repo, tier: str):
    nf = NF(repo, inline_depth=1, inline_calls=False)
    mi = repo.cls(CQ)._module
    ck.guard(_add_sample_effects, ck, repo, nf)
    ck.guard(_sampling_rules, ck, repo, nf)


def _sampling_rules(ck, repo, nf):
    mi = repo.cls(CQ)._module
    # ---- R4 ------------------------------------------------------------------------------------------------------
    f2 = _m(repo, CQ, "_sample_idx")
    c2 = nf.cfg_of(f2)
    rets = [n for n in c2.nodes if n.kind == "stmt" and isinstance(n.ast, ast.Return)]
    ck.need(len(rets) == 1, f"{CQ}._sample_idx: {len(rets)} returns (unrecognised idiom)")
    s2 = Scope(c2, mi, {p: Poly.atom(p, {p}, {p}) for p in positional_params(f2)}, CQ + "._sample_idx")
    got = nf.poly(rets[0].ast.value, s2, rets[0].id).canon()
    # the documented draw, in the spellings numpy offers for "indices of the non-zero entries", "their number" and "element i of"
    pp_ = [p_ for p_ in positional_params(f2) if p_ != "self"]
    B_, R_ = (pp_ + ["batch_size", "rng"])[:2]
    sets_ = ["np.nonzero(self.mask_)[0]", "np.flatnonzero(self.mask_)", "np.where(self.mask_)[0]", "np.where(self.mask_ != 0)[0]", "np.flatnonzero(self.mask_ != 0)", "np.nonzero(self.mask_ != 0)[0]", "np.where(self.mask_ > 0)[0]", "np.flatnonzero(self.mask_ > 0)"]
    wants = set()
    sc_w = Scope(None, mi, s2.env, CQ + "._sample_idx")
    for E_ in sets_:
        for N_ in (f"len({E_})", f"{E_}.size", f"{E_}.shape[0]"):
            for draw in (f"{R_}.integers(0, {N_}, size={B_})", f"{R_}.integers(0, {N_}, {B_})", f"{R_}.integers({N_}, size={B_})", f"{R_}.integers(low=0, high={N_}, size={B_})"):
                for form in (f"{E_}[{draw}]", f"np.take({E_}, {draw})", f"{E_}.take({draw})"):
                    try:
                        wants.add(nf.poly(parse_expr(form), sc_w, None).canon())
                    except Exception:
                        pass
        for form in (f"{R_}.choice({E_}, size={B_})", f"{R_}.choice({E_}, {B_})", f"{R_}.choice({E_}, size={B_}, replace=True)"):
            try:
                wants.add(nf.poly(parse_expr(form), sc_w, None).canon())
            except Exception:
                pass
    want = "nonzero(self.mask_)[0][rng.integers(0, len(nonzero(self.mask_)[0]), size=batch_size)]"
    if got == want or got in wants:
        ck.ob("R4-start-from-mask", CQ + "._sample_idx", "uniform-over-enabled", True, f"return {got}", "", loc(mi, f2))
    else:
        # a cached / derived attribute instead of the live mask? then every writer of mask_ must refresh it (derived-state coherence)
        attrs = sorted({x.attr for x in ast.walk(f2) if isinstance(x, ast.Attribute) and isinstance(x.ctx, ast.Load) and dotted(x.value) == "self" and x.attr not in ("mask_",)})
        cls = repo.cls(CQ)
        derived = []
        for a in attrs:
            for meth in cls.body:
                if isinstance(meth, ast.FunctionDef):
                    for x in ast.walk(meth):
                        if isinstance(x, ast.Assign) and any(dotted(t) == f"self.{a}" for t in x.targets) and "self.mask_" in ast.unparse(x.value):
                            derived.append(a)
        derived = sorted(set(derived))
        if derived:
            stale = []
            for meth in cls.body:
                if not isinstance(meth, ast.FunctionDef):
                    continue
                meth._module = mi
                mc = nf.cfg_of(meth)
                for n in mc.nodes:
                    if n.kind == "stmt" and isinstance(n.ast, ast.Assign) and isinstance(n.ast.targets[0], ast.Subscript) and dotted(n.ast.targets[0].value) == "self.mask_":
                        for a in derived:
                            refresh = {m.id for m in mc.nodes if m.kind == "stmt" and isinstance(m.ast, ast.Assign) and any(dotted(t) == f"self.{a}" for t in m.ast.targets)}
                            # calls of helpers that themselves refresh are not followed: a direct refresh must lie on every path to the exit
                            pth = mc.paths_avoiding(n.id, mc.exit, refresh)
                            if pth is not None:
                                stale.append((meth.name, n, a))
            if stale:
                mname, n, a = stale[0]
                ck.ob("R4-start-from-mask", CQ + "._sample_idx", f"stale-derived:{a}", False, f"start indices read from self.{a} (derived from mask_); `{short(n.ast)}` in {mname} does not refresh it",
                      f"`self.{a}` caches a value computed from mask_, but {len(stale)} write(s) of mask_ (first: {mname} line {n.lineno}) leave it unchanged: sampling can start at slots that were just overwritten / disabled", loc(mi, n.ast))
            else:
                raise AnalysisError(f"{CQ}._sample_idx: start indices come from derived attribute(s) {derived} (unrecognised idiom)")
        elif "self.mask_" not in got:
            ck.ob("R4-start-from-mask", CQ + "._sample_idx", "uniform-over-enabled", False, f"return {got[:120]}", "start indices are not derived from mask_: disabled slots (other episodes, truncated tails, overwritten data) can be returned", loc(mi, f2))
        else:
            raise AnalysisError(f"{CQ}._sample_idx: returns `{got[:100]}` (unrecognised idiom)")
    f3 = _m(repo, RB + "SubtrajectoryReplayBufferPER", "_sample_idx")
    c3 = nf.cfg_of(f3)
    pbm = repo.method(RB + "PriorityBuffer", "prioritized_sampling")
    ck.need(pbm is not None, "PriorityBuffer.prioritized_sampling not found (anchor vanished)")
    scalls = stmt_calls(c3, lambda c: isinstance(c.func, ast.Attribute) and c.func.attr == "prioritized_sampling")
    ck.need(len(scalls) == 1, f"{RB}SubtrajectoryReplayBufferPER._sample_idx: expected one prioritized_sampling call (unrecognised idiom)")
    n3, c3call = scalls[0]
    b = bind_call(pbm[1], c3call, skip_self=True)
    s3 = Scope(c3, mi, {}, "per")
    mval = nf.poly(b["mask"], s3, n3.id).canon() if "mask" in b else None
    lval = nf.poly(b["current_len"], s3, n3.id).canon() if "current_len" in b else None
    ok = mval == "self.mask_" and lval == "self.current_len" and isinstance(n3.ast, ast.Return)
    if ok is False and mval == "self.mask_" and lval == "self.current_len":
        raise AnalysisError(f"{RB}SubtrajectoryReplayBufferPER._sample_idx: sampled indices are post-processed (unrecognised idiom)")
    ck.ob("R4-start-from-mask", RB + "SubtrajectoryReplayBufferPER._sample_idx", "mask-passed", ok, f"prioritized_sampling(current_len <- {lval}, mask <- {mval})", "" if ok else "the prioritised sampler must receive mask_ (and current_len) so that disabled starts have zero probability", loc(mi, f3))
    # the sampler multiplies the priorities by the mask on the mask-given path (path evaluation, not text)
    from ..sympath import enumerate_paths, PathEval
    pb = pbm[1]
    pb._module = mi
    cpb = nf.cfg_of(pb)
    prets = [n for n in cpb.nodes if n.kind == "stmt" and isinstance(n.ast, ast.Return)]
    ck.need(len(prets) == 1, "PriorityBuffer.prioritized_sampling: expected one return")
    env = {p_: Poly.atom(p_, {p_}, {p_}) for p_ in positional_params(pb)}
    masked_paths = unmasked = 0
    for pth in enumerate_paths(cpb, cpb.entry, {prets[0].id}):
        lits = []
        for nid, lab in pth:
            nd = cpb.nodes[nid]
            if nd.kind == "test" and lab in (True, False):
                lits += [(t_, v_ == True) for t_, v_ in cpb._lits(nd.ast.test, lab, nid)]
        mask_given = ("mask is not None", True) in lits or ("mask is None", False) in lits
        pe = PathEval(nf, cpb, mi, "ps", env).run(pth[:-1])
        txt = pe.ev(prets[0].ast.value).canon()
        for k, v in pe.store.items():
            txt = txt.replace(k, v.canon())
        if mask_given:
            masked_paths += 1
            if "mask[:current_len]*self.priority[:current_len]" not in txt and "self.priority[:current_len]*mask[:current_len]" not in txt:
                unmasked += 1
    if masked_paths == 0:
        raise AnalysisError("PriorityBuffer.prioritized_sampling: no path on which a mask is given (unrecognised idiom)")
    ck.ob("R4-start-from-mask", RB + "PriorityBuffer.prioritized_sampling", "mask-multiplied", unmasked == 0, f"{masked_paths} path(s) with a mask: sampled distribution uses priority[:len] * mask[:len]",
          "" if unmasked == 0 else "on a path where a mask is given the sampled distribution does not multiply the priorities by it: disabled start indices keep a positive probability", loc(mi, pb))

    # ---- R5 / R6 ----------------------------------------------------------------------------------------------------
    f4 = _m(repo, CQ, "sample_batch")
    c4 = nf.cfg_of(f4)
    s4 = Scope(c4, mi, {p: Poly.atom(p, {p}, {p}) for p in positional_params(f4)}, CQ + ".sample_batch")
    ifn = [n for n in c4.nodes if n.kind == "test" and isinstance(n.ast, ast.If) and ast.unparse(n.ast.test) in ("include_intermediate", "not include_intermediate")]
    if len(ifn) == 1 and ast.unparse(ifn[0].ast.test).startswith("not "):
        # swapped arms: normalise to (with-intermediate, without-intermediate)
        import copy as _copy
        sw = _copy.copy(ifn[0].ast)
        sw.body, sw.orelse = ifn[0].ast.orelse, ifn[0].ast.body
        ifn[0].ast_swapped = sw
    ck.need(len(ifn) == 1, f"{CQ}.sample_batch: include_intermediate branch not found")
    # the window index matrix: what every field is gathered at in the with-intermediate view (located by its use, not by its name)
    with_branch = getattr(ifn[0], 'ast_swapped', ifn[0].ast).body
    per_key_w = _field_indices(c4, with_branch, f4)
    if not per_key_w:
        raise AnalysisError(f"{CQ}.sample_batch: gather of the with-intermediate view not found (unrecognised idiom)")
    wforms = {nf.poly(ix, s4, at).canon() for ix, at in per_key_w.values()}
    ck.need(len(wforms) == 1, f"{CQ}.sample_batch: fields of the with-intermediate view are gathered at different indices {sorted(wforms)[:2]} (unrecognised idiom)")
    W_ast, W_at = next(iter(per_key_w.values()))
    ivp = nf.poly(W_ast, s4, W_at)
    iv = ivp.canon()
    wantp = nf.poly(parse_expr("(self._sample_idx(batch_size, rng)[:, np.newaxis] + np.arange(horizon)[np.newaxis]) % self.current_len"), Scope(None, mi, s4.env, "w"), None)
    want = wantp.canon()
    ok = iv == want
    if not ok and not same_ingredients(ivp, wantp, ("buffer_size",)):
        raise AnalysisError(f"{CQ}.sample_batch: window indices `{iv[:120]}` (unrecognised form)")
    ck.ob("R5-window-indices", CQ + ".sample_batch", "consecutive-mod-len", ok, f"indices = {iv}", "" if ok else f"must be {want}: consecutive slots from the sampled start, wrapped at current_len (buffer_size would read never-written slots of a partly filled buffer)", loc(mi, f4))
    # no-intermediate view: which index gathers each field (key-specialised partial evaluation of the branch)
    per_key = _field_indices(c4, getattr(ifn[0], 'ast_swapped', ifn[0].ast).orelse, f4)
    ck.need(per_key, f"{CQ}.sample_batch: per-field index selection of the no-intermediate view not found (unrecognised idiom)")

    def col(which):
        sl = ast.Subscript(value=W_ast, slice=ast.Tuple(elts=[ast.Slice(lower=None, upper=None, step=None), ast.Constant(value=0) if which == 0 else ast.UnaryOp(op=ast.USub(), operand=ast.Constant(value=1))], ctx=ast.Load()), ctx=ast.Load())
        return nf.poly(ast.fix_missing_locations(ast.copy_location(sl, W_ast)), s4, W_at).canon()
    w_first, w_last = col(0), col(-1)
    w_all = iv
    start_c = nf.poly(parse_expr("self._sample_idx(batch_size, rng)"), Scope(None, mi, s4.env, "w"), None).canon()
    REDUCERS = ("mod(", "remainder(", "fmod(", "where(", "take(", "divmod(")
    for key, (ix, at) in sorted(per_key.items()):
        got = nf.poly(ix, s4, at).canon()
        role = "first" if key in ("observation", "action") else "last" if key == "next_observation" else "window"
        want_k = {"first": w_first, "last": w_last, "window": w_all}[role]
        ok = got == want_k or (role == "first" and got == start_c)   # start itself lies in [0, current_len): same slot as column 0
        why = ""
        if not ok:
            if start_c not in got:
                why = f"the gather index of `{key}` does not derive from the sampled start index: the field comes from another transition than the rest of the row"
            elif role == "last" and _offset_unreduced(ix, at, c4):
                why = (f"the successor index of `{key}` ({got[:90]}) is an offset from the start that is never reduced modulo the ring length: "
                       "windows that wrap around the end of the storage read the wrong slot (or clamp to the last slot)")
            elif role == "last" and got.startswith(w_all + "["):
                why = f"`{key}` is gathered at another column of the window ({got[len(w_all):]}) than the last one: the successor observation does not belong to the end of the n-step window"
            elif role == "window" or role == "first":
                why = f"`{key}` must be gathered at {'the first column of the window' if role == 'first' else 'the full window'} ({want_k[:80]}), got {got[:90]}"
            else:
                raise AnalysisError(f"{CQ}.sample_batch: successor index `{got[:120]}` is neither indices[:, -1] nor a form this check can decide")
        ck.ob("R6-no-intermediate-view", CQ + ".sample_batch", f"field:{key}", ok, f"{key} <- buffer[{short(ix, 50)}]", why, loc(mi, ix) if hasattr(ix, "lineno") else loc(mi, f4))
    ck.floor("no-intermediate-fields", len(per_key), 5)


_F = "rl_blox/blox/replay_buffer.py"
MUTANTS = [
    {"id": "c04-table-clamped-successor", "file": "rl_blox/blox/replay_buffer.py", "rule": "R6", "find": "            batch = {}\n            for k in self.buffer:\n                if k in [\"observation\", \"action\"]:\n                    indices_without_intermediate = indices[:, 0]\n                elif k == \"next_observation\":\n                    indices_without_intermediate = indices[:, -1]\n                else:\n                    indices_without_intermediate = indices\n                batch[k] = jnp.asarray(\n                    self.buffer[k][indices_without_intermediate]\n                )\n            batch = self.Batch(**batch)\n", "replace": "            select = {\n                \"observation\": indices[:, 0],\n                \"action\": indices[:, 0],\n                \"next_observation\": np.minimum(indices[:, 0] + horizon, self.current_len) - 1,\n            }\n            batch = self.Batch(\n                **{\n                    k: jnp.asarray(self.buffer[k][select.get(k, indices)])\n                    for k in self.buffer\n                }\n            )\n"},
    {"id": "c04-table-action-last", "file": "rl_blox/blox/replay_buffer.py", "rule": "R6", "find": "            batch = {}\n            for k in self.buffer:\n                if k in [\"observation\", \"action\"]:\n                    indices_without_intermediate = indices[:, 0]\n                elif k == \"next_observation\":\n                    indices_without_intermediate = indices[:, -1]\n                else:\n                    indices_without_intermediate = indices\n                batch[k] = jnp.asarray(\n                    self.buffer[k][indices_without_intermediate]\n                )\n            batch = self.Batch(**batch)\n", "replace": "            select = {\n                \"observation\": indices[:, 0],\n                \"action\": indices[:, -1],\n                \"next_observation\": indices[:, -1],\n            }\n            batch = self.Batch(\n                **{\n                    k: jnp.asarray(self.buffer[k][select.get(k, indices)])\n                    for k in self.buffer\n                }\n            )\n"},
    {"id": "c04-no-clear", "file": _F, "rule": "R1", "find": "        self.mask_[self.insert_idx] = 0\n        if self.episode_timesteps > self.horizon:", "replace": "        if self.episode_timesteps > self.horizon:"},
    {"id": "c04-clear-after-advance", "file": _F, "rule": "R1", "find": "        self.mask_[self.insert_idx] = 0\n        if self.episode_timesteps > self.horizon:\n            self.mask_[(self.insert_idx - self.horizon) % self.buffer_size] = 1\n\n        inserted_at = [self.insert_idx]\n        self.insert_idx = (self.insert_idx + 1) % self.buffer_size\n",
     "replace": "        if self.episode_timesteps > self.horizon:\n            self.mask_[(self.insert_idx - self.horizon) % self.buffer_size] = 1\n\n        inserted_at = [self.insert_idx]\n        self.insert_idx = (self.insert_idx + 1) % self.buffer_size\n        self.mask_[self.insert_idx] = 0\n"},
    {"id": "c04-guard-ge", "file": _F, "rule": "R2", "find": "        if self.episode_timesteps > self.horizon:", "replace": "        if self.episode_timesteps >= self.horizon:"},
    {"id": "c04-offset-minus-one", "file": _F, "rule": "R2", "find": "            self.mask_[(self.insert_idx - self.horizon) % self.buffer_size] = 1", "replace": "            self.mask_[(self.insert_idx - self.horizon + 1) % self.buffer_size] = 1"},
    {"id": "c04-truncated-enabled", "file": _F, "rule": "R3", "find": "                0 if sample[\"truncated\"] else 1", "replace": "                0 if sample[\"terminated\"] else 1"},
    {"id": "c04-tail-horizon-only", "file": _F, "rule": "R3", "find": "                - np.arange(min(self.episode_timesteps, self.horizon))", "replace": "                - np.arange(self.horizon)"},
    {"id": "c04-no-episode-reset", "file": _F, "rule": "R3", "find": "            self.episode_timesteps = 0\n", "replace": ""},
    {"id": "c04-successor-not-cleared", "file": _F, "rule": "R1", "find": "            self.mask_[self.insert_idx % self.buffer_size] = 0\n", "replace": ""},
    {"id": "c04-sample-any-start", "file": _F, "rule": "R4", "find": "        nz = np.nonzero(self.mask_)[0]", "replace": "        nz = np.arange(self.current_len)"},
    {"id": "c04-window-mod-capacity", "file": _F, "rule": "R5", "find": "        ) % self.current_len\n", "replace": "        ) % self.buffer_size\n"},
    {"id": "c04-window-stride", "file": _F, "rule": "R5", "find": "            indices[:, np.newaxis] + np.arange(horizon)[np.newaxis]", "replace": "            indices[:, np.newaxis] + 2 * np.arange(horizon)[np.newaxis]"},
    {"id": "c04-next-obs-first", "file": _F, "rule": "R6", "find": "                    indices_without_intermediate = indices[:, -1]", "replace": "                    indices_without_intermediate = indices[:, 0]"},
    {"id": "c04-action-last", "file": _F, "rule": "R6", "find": "                if k in [\"observation\", \"action\"]:", "replace": "                if k in [\"observation\"]:"},
]
BENIGN = [
    {"id": "c04-b-sampler-inplace-mask", "file": _F, "nth": 0, "find": "            priority = priority * mask[:current_len]", "replace": "            priority = priority.copy()\n            priority *= mask[:current_len]"},
    {"id": "c04-b-done-alias", "file": _F, "find": "        if sample[\"terminated\"] or sample[\"truncated\"]:\n            for k in self.buffer:", "replace": "        episode_over = sample[\"terminated\"] or sample[\"truncated\"]\n        if episode_over:\n            for k in self.buffer:"},
    {"id": "c04-b-counter-explicit", "file": _F, "find": "        self.episode_timesteps += 1\n", "replace": "        self.episode_timesteps = self.episode_timesteps + 1\n"},
    {"id": "c04-b-tail-value-int-not", "file": _F, "find": "            self.mask_[past_idx] = (\n                0 if sample[\"truncated\"] else 1\n            )", "replace": "            self.mask_[past_idx] = int(not sample[\"truncated\"])"},
    {"id": "c04-b-per-keywords", "file": _F, "find": "        return self.priority.prioritized_sampling(\n            self.current_len, batch_size, rng, self.mask_\n        )", "replace": "        return self.priority.prioritized_sampling(\n            current_len=self.current_len, batch_size=batch_size, rng=rng, mask=self.mask_\n        )"},
    {"id": "c04-b-enable-guard-flipped", "file": _F, "find": "        if self.episode_timesteps > self.horizon:\n", "replace": "        if self.horizon < self.episode_timesteps:\n"},
    {"id": "c04-b-table-comprehension", "file": "rl_blox/blox/replay_buffer.py", "find": "            batch = {}\n            for k in self.buffer:\n                if k in [\"observation\", \"action\"]:\n                    indices_without_intermediate = indices[:, 0]\n                elif k == \"next_observation\":\n                    indices_without_intermediate = indices[:, -1]\n                else:\n                    indices_without_intermediate = indices\n                batch[k] = jnp.asarray(\n                    self.buffer[k][indices_without_intermediate]\n                )\n            batch = self.Batch(**batch)\n", "replace": "            select = {\n                \"observation\": indices[:, 0],\n                \"action\": indices[:, 0],\n                \"next_observation\": indices[:, -1],\n            }\n            batch = self.Batch(\n                **{\n                    k: jnp.asarray(self.buffer[k][select.get(k, indices)])\n                    for k in self.buffer\n                }\n            )\n"},
    {"id": "c04-b-enable-commuted", "file": _F, "find": "            self.mask_[(self.insert_idx - self.horizon) % self.buffer_size] = 1", "replace": "            self.mask_[(-self.horizon + self.insert_idx) % self.buffer_size] = 1"},
    {"id": "c04-b-guard-flipped", "file": _F, "find": "        if self.episode_timesteps > self.horizon:", "replace": "        if self.episode_timesteps > self.horizon and True:"},
]
