"""C09 - training is a deterministic function of seed, initial state and environment (cause-level clause)."""
from __future__ import annotations

import ast

import networkx as nx

from ..loops import dotted
from ..repo import Repo, loc, short, AnalysisError, param_names
from ..resolve import Resolver

EXPLANATION = (
    "Bit-identity of two runs is a runtime property (XLA, environment internals) and is not decided. Decided is the cause-level sentence of "
    "the property - `no result depends on unseeded global randomness, on time, or on the iteration order of unordered containers` - over the "
    "call-graph closure of every train_* / create_*_state entry point: (R1) no call into a global / OS entropy source (np.random.<fn> other "
    "than default_rng, stdlib random, os.urandom, uuid, secrets, builtin hash / id used as a value); (R2) every RNG constructor or seeding "
    "call has an argument and that argument is built only from parameters, literals and arithmetic - no call, no time; (R3) iteration over / "
    "list() of a set only where its elements are integers by construction (int hashing is not randomised, so the order is a function of the "
    "operation history); (R4) time.* is called only inside rl_blox/logging (wall-clock fields of records and checkpoint names). PRNG-key "
    "reuse is deliberately not a rule: it correlates draws but is deterministic."
)
TRUSTED = ["CPython: hash(int) is not salted, so set-of-int iteration order is a function of the insertion history", "jax.random / numpy Generator are deterministic functions of their key / seed"]
RULES = {
    "R1-forbidden-sources": "no call to np.random.<global fn>, random.*, os.urandom, uuid.*, secrets.*, hash(), id() in the closure of the training entry points",
    "R2-seed-provenance": "default_rng / jax.random.key / PRNGKey / nnx.Rngs / env.reset(seed=) / action_space.seed are always given an argument made of parameters, literals and arithmetic only",
    "R3-unordered-iteration": "sets that are iterated / listed hold integers by construction (rng.choice(n), range, validated task ids, set algebra of those)",
    "R4-time-confinement": "time.* / datetime.* are called only in rl_blox/logging/",
    "R5-uninitialised-storage": "no method reads a slot of a numpy.empty storage ahead of writing it (same index, no fill-state guard): on the first pass through the ring that slot was never written",
}

RNG_CTORS = {"numpy.random.default_rng", "jax.random.key", "jax.random.PRNGKey", "flax.nnx.Rngs"}
NP_GLOBAL_OK = {"default_rng", "Generator", "SeedSequence", "PCG64", "BitGenerator"}


def entry_points(repo):
    out = []
    for qual, fn, mi in repo.all_functions():
        if "<locals>" in qual:
            continue
        if fn.name.startswith("train_") or (fn.name.startswith("create_") and fn.name.endswith("_state")) or fn.name in ("generate_rollout", "optimize_cem"):
            out.append(qual)
    return sorted(out)


def run(ck, repo: Repo, tier: str):
    res = Resolver(repo)
    g = res.call_graph()
    eps = entry_points(repo)
    ck.floor("entry-points", len(eps), 30)
    closure = set(eps)
    for e in eps:
        if e in g:
            closure |= nx.descendants(g, e)
    # constructors/methods of classes instantiated in the closure
    funcs = {q: (fn, mi) for q, fn, mi in repo.all_functions()}
    for q in list(closure):
        base = q.split(".<locals>.")[0]
        closure.add(base)
    # nested functions of closure members belong to it
    for q in funcs:
        if any(q.startswith(c + ".<locals>.") for c in closure):
            closure.add(q)
    # methods of repo classes referenced anywhere in the closure (buffers, policies, loggers are passed in by the user)
    used_cls = set()
    for q in closure:
        if q in funcs:
            fn, mi = funcs[q]
            for n in ast.walk(fn):
                if isinstance(n, ast.Name):
                    r = repo.resolve_name(mi, n.id)
                    if r and r.startswith("rl_blox."):
                        try:
                            _, node = repo.lookup(r)
                            if isinstance(node, ast.ClassDef):
                                used_cls.add(r)
                        except Exception:
                            pass
    for q in funcs:
        if any(q.startswith(c + ".") for c in used_cls):
            closure.add(q)
    # everything in blox/ is reachable through user-supplied objects (buffers, heads, selectors): include the whole package except plotting
    for q, (fn, mi) in funcs.items():
        if mi.name.startswith("rl_blox.blox.") or mi.name.startswith("rl_blox.algorithm."):
            closure.add(q)
    closure = {q for q in closure if q in funcs}
    ck.count("closure-functions", len(closure))
    ck.extra["call_graph"] = dict(res.cg_stats)
    n_calls = n_rng = n_sets = n_spaces = 0
    undecided_sets = []
    for q in sorted(closure):
        fn, mi = funcs[q]
        if "<locals>" in q:
            continue  # nested defs are walked with their parent
        in_logging = mi.name.startswith("rl_blox.logging")
        params = set(param_names(fn))
        for n in ast.walk(fn):
            if not isinstance(n, ast.Call):
                continue
            n_calls += 1
            f = n.func
            d = repo.resolve_expr(mi, f) if isinstance(f, (ast.Name, ast.Attribute)) else None
            where = loc(mi, n)
            # R1
            if d:
                bad = None
                if d.startswith("numpy.random.") and d.split(".")[2] not in NP_GLOBAL_OK:
                    bad = "numpy's global RandomState (not seeded by the routine)"
                elif d.startswith("random.") and mi.imports.get("random") == "random":
                    bad = "the stdlib global random generator"
                elif d in ("os.urandom",) or d.startswith("uuid.") or d.startswith("secrets."):
                    bad = "an OS entropy source"
                if bad:
                    ck.ob("R1-forbidden-sources", q, f"call:{d}", False, short(n, 70), f"`{d}` draws from {bad}: two runs with equal seeds differ", where)
                # R4
                if (d.startswith("time.") or d.startswith("datetime.")) and not in_logging:
                    ck.ob("R4-time-confinement", q, f"call:{d}", False, short(n, 70), "wall-clock time is read outside rl_blox/logging: results may depend on time", where)
            if isinstance(f, ast.Name) and f.id in ("hash", "id") and f.id not in params and not isinstance(getattr(n, "_parent", None), ast.Expr):
                ck.ob("R1-forbidden-sources", q, f"call:{f.id}", False, short(n, 70), f"builtin {f.id}() of objects / strings is process-dependent (hash randomisation / addresses)", where)
            # R2
            is_ctor = d in RNG_CTORS
            seed_kw = None
            if isinstance(f, ast.Attribute) and f.attr == "reset" and any(k.arg == "seed" for k in n.keywords):
                seed_kw = next(k.value for k in n.keywords if k.arg == "seed")
            if isinstance(f, ast.Attribute) and f.attr == "seed" and dotted(f).endswith("action_space.seed"):
                seed_kw = n.args[0] if n.args else ast.Constant(value=None)
            # the action space that is seeded / sampled is the one of the environment object the routine was given: a wrapper may
            # define its own action space, so `env.unwrapped.action_space` (or any other detour) is a different generator
            if isinstance(f, ast.Attribute) and f.attr in ("seed", "sample") and isinstance(f.value, ast.Attribute) and f.value.attr == "action_space":
                base = f.value.value
                if isinstance(base, ast.Name) and base.id in params:
                    ok_sp = True
                elif isinstance(base, ast.Name):
                    # a local alias of a parameter / an element of a parameter (vector envs) is the same object
                    defs_ = [x for x in ast.walk(fn) if isinstance(x, ast.Assign) and any(isinstance(t, ast.Name) and t.id == base.id for t in x.targets)]
                    ok_sp = None if not defs_ else all(isinstance(x.value, ast.Name) and x.value.id in params for x in defs_) or None
                elif isinstance(base, ast.Attribute) and base.attr in ("unwrapped", "env") :
                    ok_sp = False
                else:
                    ok_sp = None
                n_spaces += 1
                if ok_sp is None:
                    undecided_sets.append(f"{q}: cannot tell which environment object `{short(base, 40)}` is (action space {f.attr})")
                else:
                    ck.ob("R2-seed-provenance", q, f"action-space:{f.attr}:{short(base, 30)}", ok_sp, f"`{short(n, 60)}`",
                          "" if ok_sp else f"the action space that is {'seeded' if f.attr == 'seed' else 'sampled'} belongs to `{short(base, 40)}`, not to the environment object the routine steps and samples from: behind an action wrapper the sampled space stays unseeded", where)
            if is_ctor or seed_kw is not None:
                n_rng += 1
                arg = seed_kw if seed_kw is not None else (n.args[0] if n.args else next((k.value for k in n.keywords if k.arg in ("seed", "default", "params")), None))
                if arg is None or (isinstance(arg, ast.Constant) and arg.value is None):
                    ck.ob("R2-seed-provenance", q, f"unseeded:{d or dotted(f)}", False, short(n, 70), "RNG created / seeded without an argument: it draws fresh OS entropy, so two runs differ", where)
                    continue
                # a seed parameter that defaults to None is a seed only where the constructing code passes one
                if isinstance(arg, ast.Name) and arg.id in params and _default_is_none(fn, arg.id):
                    for mi2, site, sq in _construction_sites(repo, q):
                        if any(isinstance(a_, ast.Starred) for a_ in site.args) or any(k.arg is None for k in site.keywords):
                            continue   # forwarded argument packs: the binding is the caller's
                        from ..repo import bind_call
                        b_ = bind_call(fn, site, skip_self=True)
                        v_ = b_.get(arg.id)
                        ok_ = v_ is not None and not (isinstance(v_, ast.Constant) and v_.value is None)
                        ck.ob("R2-seed-provenance", sq, f"constructs:{q.rsplit('.', 2)[-2] if q.endswith('__init__') else fn.name}:{arg.id}", ok_, f"`{short(site, 70)}`",
                              "" if ok_ else f"`{arg.id}` defaults to None and this call does not pass it: `{short(n, 50)}` then draws fresh OS entropy, so two runs with the same seed differ", loc(mi2, site))
                calls = [c for c in ast.walk(arg) if isinstance(c, ast.Call) and dotted(c.func) not in ("int", "float", "abs", "hash_seed")]
                names = {x.id for x in ast.walk(arg) if isinstance(x, ast.Name)}
                ok = not calls
                ck.ob("R2-seed-provenance", q, f"seed:{d or dotted(f)}:{short(arg, 30)}", ok, f"`{short(n, 70)}`", "" if ok else f"the seed is computed by a call ({short(calls[0], 40)}): not a function of the routine's seed parameter", where)
        # R3: iteration over sets
        cfg = None
        for n in ast.walk(fn):
            it = None
            if isinstance(n, (ast.For, ast.comprehension)):
                it = n.iter
            elif isinstance(n, ast.Call) and isinstance(n.func, ast.Name) and n.func.id in ("list", "tuple", "sorted", "enumerate", "iter") and n.args:
                it = n.args[0] if n.func.id != "sorted" else None
            elif isinstance(n, ast.Call) and isinstance(n.func, ast.Name) and n.func.id in ("zip", "map") and n.args:
                # every zipped / mapped iterable is traversed in its own order: the pairing depends on it
                for it_ in (n.args if n.func.id == "zip" else n.args[1:]):
                    _one_iteration(ck, repo, fn, mi, q, n, it_, undecided_sets)
                    n_sets += _set_kind(repo, fn, mi, it_) is not None
                continue
            elif isinstance(n, ast.Starred) and isinstance(n.ctx, ast.Load):
                it = n.value
            if it is None:
                continue
            kind = _set_kind(repo, fn, mi, it)
            if kind is None:
                continue
            n_sets += 1
            if kind == "unknown":
                undecided_sets.append(f"{q}: cannot tell what the set `{short(it, 40)}` holds")
                continue
            ok = kind == "int"
            ck.ob("R3-unordered-iteration", q, f"iterates:{short(it, 40)}", ok, f"`{short(n if not isinstance(n, ast.comprehension) else it, 70)}` over a set of {kind}",
                  "" if ok else ("iteration order of a set of strings depends on hash randomisation: results differ between processes" if kind == "str" else
                                 "iteration order of a set of objects hashed by identity depends on memory addresses: the same random index selects different members from run to run"), loc(mi, it))
    ck.count("call-expressions", n_calls)
    if undecided_sets:
        ck.incomplete.append("; ".join(undecided_sets[:3]))
    ck.floor("rng-constructors-and-seeding-calls", n_rng, 60)
    ck.floor("set-iterations", n_sets, 3)
    ck.floor("action-space-seed-and-sample-sites", n_spaces, 15)
    ck.ob("R1-forbidden-sources", "rl_blox", "closure-scanned", True, f"{n_calls} call expressions in {len(closure)} functions scanned, no forbidden source", "", "rl_blox/")
    ck.guard(_uninitialised_reads, ck, repo, funcs)
    # positive control: the rule must fire on a known-bad snippet (rules whose expected count is zero)
    bad_src = "import numpy as np\nimport random, time\n\ndef train_x(seed):\n    a = np.random.rand()\n    b = random.random()\n    r = np.random.default_rng()\n    t = time.time()\n    for k in {'a', 'b'}:\n        pass\n"
    hits = _selfcheck(bad_src)
    ck.ob("R1-forbidden-sources", "selftest", "positive-control", hits == {"np.random.rand", "random.random", "default_rng()", "time.time", "set-of-str"}, f"control snippet flagged: {sorted(hits)}", "" if len(hits) == 5 else "the scanner no longer recognises the forbidden patterns", "rlxcheck/props/c09.py")


def _uninitialised_reads(ck, repo, funcs):
    """R5: storage allocated with numpy.empty holds whatever the allocator returns until a slot is written.  A method that reads the
    slot it is about to overwrite (same index expression, no write to the index in between) reads such memory on the first pass through
    the ring, unless the read is guarded by the fill state."""
    from ..nf import NF, Scope
    nf = NF(repo, inline_depth=1, inline_calls=False)
    n_alloc = n_meth = 0
    by_cls = {}
    for q, (fn, mi) in funcs.items():
        p_ = getattr(fn, "_parent", None)
        if isinstance(p_, ast.ClassDef) and "<locals>" not in q:
            by_cls.setdefault(q.rsplit(".", 1)[0], []).append((q, fn, mi))
    for cq, meths in sorted(by_cls.items()):
        # two-level storages self.X[k] = np.empty(<capacity> ...)
        stor = set()
        for q, fn, mi in meths:
            for n in ast.walk(fn):
                if isinstance(n, ast.Assign) and isinstance(n.targets[0], ast.Subscript) and isinstance(n.value, ast.Call) and repo.resolve_expr(mi, n.value.func) == "numpy.empty":
                    a0 = n.value.args[0] if n.value.args else None
                    if isinstance(a0, ast.Constant) and a0.value == 0:
                        continue
                    b = dotted(n.targets[0].value)
                    if b and b.startswith("self."):
                        stor.add(b)
        if not stor:
            continue
        n_alloc += len(stor)
        for q, fn, mi in meths:
            cfg = nf.cfg_of(fn)
            reads, stores, idx_writes = [], [], {}
            for nd in cfg.nodes:
                s_ = nd.ast
                if s_ is None or nd.kind not in ("stmt", "test", "for"):
                    continue
                tgt = None
                if nd.kind == "stmt" and isinstance(s_, (ast.Assign, ast.AugAssign)):
                    tgt = s_.targets[0] if isinstance(s_, ast.Assign) else s_.target
                    if isinstance(tgt, ast.Subscript) and isinstance(tgt.value, ast.Subscript) and dotted(tgt.value.value) in stor and isinstance(s_, ast.Assign):
                        stores.append((nd, tgt))
                    if dotted(tgt) and dotted(tgt).startswith("self."):
                        idx_writes.setdefault(dotted(tgt), []).append(nd.id)
                roots = [s_.value] if nd.kind == "stmt" and isinstance(s_, (ast.Assign, ast.AugAssign)) else [s_.test] if nd.kind == "test" and hasattr(s_, "test") else [s_.iter] if nd.kind == "for" else [s_] if nd.kind == "stmt" and isinstance(s_, (ast.Expr, ast.Return)) else []
                if nd.kind == "stmt" and isinstance(s_, ast.AugAssign) and isinstance(tgt, ast.Subscript):
                    roots.append(tgt)
                for r_ in roots:
                    for x in ast.walk(r_):
                        if isinstance(x, ast.Subscript) and isinstance(x.value, ast.Subscript) and dotted(x.value.value) in stor and not isinstance(x.ctx, ast.Store) or (x is tgt and isinstance(s_, ast.AugAssign) and isinstance(x, ast.Subscript) and isinstance(x.value, ast.Subscript) and dotted(x.value.value) in stor):
                            reads.append((nd, x))
            if not stores:
                continue
            n_meth += 1
            sc = Scope(cfg, mi, {}, q)
            for nd, x in reads:
                ri = nf.poly(x.slice, sc, nd.id).canon()
                for sn, t in stores:
                    if sn.id == nd.id:
                        continue
                    si = nf.poly(t.slice, sc, sn.id).canon()
                    if ri != si or dotted(x.value.value) != dotted(t.value.value):
                        continue
                    if "self." not in ri:
                        continue   # a slot chosen by the caller: decided where the helper is expanded into a method that owns the position
                    avoid = set()
                    for a_, ids in idx_writes.items():
                        if a_ in ri:
                            avoid |= set(ids)
                    if nd.id in avoid or cfg.paths_avoiding(nd.id, sn.id, avoid) is None:
                        continue
                    # is the read guarded by the fill state?
                    guarded = False
                    for bid, lab in cfg.control_deps(nd.id):
                        b_ = cfg.nodes[bid]
                        t_ = getattr(b_.ast, "test", None)
                        if t_ is not None and "self." in nf.poly(t_, sc, bid).canon():
                            guarded = True
                    if guarded:
                        ck.incomplete.append(f"{q}: `{short(x, 50)}` reads the slot that is overwritten next under a condition on the object's state - whether that excludes never-written slots is not decided")
                        continue
                    ck.ob("R5-uninitialised-storage", q, f"reads-slot-before-first-write:{short(x, 40)}", False, f"`{short(nd.ast, 80)}` then `{short(sn.ast, 60)}`",
                          f"`{dotted(x.value.value)}[...]` is allocated with numpy.empty and slot `{ri}` is read before this method writes it: until the ring has wrapped the slot was never written, so the value is whatever the allocator returned - results differ from run to run", loc(mi, x))
                    break
    ck.floor("numpy-empty-storages", n_alloc, 2)
    ck.ob("R5-uninitialised-storage", "rl_blox", "storage-methods-scanned", True, f"{n_meth} methods that write numpy.empty storages of {n_alloc} storages scanned: none reads a slot ahead of its first write", "", "rl_blox/blox/replay_buffer.py")


def _default_is_none(fn, name):
    a = fn.args
    pos = a.posonlyargs + a.args
    for p_, d_ in zip(pos[len(pos) - len(a.defaults):], a.defaults):
        if p_.arg == name:
            return isinstance(d_, ast.Constant) and d_.value is None
    for p_, d_ in zip(a.kwonlyargs, a.kw_defaults):
        if p_.arg == name:
            return isinstance(d_, ast.Constant) and d_.value is None
    return False


def _construction_sites(repo, q):
    """Calls inside rl_blox of the function ``q`` (of the class, when q is its __init__)."""
    target = q[: -len(".__init__")] if q.endswith(".__init__") else q
    out = []
    for q2, fn2, mi2 in repo.all_functions():
        if "<locals>" in q2:
            continue
        for n in ast.walk(fn2):
            if isinstance(n, ast.Call) and isinstance(n.func, (ast.Name, ast.Attribute)):
                try:
                    r = repo.resolve_expr(mi2, n.func)
                except Exception:
                    r = None
                if r == target:
                    out.append((mi2, n, q2))
    return out


def _one_iteration(ck, repo, fn, mi, q, n, it, undecided_sets):
    kind = _set_kind(repo, fn, mi, it)
    if kind is None:
        return
    if kind == "unknown":
        undecided_sets.append(f"{q}: cannot tell what the set `{short(it, 40)}` holds")
        return
    ok = kind == "int"
    ck.ob("R3-unordered-iteration", q, f"iterates:{short(it, 40)}", ok, f"`{short(n, 70)}` over a set of {kind}",
          "" if ok else ("iteration order of a set of strings depends on hash randomisation: results differ between processes" if kind == "str" else
                         "iteration order of a set of objects hashed by identity depends on memory addresses: the same random index selects different members from run to run"), loc(mi, it))


def _set_kind(repo, fn, mi, it, _seen=None):
    """'int' / 'str' / 'unknown' if ``it`` is (an alias of) a set, else None."""
    _seen = {} if _seen is None else _seen
    key = (id(fn), ast.unparse(it))
    if key in _seen:
        return _seen[key]          # None while in progress (cycle), else the memoised answer
    _seen[key] = None
    r_ = _set_kind_(repo, fn, mi, it, _seen)
    _seen[key] = r_
    return r_


def _set_kind_(repo, fn, mi, it, _seen):
    e = it
    if isinstance(e, ast.Set):
        return _elem_kind(e.elts)
    if isinstance(e, ast.SetComp):
        return _elem_kind([e.elt])
    if isinstance(e, ast.Call) and isinstance(e.func, ast.Name) and e.func.id in ("set", "frozenset"):
        return _ctor_kind(e)
    name = dotted(e)
    if not name:
        return None
    # find the defining assignments of the variable / attribute inside this function or class
    scope = fn
    if name.startswith("self."):
        p = getattr(fn, "_parent", None)
        scope = p if isinstance(p, ast.ClassDef) else fn
    kinds = []
    for n in ast.walk(scope):
        if isinstance(n, ast.Assign) and any(dotted(t) == name for t in n.targets):
            v = n.value
            if isinstance(v, ast.Set):
                kinds.append(_elem_kind(v.elts))
            elif isinstance(v, ast.SetComp):
                kinds.append(_elem_kind([v.elt]))
            elif isinstance(v, ast.Call) and isinstance(v.func, ast.Name) and v.func.id in ("set", "frozenset"):
                kinds.append(_ctor_kind(v))
            elif isinstance(v, ast.BinOp) and isinstance(v.op, (ast.Sub, ast.BitOr, ast.BitAnd)) and any(isinstance(x, ast.Call) and isinstance(x.func, ast.Name) and x.func.id == "set" for x in ast.walk(v)):
                kinds.append("int" if all(_ctor_kind(x) == "int" for x in ast.walk(v) if isinstance(x, ast.Call) and isinstance(x.func, ast.Name) and x.func.id == "set") else "unknown")
            elif isinstance(v, ast.Call) and dotted(v.func) == "copy.deepcopy" and v.args:
                k = _set_kind(repo, fn, mi, v.args[0], _seen)
                if k:
                    kinds.append(k)
            elif isinstance(v, ast.Name):
                k = _set_kind(repo, fn, mi, v, _seen) if v.id != name else None
                if k:
                    kinds.append(k)
    if not kinds and isinstance(e, ast.Name) and e.id not in param_names(fn):
        # a module-level constant
        for n in mi.tree.body:
            v = n.value if isinstance(n, (ast.Assign, ast.AnnAssign)) else None
            tg = n.targets if isinstance(n, ast.Assign) else [n.target] if isinstance(n, ast.AnnAssign) else []
            if v is not None and any(dotted(t) == name for t in tg):
                if isinstance(v, ast.Set):
                    kinds.append(_elem_kind(v.elts))
                elif isinstance(v, ast.SetComp):
                    kinds.append(_elem_kind([v.elt]))
                elif isinstance(v, ast.Call) and isinstance(v.func, ast.Name) and v.func.id in ("set", "frozenset"):
                    kinds.append(_ctor_kind(v))
        if kinds:
            return "int" if all(k == "int" for k in kinds) else "str" if "str" in kinds else "unknown"
    if not kinds:
        # function parameter that receives a set at the call sites of this module (smt_stage2(unsolvable_pool))
        if isinstance(e, ast.Name) and e.id in param_names(fn):
            site_kinds = []
            for n in ast.walk(mi.tree):
                if isinstance(n, ast.Call) and isinstance(n.func, ast.Name) and n.func.id == fn.name:
                    from ..repo import bind_call
                    b = bind_call(fn, n)
                    a = b.get(e.id)
                    caller = n
                    while caller is not None and not isinstance(caller, ast.FunctionDef):
                        caller = getattr(caller, "_parent", None)
                    if a is not None and caller is not None and not isinstance(a, list):
                        if isinstance(a, ast.Name):
                            # result of a callee that returns a set?
                            for m in ast.walk(caller):
                                if isinstance(m, ast.Assign) and isinstance(m.targets[0], ast.Tuple) and any(dotted(t) == a.id for t in m.targets[0].elts) and isinstance(m.value, ast.Call) and isinstance(m.value.func, ast.Name):
                                    r = repo.resolve_name(mi, m.value.func.id)
                                    if r and repo.has(r):
                                        cf = repo.func(r)
                                        idx = [dotted(t) for t in m.targets[0].elts].index(a.id)
                                        for ret in ast.walk(cf):
                                            if isinstance(ret, ast.Return) and isinstance(ret.value, ast.Tuple) and idx < len(ret.value.elts):
                                                site_kinds.append(_set_kind(repo, cf, mi, ret.value.elts[idx], _seen))
                        site_kinds.append(_set_kind(repo, caller, mi, a, _seen))
            site_kinds = [k for k in site_kinds if k is not None]
            if site_kinds:
                return "str" if "str" in site_kinds else "object" if "object" in site_kinds else "int" if all(k == "int" for k in site_kinds) else "unknown"
        return None
    if all(k == "int" for k in kinds):
        # additions must be ints as well
        for n in ast.walk(scope):
            if isinstance(n, ast.Call) and isinstance(n.func, ast.Attribute) and n.func.attr in ("add", "update") and dotted(n.func.value) == name and n.args:
                owner = n
                while owner is not None and not isinstance(owner, ast.FunctionDef):
                    owner = getattr(owner, "_parent", None)
                k = _value_kind(owner or fn, scope, n.args[0], n.func.attr == "update", set_kind=lambda it_, f_=owner or fn: _set_kind(repo, f_, mi, it_, _seen))
                if k != "int":
                    return k
        return "int"
    return "str" if "str" in kinds else "unknown"


def _value_kind(fn, cls_scope, e, is_iterable=False, depth=0, set_kind=None):
    """'int' / 'str' / 'object' / 'unknown' for the value(s) put into a set."""
    if depth > 6:
        return "unknown"
    if isinstance(e, ast.Constant):
        return "int" if isinstance(e.value, int) else "str" if isinstance(e.value, str) else "unknown"
    if isinstance(e, (ast.List, ast.Tuple, ast.Set)) and is_iterable:
        ks = {_value_kind(fn, cls_scope, x, False, depth + 1, set_kind) for x in e.elts}
        return ks.pop() if len(ks) == 1 else ("int" if not ks else "unknown")
    if isinstance(e, ast.Call):
        d = dotted(e.func)
        if d in ("int", "len", "range", "ord") or d.endswith(".integers") or d.endswith(".choice") or d.endswith("arange") or d.endswith("argmax") or d.endswith("argmin"):
            return "int"
        if d in ("str", "repr") or d.endswith(".format") or d.endswith(".join"):
            return "str"
        if d and d[:1].isupper() or d in ("copy.deepcopy", "deepcopy", "object"):
            return "object"
        return "unknown"
    if isinstance(e, ast.BinOp) and isinstance(e.op, (ast.Add, ast.Sub, ast.Mult, ast.Mod, ast.FloorDiv)):
        ks = {_value_kind(fn, cls_scope, e.left, False, depth + 1), _value_kind(fn, cls_scope, e.right, False, depth + 1)}
        return "int" if ks == {"int"} else "unknown"
    name = dotted(e)
    # a value on which a non-builtin method is called is an object instance (hashed by identity unless its class says otherwise)
    _BUILTIN_METHODS = set(dir(int)) | set(dir(str)) | set(dir(float)) | {"item", "tolist", "astype"}
    if name:
        for scope_ in ([fn] + ([cls_scope] if isinstance(cls_scope, ast.ClassDef) else [])):
            for n in ast.walk(scope_):
                if isinstance(n, ast.Call) and isinstance(n.func, ast.Attribute) and n.func.attr not in _BUILTIN_METHODS and ast.dump(n.func.value) == ast.dump(e):
                    return "object"
    if isinstance(e, ast.Name):
        # parameter annotated int / local with one kind of definition
        for a in fn.args.posonlyargs + fn.args.args + fn.args.kwonlyargs:
            if a.arg == e.id:
                ann = ast.unparse(a.annotation) if a.annotation is not None else ""
                return "int" if ann in ("int", "np.integer", "int | None") else "str" if ann == "str" else "unknown"
        ks = set()
        for n in ast.walk(fn):
            if isinstance(n, ast.Assign) and any(isinstance(t, ast.Name) and t.id == e.id for t in n.targets):
                ks.add(_value_kind(fn, cls_scope, n.value, False, depth + 1, set_kind))
            elif isinstance(n, (ast.For, ast.comprehension)) and isinstance(n.target, ast.Name) and n.target.id == e.id:
                it = n.iter
                if isinstance(it, ast.Call) and dotted(it.func) in ("range", "enumerate"):
                    ks.add("int")
                else:
                    sk = set_kind(it) if set_kind is not None else None    # iterating over a set of ints yields ints
                    ks.add(sk if sk in ("int", "str") else "unknown")
        return ks.pop() if len(ks) == 1 else "unknown"
    if isinstance(e, ast.Attribute) and name and name.startswith("self.") and isinstance(cls_scope, ast.ClassDef):
        ks = set()
        for m in cls_scope.body:
            if not isinstance(m, ast.FunctionDef):
                continue
            for n in ast.walk(m):
                if isinstance(n, ast.Assign) and any(dotted(t) == name for t in n.targets):
                    ks.add(_value_kind(m, cls_scope, n.value, False, depth + 1))
        return ks.pop() if len(ks) == 1 else "unknown"
    if isinstance(e, ast.Subscript):
        base = dotted(e.value)
        for scope_ in ([fn] + ([cls_scope] if isinstance(cls_scope, ast.ClassDef) else [])):
            for n in ast.walk(scope_):
                if isinstance(n, ast.Call) and isinstance(n.func, ast.Attribute) and n.func.attr not in _BUILTIN_METHODS and isinstance(n.func.value, ast.Subscript) and dotted(n.func.value.value) == base and base:
                    return "object"
        if base and base.startswith("self.") and isinstance(cls_scope, ast.ClassDef):
            # element of a container attribute: what are its elements?
            for m in cls_scope.body:
                if not isinstance(m, ast.FunctionDef):
                    continue
                for n in ast.walk(m):
                    if isinstance(n, ast.Assign) and any(dotted(t) == base for t in n.targets):
                        v = n.value
                        elts = v.elts if isinstance(v, (ast.List, ast.Tuple)) else [v.elt] if isinstance(v, (ast.ListComp, ast.GeneratorExp)) else None
                        if elts is not None and elts:
                            ks = {_value_kind(m, cls_scope, x, False, depth + 1) for x in elts}
                            return ks.pop() if len(ks) == 1 else "unknown"
        return "unknown"
    return "unknown"


def _elem_kind(elts):
    if not elts:
        return "int"
    if all(isinstance(x, ast.Constant) and isinstance(x.value, int) for x in elts):
        return "int"
    if any(isinstance(x, ast.Constant) and isinstance(x.value, str) for x in elts):
        return "str"
    return "unknown"


def _ctor_kind(c):
    if not c.args:
        return "int"  # empty set; the additions decide
    a = c.args[0]
    if isinstance(a, ast.Call):
        d = dotted(a.func)
        if d in ("range",) or d.endswith(".choice") or d.endswith(".integers") or d.endswith("arange") or d.endswith(".permutation"):
            return "int"
    if isinstance(a, (ast.List, ast.Tuple, ast.Set)):
        return _elem_kind(a.elts)
    return "unknown"


def _selfcheck(src):
    tree = ast.parse(src)
    hits = set()
    for n in ast.walk(tree):
        if isinstance(n, ast.Call):
            d = dotted(n.func)
            if d == "np.random.rand":
                hits.add(d)
            if d == "random.random":
                hits.add(d)
            if d == "np.random.default_rng" and not n.args:
                hits.add("default_rng()")
            if d == "time.time":
                hits.add(d)
        if isinstance(n, ast.For) and isinstance(n.iter, ast.Set) and _elem_kind(n.iter.elts) == "str":
            hits.add("set-of-str")
    return hits


_A = "rl_blox/algorithm/"
MUTANTS = [
    {"id": "c09-seed-unwrapped-space", "file": _A + "td3.py", "rule": "R2", "find": "    env.action_space.seed(seed)", "replace": "    env.unwrapped.action_space.seed(seed)"},
    {"id": "c09-sample-unwrapped-space", "file": _A + "ddpg.py", "rule": "R2", "find": "            action = env.action_space.sample()", "replace": "            action = env.unwrapped.action_space.sample()"},
    {"id": "c09-set-of-buffers", "file": "rl_blox/blox/replay_buffer.py", "rule": "R3", "edits": [("        self.active_buffers.add(self.selected_task)", "        self.active_buffers.add(self.buffers[self.selected_task])"),
        ("        self.sampled_task_idx = rng.choice(list(self.active_buffers), size=1)[0]", "        cands = list(self.active_buffers)\n        self.sampled_task_idx = self.buffers.index(cands[rng.choice(len(cands), size=1)[0]])")]},
    {"id": "c09-unseeded-rng", "file": _A + "td3.py", "rule": "R2", "find": "    rng = np.random.default_rng(seed)", "replace": "    rng = np.random.default_rng()"},
    {"id": "c09-np-global", "file": _A + "ddpg.py", "rule": "R1", "find": "        if global_step < learning_starts:\n            action = env.action_space.sample()", "replace": "        if global_step < learning_starts:\n            action = np.random.uniform(env.action_space.low, env.action_space.high)"},
    {"id": "c09-stdlib-random", "file": _A + "smt.py", "rule": "R1", "find": "import copy\nimport warnings", "replace": "import copy\nimport random\nimport warnings", "edits": [("import copy\nimport warnings", "import copy\nimport random\nimport warnings"), ("            worst = main_pool_indices[worst_index]", "            worst = main_pool_indices[worst_index] if random.random() < 2.0 else main_pool_indices[0]")]},
    {"id": "c09-time-seed", "file": _A + "sac.py", "rule": "R", "edits": [("import chex\nimport gymnasium as gym", "import time\n\nimport chex\nimport gymnasium as gym"), ("    key = jax.random.PRNGKey(seed)", "    key = jax.random.PRNGKey(seed + int(time.time()) % 1)")]},
    {"id": "c09-set-of-names", "file": "rl_blox/blox/replay_buffer.py", "rule": "R3", "edits": [("        self.active_buffers = set()", "        self.active_buffers = set()\n        self.active_names = {\"a\", \"b\"}"), ("        self.sampled_task_idx = rng.choice(list(self.active_buffers), size=1)[0]", "        self.sampled_task_idx = rng.choice(list(self.active_buffers), size=1)[0]\n        _ = list(self.active_names)")]},
    {"id": "c09-rngs-unseeded", "file": _A + "td3.py", "rule": "R2", "nth": 0, "find": "        nnx.Rngs(seed),", "replace": "        nnx.Rngs(),"},
    {"id": "c09-reset-seed-none", "file": _A + "dqn.py", "rule": "R2", "find": "    obs, _ = env.reset(seed=seed)", "replace": "    obs, _ = env.reset(seed=None)"},
    {"id": "c09-read-evicted-slot", "file": "rl_blox/blox/replay_buffer.py", "rule": "R5", "nth": 0, "find": "        for k, v in sample.items():\n            self.buffer[k][self.insert_idx] = v\n        self.insert_idx", "replace": "        self.evicted_ = {k: np.array(self.buffer[k][self.insert_idx]) for k in sample}\n        for k, v in sample.items():\n            self.buffer[k][self.insert_idx] = v\n        self.insert_idx"},
    {"id": "c09-zip-name-set", "file": _A + "sac.py", "rule": "R3", "edits": [("    while step < total_timesteps:\n", "    while step < total_timesteps:\n        key, *sub_ = jax.random.split(key, 3)\n        named_ = dict(zip({\"action\", \"critic\"}, sub_))\n")]},
    {"id": "c09-uuid", "file": "rl_blox/blox/mapb.py", "rule": "R1", "edits": [("import numpy as np", "import uuid\n\nimport numpy as np"), ("            arm_idx = len(self.rewards) % self.n_arms\n", "            arm_idx = (len(self.rewards) + uuid.uuid4().int * 0) % self.n_arms\n")]},
]
BENIGN = [
    {"id": "c09-b-read-after-store", "file": "rl_blox/blox/replay_buffer.py", "nth": 0, "find": "        for k, v in sample.items():\n            self.buffer[k][self.insert_idx] = v\n        self.insert_idx", "replace": "        for k, v in sample.items():\n            self.buffer[k][self.insert_idx] = v\n        self.last_added_ = {k: np.array(self.buffer[k][self.insert_idx]) for k in sample}\n        self.insert_idx"},
    {"id": "c09-b-zip-name-tuple", "file": _A + "sac.py", "edits": [("    while step < total_timesteps:\n", "    while step < total_timesteps:\n        key, *sub_ = jax.random.split(key, 3)\n        named_ = dict(zip((\"action\", \"critic\"), sub_))\n")]},
    {"id": "c09-b-seed-arith", "file": _A + "td3.py", "find": "    rng = np.random.default_rng(seed)", "replace": "    rng = np.random.default_rng(seed + 17)"},
    {"id": "c09-b-key-literal", "file": _A + "pets.py", "find": "        key=jax.random.key(seed),", "replace": "        key=jax.random.key(2 * seed + 1),"},
]
