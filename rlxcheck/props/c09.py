"""C09 - training is a deterministic function of seed, initial state and environment (cause-level clause)."""
from __future__ import annotations

import ast

import networkx as nx

from ..cfg import CFG
from ..loops import dotted
from ..repo import Repo, loc, short, AnalysisError, param_names, bind_call
from ..resolve import Resolver

EXPLANATION = (
    "Bit-identity of two runs is a runtime property (XLA, environment internals) and is not decided. Decided is the cause-level sentence of "
    "the property - `no result depends on unseeded global randomness, on time, or on the iteration order of unordered containers` - over the "
    "call-graph closure of every train_* / create_*_state entry point: (R1) no call into a global / OS entropy source (np.random.<fn> other "
    "than the seedable generators, stdlib random, os.urandom / getpid, uuid, secrets; builtin hash of a string used as a value - hash of an "
    "integer is the integer, id(a) == id(b) is an identity test, a value that only reaches a log / exception message is no result); (R2) every "
    "RNG constructor or seeding call (positional or keyword) has an argument and no call inside that argument reads an entropy source or the "
    "clock - conversions, array / key library functions, functions of this package and draws from a generator object are functions of their "
    "arguments, any other call is undecided; (R3) iteration over / list() of a set only where its elements are integers by construction (int "
    "hashing is not randomised, so the order is a function of the operation history) unless the consumer does not see the order (all / any / "
    "set / sorted / min / max / len, a loop of assertions); (R4) a wall-clock reader (time.time, perf_counter, datetime.now, ...) outside "
    "rl_blox/logging is followed to its uses: handed to the logger interface / print / a progress bar it is one of the wall-clock fields the "
    "property sets aside, deciding a branch that holds more than logging or seeding a generator it is a violation, anything else (stored, "
    "returned, handed to other code) is undecided. A violation is only reported on such positive evidence; unreadable forms are undecided. "
    "(R6) a run is a function of its arguments only if nothing it reads was left behind by an earlier call: for every object that outlives a call "
    "(module-level container, module global rebound through `global`, container in a class body, mutable default) and is written by code in the closure, the observers "
    "are followed - log output only is fine; a keyed store / lookup pair or a lazily initialised global is a memo whose entry a later call receives although it was built "
    "from the earlier call's inputs, so every input the kept value is built from must be pinned down by the lookup key (an input the key does not hold is a dataflow "
    "witness of history dependence; a kept random generator continues its stream); other observed mutations are undecided. "
    "PRNG-key reuse is deliberately not a rule: it correlates draws but is deterministic."
)
TRUSTED = ["CPython: hash(int) is not salted, so set-of-int iteration order is a function of the insertion history", "jax.random / numpy Generator are deterministic functions of their key / seed"]
RULES = {
    "R1-forbidden-sources": "no call to np.random.<global fn>, random.<global fn>, os.urandom / getpid, uuid.*, secrets.* and no hash(<string>) used as a value in the closure of the training entry points",
    "R2-seed-provenance": "default_rng / jax.random.key / PRNGKey / nnx.Rngs / seedable generators / env.reset(seed=) / action_space.seed are always given an argument (not None) in which no call reads an entropy source or the clock; the seeded / sampled action space is the one of the environment the routine was given or steps; a seed parameter defaulting to None is passed at every construction site",
    "R3-unordered-iteration": "sets whose iteration order is observed hold integers by construction (rng.choice(n), range, validated task ids, set algebra of those)",
    "R4-time-confinement": "outside rl_blox/logging/ a wall-clock value only reaches the logger interface, print or a progress bar: it neither decides a branch that holds more than logging nor seeds a generator",
    "R6-process-state": "nothing that outlives a call (module-level container, rebound module global, class-level container, mutable default) hands a later call a value built from an earlier call's inputs: every input of a memoised value is part of its lookup key, and no random generator is kept across calls",
    "R5-uninitialised-storage": "no method reads a slot of a numpy.empty storage ahead of writing it (same index, no fill-state guard): on the first pass through the ring that slot was never written",
}

RNG_CTORS = {"numpy.random.default_rng", "jax.random.key", "jax.random.PRNGKey", "flax.nnx.Rngs"}
# generators that are deterministic functions of the seed they are given (and draw OS entropy without one): judged by R2, not by R1
SEEDED_GENERATORS = {"numpy.random.RandomState", "numpy.random.MT19937", "numpy.random.Philox", "numpy.random.SFC64", "numpy.random.PCG64", "numpy.random.PCG64DXSM", "random.Random"}
NP_GLOBAL_OK = {"default_rng", "Generator", "SeedSequence", "PCG64", "BitGenerator"} | {x.rsplit(".", 1)[1] for x in SEEDED_GENERATORS if x.startswith("numpy.")}
# functions of the time / datetime modules that read the wall clock (the rest - timedelta, strptime, sleep, ... - are functions of their arguments)
CLOCK_READERS = {"time.time", "time.time_ns", "time.perf_counter", "time.perf_counter_ns", "time.monotonic", "time.monotonic_ns", "time.process_time", "time.process_time_ns",
                 "time.thread_time", "time.thread_time_ns", "time.clock_gettime", "time.clock_gettime_ns", "datetime.datetime.now", "datetime.datetime.utcnow", "datetime.datetime.today", "datetime.date.today"}
CLOCK_UNLESS_ARGS = {"time.localtime": 1, "time.gmtime": 1, "time.ctime": 1, "time.asctime": 1, "time.strftime": 2}   # read the clock unless that many arguments are given
CLOCK_FREE = {"time.sleep", "time.strptime", "time.mktime", "time.struct_time", "datetime.timedelta", "datetime.datetime", "datetime.date", "datetime.time", "datetime.timezone",
              "datetime.datetime.fromtimestamp", "datetime.datetime.utcfromtimestamp", "datetime.datetime.strptime", "datetime.datetime.fromisoformat", "datetime.datetime.combine",
              "datetime.date.fromtimestamp", "datetime.date.fromisoformat"}
# calls a seed may pass through: value-transparent builtins, array / key libraries (deterministic functions of their arguments; their random sub-packages are judged separately)
SEED_BUILTINS = {"int", "float", "abs", "min", "max", "round", "len", "sum", "pow", "divmod", "bool", "tuple", "list", "range"}
SEED_LIBS = ("numpy.", "jax.", "flax.", "math.", "operator.", "functools.", "itertools.", "optax.", "chex.")
SEED_METHODS = {"integers", "spawn", "generate_state", "item", "astype", "tolist", "squeeze", "sum", "bit_length", "__index__", "__int__"}   # of a generator / array / int that is itself judged where it is made
VALUE_TRANSPARENT = {"int", "float", "str", "repr", "round", "abs", "format", "min", "max", "divmod", "bool", "len", "sum", "sorted", "list", "tuple"}
PROGRESS_METHODS = {"set_description", "set_description_str", "set_postfix", "set_postfix_str", "write", "debug", "info", "warning", "error", "exception", "critical"}   # tqdm, logging.Logger


def entry_points(repo):
    out = []
    for qual, fn, mi in repo.all_functions():
        if "<locals>" in qual:
            continue
        if fn.name.startswith("train_") or (fn.name.startswith("create_") and fn.name.endswith("_state")) or fn.name in ("generate_rollout", "optimize_cem"):
            out.append(qual)
    return sorted(out)


def run(ck, repo: Repo, tier: str):
    global _REPO
    _REPO = repo
    res = Resolver(repo)
    g = res.call_graph()
    eps = entry_points(repo)
    ck.floor("entry-points", len(eps), 30)
    closure = set(eps)
    for e in eps:
        if e in g:
            closure |= nx.descendants(g, e)
    # constructors/methods of classes instantiated in the closure
    funcs = {q: (fn, mi) for q, fn, mi in repo.all_functions()}
    for q in list(closure):
        base = q.split(".<locals>.")[0]
        closure.add(base)
    # nested functions of closure members belong to it
    for q in funcs:
        if any(q.startswith(c + ".<locals>.") for c in closure):
            closure.add(q)
    # methods of repo classes referenced anywhere in the closure (buffers, policies, loggers are passed in by the user)
    used_cls = set()
    for q in closure:
        if q in funcs:
            fn, mi = funcs[q]
            for n in ast.walk(fn):
                if isinstance(n, ast.Name):
                    r = repo.resolve_name(mi, n.id)
                    if r and r.startswith("rl_blox."):
                        try:
                            _, node = repo.lookup(r)
                            if isinstance(node, ast.ClassDef):
                                used_cls.add(r)
                        except Exception:
                            pass
    for q in funcs:
        if any(q.startswith(c + ".") for c in used_cls):
            closure.add(q)
    # everything in blox/ is reachable through user-supplied objects (buffers, heads, selectors): include the whole package except plotting
    for q, (fn, mi) in funcs.items():
        if mi.name.startswith("rl_blox.blox.") or mi.name.startswith("rl_blox.algorithm."):
            closure.add(q)
    closure = {q for q in closure if q in funcs}
    ck.count("closure-functions", len(closure))
    ck.extra["call_graph"] = dict(res.cg_stats)
    n_calls = n_rng = n_sets = n_spaces = 0
    undecided_sets = []
    sinks = _logging_sinks(repo)
    for q in sorted(closure):
        fn, mi = funcs[q]
        if "<locals>" in q:
            continue  # nested defs are walked with their parent
        in_logging = mi.name.startswith("rl_blox.logging")
        params = set(param_names(fn))
        local = _local_names(fn)
        stepped = None
        for n in ast.walk(fn):
            if not isinstance(n, ast.Call):
                continue
            n_calls += 1
            f = n.func
            # a name bound inside the routine (parameter, local) hides the module-level import of the same name
            d = repo.resolve_expr(mi, f) if isinstance(f, (ast.Name, ast.Attribute)) and _root_name(f) not in local else None
            where = loc(mi, n)
            # R1
            if d:
                bad = _entropy_source(d)
                if bad:
                    ck.ob("R1-forbidden-sources", q, f"call:{d}", False, short(n, 70), f"`{d}` draws from {bad}: two runs with equal seeds differ", where)
                # R4: the wall clock may be read for what the property sets aside (wall-clock fields of log records, progress output); a
                # violation is a clock value that decides a branch holding more than logging, or that seeds a generator
                if not in_logging and (d.startswith("time.") or d.startswith("datetime.")):
                    clock = _reads_clock(d, n)
                    if clock is None:
                        undecided_sets.append(f"{q}: `{short(n, 50)}` - not known whether `{d}` reads the wall clock (unrecognised form)")
                    elif clock:
                        uses = _value_uses(repo, mi, fn, n, sinks)
                        ev = [u for u in uses if u[0] in ("test", "rng")]
                        if ev:
                            why = "decides a branch that holds more than logging" if ev[0][0] == "test" else "seeds a random generator"
                            ck.ob("R4-time-confinement", q, f"call:{d}", False, short(n, 70), f"wall-clock time is read outside rl_blox/logging and {why} (`{short(ev[0][1], 60)}`): results depend on time", where)
                        elif any(u[0] == "other" for u in uses):
                            u_ = next(u for u in uses if u[0] == "other")
                            undecided_sets.append(f"{q}: the wall-clock value `{short(n, 40)}` is handed to `{short(u_[1], 50)}` - whether a result depends on it is not decided (unrecognised form)")
                        else:
                            ck.ob("R4-time-confinement", q, f"call:{d}", True, short(n, 70), "", where)
            if isinstance(f, ast.Name) and f.id in ("hash", "id") and f.id not in local and repo.resolve_name(mi, f.id) is None and len(n.args) == 1 and not n.keywords:
                verdict, why_ = _process_dependent_builtin(repo, mi, fn, n, sinks)
                if verdict is False:
                    ck.ob("R1-forbidden-sources", q, f"call:{f.id}", False, short(n, 70), f"builtin {f.id}() of {why_} is process-dependent (hash randomisation / addresses) and its value is used by the routine", where)
                elif verdict is None:
                    undecided_sets.append(f"{q}: `{short(n, 50)}` - {why_} (unrecognised form)")
            # R2
            is_ctor = d in RNG_CTORS or d in SEEDED_GENERATORS
            seed_args = None
            packs = any(isinstance(a_, ast.Starred) for a_ in n.args) or any(k.arg is None for k in n.keywords)
            if is_ctor:
                # jax.random.key(seed, *, impl) / default_rng(seed) / Rngs(default, **streams): the first positional or the `seed` keyword; every stream of Rngs is a seed
                seed_args = [a_ for a_ in n.args[:1] if not isinstance(a_, ast.Starred)] + [k.value for k in n.keywords if k.arg is not None and (d == "flax.nnx.Rngs" or k.arg in ("seed", "x"))]
            if isinstance(f, ast.Attribute) and f.attr == "reset" and any(k.arg == "seed" for k in n.keywords):
                seed_args = [k.value for k in n.keywords if k.arg == "seed"]
            space = f.value if isinstance(f, ast.Attribute) and f.attr in ("seed", "sample") else None
            if isinstance(space, ast.Name) and space.id in local and space.id not in params:
                space = _alias_root(fn, params, space)     # `space = env.action_space; space.sample()`
            is_space = isinstance(space, ast.Attribute) and space.attr == "action_space"
            if is_space and f.attr == "seed":
                seed_args = [a_ for a_ in n.args[:1] if not isinstance(a_, ast.Starred)] + [k.value for k in n.keywords if k.arg == "seed"]
            # the action space that is seeded / sampled is the one of the environment object the routine was given: a wrapper may
            # define its own action space, so `env.unwrapped.action_space` (or any other detour) is a different generator
            if is_space:
                if stepped is None:
                    stepped = _stepped_environments(fn, params)
                base = space.value
                ok_sp, why_sp = _same_environment(fn, params, stepped, base)
                n_spaces += 1
                if ok_sp is None:
                    undecided_sets.append(f"{q}: cannot tell which environment object `{short(base, 40)}` is (action space {f.attr})")
                else:
                    ck.ob("R2-seed-provenance", q, f"action-space:{f.attr}:{short(base, 30)}", ok_sp, f"`{short(n, 60)}`",
                          "" if ok_sp else f"the action space that is {'seeded' if f.attr == 'seed' else 'sampled'} belongs to `{short(base, 40)}` ({why_sp}), not to the environment object the routine steps and samples from: behind an action wrapper the sampled space stays unseeded", where)
            if seed_args is not None:
                n_rng += 1
                name_ = d if is_ctor else dotted(f) or short(f, 40)
                if not seed_args:
                    if packs:
                        undecided_sets.append(f"{q}: `{short(n, 50)}` takes its seed from a forwarded argument pack (unrecognised form)")
                        continue
                    ck.ob("R2-seed-provenance", q, f"unseeded:{name_}", False, short(n, 70), "RNG created / seeded without an argument: it draws fresh OS entropy, so two runs differ", where)
                    continue
                for arg in seed_args:
                    if isinstance(arg, ast.Constant) and arg.value is None:
                        ck.ob("R2-seed-provenance", q, f"unseeded:{name_}", False, short(n, 70), "RNG created / seeded with None: it draws fresh OS entropy, so two runs differ", where)
                        continue
                    # a seed parameter that defaults to None is a seed only where the constructing code passes one
                    if isinstance(arg, ast.Name) and arg.id in params and _default_is_none(fn, arg.id) and _reaches_unchanged(fn, arg):
                        for mi2, site, sq in _construction_sites(repo, q):
                            if any(isinstance(a_, ast.Starred) for a_ in site.args) or any(k.arg is None for k in site.keywords):
                                continue   # forwarded argument packs: the binding is the caller's
                            b_ = bind_call(fn, site, skip_self=True)
                            v_ = b_.get(arg.id)
                            ok_ = v_ is not None and not (isinstance(v_, ast.Constant) and v_.value is None)
                            ck.ob("R2-seed-provenance", sq, f"constructs:{q.rsplit('.', 2)[-2] if q.endswith('__init__') else fn.name}:{arg.id}", ok_, f"`{short(site, 70)}`",
                                  "" if ok_ else f"`{arg.id}` defaults to None and this call does not pass it: `{short(n, 50)}` then draws fresh OS entropy, so two runs with the same seed differ", loc(mi2, site))
                    # a call inside the seed is evidence only where it is a known entropy source; a call that cannot be classified is undecided
                    bad_c, unk_c = _seed_calls(repo, mi, fn, local, arg)
                    if unk_c and not bad_c:
                        undecided_sets.append(f"{q}: the seed of `{short(n, 50)}` passes through `{short(unk_c[0], 40)}` - not known whether that is a function of the routine's seed (unrecognised form)")
                        continue
                    ok = not bad_c
                    ck.ob("R2-seed-provenance", q, f"seed:{name_}:{short(arg, 30)}", ok, f"`{short(n, 70)}`", "" if ok else f"the seed is computed from {bad_c[0][1]} (`{short(bad_c[0][0], 40)}`): not a function of the routine's seed parameter", where)
        # R3: iteration over sets
        for n in ast.walk(fn):
            it = None
            if isinstance(n, (ast.For, ast.comprehension)):
                it = n.iter
            elif isinstance(n, ast.Call) and isinstance(n.func, ast.Name) and n.func.id in ("list", "tuple", "sorted", "enumerate", "iter") and n.args:
                it = n.args[0] if n.func.id != "sorted" else None
            elif isinstance(n, ast.Call) and isinstance(n.func, ast.Name) and n.func.id in ("zip", "map") and n.args:
                # every zipped / mapped iterable is traversed in its own order: the pairing depends on it
                for it_ in (n.args if n.func.id == "zip" else n.args[1:]):
                    _one_iteration(ck, repo, fn, mi, q, n, it_, undecided_sets)
                    n_sets += _set_kind(repo, fn, mi, it_) is not None
                continue
            elif isinstance(n, ast.Starred) and isinstance(n.ctx, ast.Load):
                it = n.value
            if it is None:
                continue
            kind = _set_kind(repo, fn, mi, it)
            if kind is None:
                continue
            n_sets += 1
            if kind != "int" and _order_free(n):
                continue   # consumed by something that does not see the order (all / any / set / sorted / min / max / len, a loop of assertions)
            if kind == "unknown":
                undecided_sets.append(f"{q}: cannot tell what the set `{short(it, 40)}` holds")
                continue
            ok = kind == "int"
            ck.ob("R3-unordered-iteration", q, f"iterates:{short(it, 40)}", ok, f"`{short(n if not isinstance(n, ast.comprehension) else it, 70)}` over a set of {kind}",
                  "" if ok else ("iteration order of a set of strings depends on hash randomisation: results differ between processes" if kind == "str" else
                                 "iteration order of a set of objects hashed by identity depends on memory addresses: the same random index selects different members from run to run"), loc(mi, it))
    ck.count("call-expressions", n_calls)
    if undecided_sets:
        ck.incomplete.append("; ".join(undecided_sets[:3]))
    ck.floor("rng-constructors-and-seeding-calls", n_rng, 60)
    ck.floor("set-iterations", n_sets, 3)
    ck.floor("action-space-seed-and-sample-sites", n_spaces, 15)
    ck.ob("R1-forbidden-sources", "rl_blox", "closure-scanned", True, f"{n_calls} call expressions in {len(closure)} functions scanned, no forbidden source", "", "rl_blox/")
    ck.guard(_uninitialised_reads, ck, repo, funcs)
    ck.guard(_process_state_guarded, ck, repo, funcs, closure, sinks)
    ck.guard(_default_instances, ck, repo, funcs, closure)
    # positive control: the rule must fire on a known-bad snippet (rules whose expected count is zero)
    bad_src = "import numpy as np\nimport random, time\n\ndef train_x(seed):\n    a = np.random.rand()\n    b = random.random()\n    r = np.random.default_rng()\n    t = time.time()\n    for k in {'a', 'b'}:\n        pass\n"
    hits = _selfcheck(bad_src)
    ck.ob("R1-forbidden-sources", "selftest", "positive-control", hits == {"np.random.rand", "random.random", "default_rng()", "time.time", "set-of-str"}, f"control snippet flagged: {sorted(hits)}", "" if len(hits) == 5 else "the scanner no longer recognises the forbidden patterns", "rlxcheck/props/c09.py")


def _root_name(e):
    while isinstance(e, (ast.Attribute, ast.Subscript, ast.Call)):
        e = e.func if isinstance(e, ast.Call) else e.value
    return e.id if isinstance(e, ast.Name) else None


def _local_names(fn):
    """Names bound inside ``fn`` (parameters of it and of its nested functions / lambdas, assigned names, loop and with targets)."""
    out = set()
    for n in ast.walk(fn):
        if isinstance(n, (ast.FunctionDef, ast.AsyncFunctionDef, ast.Lambda)):
            a = n.args
            out |= {x.arg for x in a.posonlyargs + a.args + a.kwonlyargs} | ({a.vararg.arg} if a.vararg else set()) | ({a.kwarg.arg} if a.kwarg else set())
            if n is not fn and not isinstance(n, ast.Lambda):
                out.add(n.name)
        elif isinstance(n, ast.Name) and isinstance(n.ctx, (ast.Store, ast.Del)):
            out.add(n.id)
    return out


def _entropy_source(d):
    """What a resolved callee draws from when it is a global / OS entropy source, else None."""
    if d.startswith("numpy.random.") and d.split(".")[2] not in NP_GLOBAL_OK:
        return "numpy's global RandomState (not seeded by the routine)"
    if d.startswith("random.") and d not in SEEDED_GENERATORS:
        return "the stdlib global random generator"
    if d in ("os.urandom", "os.getrandom", "os.getpid") or d.startswith("uuid.") or d.startswith("secrets."):
        return "an OS entropy source"
    return None


def _reads_clock(d, call):
    """True / False / None (unknown member of time / datetime)."""
    if d in CLOCK_READERS:
        return True
    if d in CLOCK_UNLESS_ARGS:
        if any(isinstance(a_, ast.Starred) for a_ in call.args) or any(k.arg is None for k in call.keywords):
            return None
        return len(call.args) + len(call.keywords) < CLOCK_UNLESS_ARGS[d]
    if d in CLOCK_FREE:
        return False
    return None


def _logging_sinks(repo):
    """Method names of the logger interface (read from the repository's LoggerBase) and of progress bars: what they are given ends up
    in log records / on the terminal, which the property sets aside for wall-clock fields."""
    out = set(PROGRESS_METHODS)
    try:
        for cq in ["rl_blox.logging.logger.LoggerBase"] + repo.subclasses("rl_blox.logging.logger.LoggerBase"):
            for ch in repo.cls(cq).body:
                if isinstance(ch, ast.FunctionDef) and not ch.name.startswith("_"):
                    out.add(ch.name)
    except AnalysisError:
        pass
    return out


def _is_log_call(repo, mi, c, sinks, local):
    f = c.func
    if isinstance(f, ast.Name):
        return f.id == "print" and f.id not in local and repo.resolve_name(mi, f.id) is None
    if not isinstance(f, ast.Attribute):
        return False
    d = repo.resolve_expr(mi, f) if _root_name(f) not in local else None
    if d and (d == "warnings.warn" or d.startswith("logging.") or d.startswith("rl_blox.logging.")):
        return True
    if d and repo.has(d):
        return False      # a function / class of this package: not a logger
    return f.attr in sinks    # a method of an object (parameter, local, module-level logger / progress bar)


def _only_logging(repo, mi, stmts, sinks, local):
    return all(isinstance(s, ast.Pass) or (isinstance(s, ast.Expr) and isinstance(s.value, ast.Call) and _is_log_call(repo, mi, s.value, sinks, local)) or
               (isinstance(s, ast.If) and _only_logging(repo, mi, s.body + s.orelse, sinks, local)) for s in stmts)


def _value_uses(repo, mi, fn, node, sinks, _seen=None, _local=None):
    """How the value of the expression ``node`` is consumed inside ``fn``: [(kind, consumer)] with kind 'log' (handed to a logger /
    print / progress bar / exception message), 'drop' (discarded), 'rng' (seeds a generator), 'test' (decides a branch that holds more
    than logging) or 'other' (stored, returned, handed to other code: not followed).  Locals are followed flow-insensitively."""
    seen = set() if _seen is None else _seen
    local = _local_names(fn) if _local is None else _local
    out = []
    cur, p = node, getattr(node, "_parent", None)
    while True:
        if p is None or cur is fn:
            return out + [("other", cur)]
        if isinstance(p, ast.keyword):
            cur, p = p, getattr(p, "_parent", None)
            continue
        if isinstance(p, ast.Call):
            if cur is p.func:
                cur, p = p, getattr(p, "_parent", None)    # a method of the value (total_seconds, timestamp, strftime): still that value
                continue
            f = p.func
            d = repo.resolve_expr(mi, f) if isinstance(f, (ast.Name, ast.Attribute)) and _root_name(f) not in local else None
            if _is_log_call(repo, mi, p, sinks, local):
                return out + [("log", p)]
            if d in RNG_CTORS or d in SEEDED_GENERATORS or (isinstance(f, ast.Attribute) and (f.attr == "reset" and isinstance(cur, ast.keyword) and cur.arg == "seed" or f.attr == "seed")):
                return out + [("rng", p)]
            if (isinstance(f, ast.Name) and f.id in VALUE_TRANSPARENT and f.id not in local and repo.resolve_name(mi, f.id) is None) or (d and (d.startswith("time.") or d.startswith("datetime."))) \
                    or (isinstance(f, ast.Attribute) and f.attr == "format" and isinstance(f.value, ast.Constant)):
                cur, p = p, getattr(p, "_parent", None)
                continue
            return out + [("other", p)]
        if isinstance(p, ast.IfExp) and cur is p.test:
            return out + [("test", p)]
        if isinstance(p, ast.Subscript) and cur is not p.value:
            return out + [("other", p)]
        if isinstance(p, ast.NamedExpr):
            out += _follow_names(repo, mi, fn, p, [p.target], sinks, seen, local)
            cur, p = p, getattr(p, "_parent", None)
            continue
        if isinstance(p, (ast.BinOp, ast.UnaryOp, ast.Compare, ast.BoolOp, ast.JoinedStr, ast.FormattedValue, ast.IfExp, ast.Subscript, ast.Attribute, ast.Tuple, ast.List, ast.Starred)):
            cur, p = p, getattr(p, "_parent", None)
            continue
        if isinstance(p, ast.Expr):
            return out + [("drop", p)]
        if isinstance(p, ast.Raise) or (isinstance(p, ast.Assert) and cur is p.msg):
            return out + [("log", p)]
        if isinstance(p, (ast.If, ast.While)) and cur is p.test:
            return out + [("log" if isinstance(p, ast.If) and _only_logging(repo, mi, p.body + p.orelse, sinks, local) else "test", p)]
        if isinstance(p, (ast.Assign, ast.AnnAssign, ast.AugAssign)) and cur is p.value:
            tg = p.targets if isinstance(p, ast.Assign) else [p.target]
            flat = []
            for t in tg:
                flat += list(t.elts) if isinstance(t, (ast.Tuple, ast.List)) else [t]
            if not all(isinstance(t, ast.Name) for t in flat):
                return out + [("other", p)]
            return out + _follow_names(repo, mi, fn, p, flat, sinks, seen, local)
        return out + [("other", p)]


def _cfg(fn):
    cfg = getattr(fn, "_c09_cfg", None)
    if cfg is None:
        cfg = fn._c09_cfg = CFG(fn)
    return cfg


def _follow_names(repo, mi, fn, binder, targets, sinks, seen, local):
    """Uses of the value bound to the local names ``targets`` by the statement / walrus ``binder``: the reads that this definition reaches
    (the same name bound elsewhere to something else is another value)."""
    out = []
    try:
        cfg = _cfg(fn)
        dn = cfg.node_of(binder).id
    except Exception:
        return [("other", binder)]
    for t in targets:
        if not isinstance(t, ast.Name):
            out.append(("other", t))
            continue
        for x in ast.walk(fn):
            if isinstance(x, ast.Name) and x.id == t.id and isinstance(x.ctx, ast.Load) and id(x) not in seen:
                try:
                    reached = any(d.node == dn for d in cfg.defs_of(cfg.node_of(x).id, t.id))
                except Exception:
                    out.append(("other", x))
                    continue
                if reached:
                    seen.add(id(x))
                    out += _value_uses(repo, mi, fn, x, sinks, seen, local)
    return out


def _hash_operand_kind(fn, e, depth=0):
    """'int' (hash is the value: not salted) / 'str' (salted per process) / 'unknown' for the operand of hash()."""
    if isinstance(e, ast.Constant):
        return "int" if isinstance(e.value, (int, float)) and not isinstance(e.value, bool) or isinstance(e.value, bool) else "str" if isinstance(e.value, (str, bytes)) else "unknown"
    if isinstance(e, ast.JoinedStr):
        return "str"
    if isinstance(e, ast.Tuple):
        ks = {_hash_operand_kind(fn, x, depth + 1) for x in e.elts}
        return "str" if "str" in ks else "int" if ks <= {"int"} else "unknown"
    k = _value_kind(fn, getattr(fn, "_parent", None), e, False, depth + 1)
    return k if k in ("int", "str") else "unknown"


def _process_dependent_builtin(repo, mi, fn, call, sinks):
    """hash(x) / id(x) used as a value.  (True, '') = no result can depend on it; (False, what) = a process-dependent value is used;
    (None, why) = not decided."""
    name = call.func.id
    p = getattr(call, "_parent", None)
    if name == "id":
        # id(a) == id(b) is the identity test `a is b`: the same in every run
        if isinstance(p, ast.Compare) and all(isinstance(x, ast.Call) and isinstance(x.func, ast.Name) and x.func.id == "id" for x in [p.left] + p.comparators) and all(isinstance(o, (ast.Eq, ast.NotEq, ast.Is, ast.IsNot)) for o in p.ops):
            return True, ""
        uses = _value_uses(repo, mi, fn, call, sinks)
        if all(u[0] in ("log", "drop") for u in uses):
            return True, ""
        return None, "an object address is used as a value - whether a result depends on it (or only identity bookkeeping) is not decided"
    kind = _hash_operand_kind(fn, call.args[0])
    if kind == "int":
        return True, ""
    uses = _value_uses(repo, mi, fn, call, sinks)
    if all(u[0] in ("log", "drop") for u in uses):
        return True, ""
    if kind == "str":
        return False, "a string"
    return None, "hash() of a value whose type is not known is used as a value"


def _seed_calls(repo, mi, fn, local, arg):
    """(entropy, unknown): the calls inside a seed expression that read a global / OS entropy source or the clock [(call, what)], and
    those that cannot be classified.  Builtin conversions, array / key library functions, functions of this package (scanned by the same
    rules) and draws from a generator object (judged where it is constructed) are functions of their arguments."""
    bad, unk = [], []
    for c in ast.walk(arg):
        if not isinstance(c, ast.Call):
            continue
        f = c.func
        root = _root_name(f)
        if isinstance(f, ast.Name) and (f.id in local or repo.resolve_name(mi, f.id) is None):
            if f.id in local:
                unk.append(c)
            elif f.id in SEED_BUILTINS:
                continue
            elif f.id in ("hash", "id") and len(c.args) == 1:
                k = "str" if f.id == "id" else _hash_operand_kind(fn, c.args[0])
                if k == "str":
                    bad.append((c, "a process-dependent value"))
                elif k != "int":
                    unk.append(c)
            else:
                unk.append(c)
            continue
        d = repo.resolve_expr(mi, f) if isinstance(f, (ast.Name, ast.Attribute)) and root not in local else None
        if d:
            src = _entropy_source(d)
            if src is None and (d.startswith("time.") or d.startswith("datetime.")):
                clock = _reads_clock(d, c)
                src = "the wall clock" if clock else None
                if clock is None:
                    unk.append(c)
                    continue
                if clock is False:
                    continue
            if src:
                bad.append((c, src))
            elif d in RNG_CTORS or d in SEEDED_GENERATORS or d.startswith(SEED_LIBS) or (d.startswith("rl_blox.") and not d.startswith("rl_blox.logging")):
                continue
            else:
                unk.append(c)
            continue
        if isinstance(f, ast.Attribute) and f.attr in SEED_METHODS:
            continue
        unk.append(c)
    return bad, unk


def _bindings(fn, name):
    """Every binding of the local ``name`` inside ``fn``: [(kind, value)] with kind 'assign' (value = the assigned expression) or 'other'."""
    out = []
    for n in ast.walk(fn):
        if isinstance(n, ast.Name) and n.id == name and isinstance(n.ctx, (ast.Store, ast.Del)):
            p = getattr(n, "_parent", None)
            if isinstance(p, ast.Assign) and any(t is n for t in p.targets):
                out.append(("assign", p.value))
            elif isinstance(p, ast.AnnAssign) and p.target is n and p.value is not None:
                out.append(("assign", p.value))
            elif isinstance(p, ast.NamedExpr) and p.target is n:
                out.append(("assign", p.value))
            else:
                out.append(("other", p))
    return out


def _alias_root(fn, params, e, depth=0):
    """``e`` with local names that are plain copies (`x = env`, `x = envs[i]`, helper-expansion temporaries) replaced by what they copy."""
    if depth > 6:
        return e
    if isinstance(e, ast.Name) and e.id not in params:
        bs = _bindings(fn, e.id)
        if bs and all(k == "assign" for k, _ in bs):
            roots = [_alias_root(fn, params, v, depth + 1) for _, v in bs]
            if len({ast.dump(r) for r in roots}) == 1 and isinstance(roots[0], (ast.Name, ast.Attribute, ast.Subscript)):
                return roots[0]
        return e
    if isinstance(e, ast.Attribute):
        v = _alias_root(fn, params, e.value, depth + 1)
        return e if v is e.value else ast.Attribute(value=v, attr=e.attr, ctx=ast.Load())
    if isinstance(e, ast.Subscript):
        v = _alias_root(fn, params, e.value, depth + 1)
        return e if v is e.value else ast.Subscript(value=v, slice=e.slice, ctx=ast.Load())
    return e


def _stepped_environments(fn, params):
    """Canonical texts of the expressions on which the routine calls step / reset: the environment objects it acts in."""
    out = set()
    for n in ast.walk(fn):
        if isinstance(n, ast.Call) and isinstance(n.func, ast.Attribute) and n.func.attr in ("step", "reset"):
            out.add(ast.dump(_alias_root(fn, params, n.func.value)))
    return out


def _same_environment(fn, params, stepped, base):
    """(True, '') when ``base`` is the environment object the routine was given / steps; (False, why) when it is reached from one through
    a detour that yields another object behind a wrapper; (None, '') when it cannot be told."""
    b = _alias_root(fn, params, base)
    self_like = {a.arg for a in (fn.args.posonlyargs + fn.args.args)[:1] if isinstance(getattr(fn, "_parent", None), ast.ClassDef)}
    def given(x):
        if ast.dump(x) in stepped:
            return True
        if isinstance(x, ast.Subscript):
            x = x.value       # an element of a given collection of environments
        return isinstance(x, ast.Name) and x.id in params and x.id not in self_like
    if given(b):
        return True, ""
    x, detour = b, []
    while isinstance(x, ast.Attribute) and x.attr in ("unwrapped", "env"):
        detour.append(x.attr)
        x = x.value
    if detour and given(x):
        return False, f"`.{'.'.join(reversed(detour))}` of the environment `{short(x, 30)}`"
    return None, ""


def _reaches_unchanged(fn, name_node):
    """The parameter read at ``name_node`` is never rebound in the routine and the read is not under a test of that parameter
    (`if seed is None: seed = ...` / `... if seed is not None else ...` give the constructor something else than the default)."""
    nm = name_node.id
    if _bindings(fn, nm):
        return False
    child, p = name_node, getattr(name_node, "_parent", None)
    while p is not None and p is not fn:
        if isinstance(p, (ast.If, ast.IfExp, ast.While)) and child is not p.test and any(isinstance(x, ast.Name) and x.id == nm for x in ast.walk(p.test)):
            return False
        child, p = p, getattr(p, "_parent", None)
    return True


def _uninitialised_reads(ck, repo, funcs):
    """R5: storage allocated with numpy.empty holds whatever the allocator returns until a slot is written.  A method that reads the
    slot it is about to overwrite (same index expression, no write to the index in between) reads such memory on the first pass through
    the ring, unless the read is guarded by the fill state."""
    from ..nf import NF, Scope
    nf = NF(repo, inline_depth=1, inline_calls=False)
    n_alloc = n_meth = 0
    by_cls = {}
    for q, (fn, mi) in funcs.items():
        p_ = getattr(fn, "_parent", None)
        if isinstance(p_, ast.ClassDef) and "<locals>" not in q:
            by_cls.setdefault(q.rsplit(".", 1)[0], []).append((q, fn, mi))
    for cq, meths in sorted(by_cls.items()):
        # two-level storages self.X[k] = np.empty(<capacity> ...)
        stor = set()
        for q, fn, mi in meths:
            for n in ast.walk(fn):
                if isinstance(n, ast.Assign) and isinstance(n.targets[0], ast.Subscript) and isinstance(n.value, ast.Call) and repo.resolve_expr(mi, n.value.func) == "numpy.empty":
                    a0 = n.value.args[0] if n.value.args else None
                    if isinstance(a0, ast.Constant) and a0.value == 0:
                        continue
                    b = dotted(n.targets[0].value)
                    if b and b.startswith("self."):
                        stor.add(b)
                    elif b and "." not in b:
                        # the storage is filled in a local container that then becomes the attribute (`st = {}; st[k] = np.empty(..); self.buffer = st`)
                        for m in ast.walk(fn):
                            if isinstance(m, ast.Assign) and isinstance(m.value, ast.Name) and m.value.id == b:
                                stor |= {dotted(t) for t in m.targets if dotted(t).startswith("self.")}
        if not stor:
            continue
        n_alloc += len(stor)
        for q, fn, mi in meths:
            cfg = nf.cfg_of(fn)
            reads, stores, idx_writes = [], [], {}
            for nd in cfg.nodes:
                s_ = nd.ast
                if s_ is None or nd.kind not in ("stmt", "test", "for"):
                    continue
                tgt = None
                if nd.kind == "stmt" and isinstance(s_, (ast.Assign, ast.AugAssign)):
                    tgt = s_.targets[0] if isinstance(s_, ast.Assign) else s_.target
                    if isinstance(tgt, ast.Subscript) and isinstance(tgt.value, ast.Subscript) and dotted(tgt.value.value) in stor and isinstance(s_, ast.Assign):
                        stores.append((nd, tgt))
                    if dotted(tgt) and dotted(tgt).startswith("self."):
                        idx_writes.setdefault(dotted(tgt), []).append(nd.id)
                roots = [s_.value] if nd.kind == "stmt" and isinstance(s_, (ast.Assign, ast.AugAssign)) else [s_.test] if nd.kind == "test" and hasattr(s_, "test") else [s_.iter] if nd.kind == "for" else [s_] if nd.kind == "stmt" and isinstance(s_, (ast.Expr, ast.Return)) else []
                if nd.kind == "stmt" and isinstance(s_, ast.AugAssign) and isinstance(tgt, ast.Subscript):
                    roots.append(tgt)
                for r_ in roots:
                    for x in ast.walk(r_):
                        if isinstance(x, ast.Subscript) and isinstance(x.value, ast.Subscript) and dotted(x.value.value) in stor and not isinstance(x.ctx, ast.Store) or (x is tgt and isinstance(s_, ast.AugAssign) and isinstance(x, ast.Subscript) and isinstance(x.value, ast.Subscript) and dotted(x.value.value) in stor):
                            if isinstance(getattr(x, "_parent", None), ast.Attribute) and x._parent.value is x and x._parent.attr in ("shape", "dtype", "ndim", "size", "itemsize", "nbytes"):
                                continue    # the geometry of the slot, not its content
                            reads.append((nd, x))
            if not stores:
                continue
            n_meth += 1
            sc = Scope(cfg, mi, {}, q)
            for nd, x in reads:
                ri = nf.poly(x.slice, sc, nd.id).canon()
                for sn, t in stores:
                    if sn.id == nd.id:
                        continue
                    si = nf.poly(t.slice, sc, sn.id).canon()
                    if ri != si or dotted(x.value.value) != dotted(t.value.value):
                        continue
                    if "self." not in ri:
                        continue   # a slot chosen by the caller: decided where the helper is expanded into a method that owns the position
                    avoid = set()
                    for a_, ids in idx_writes.items():
                        if a_ in ri:
                            avoid |= set(ids)
                    if nd.id in avoid or cfg.paths_avoiding(nd.id, sn.id, avoid) is None:
                        continue
                    # a store to the same field of the same slot that every path to the read passes, with the position unchanged in between:
                    # the read sees this method's own write (read-back inside the writing loop)
                    rk = nf.poly(x.value.slice, sc, nd.id).canon()
                    covered = False
                    for cn, ct in stores:
                        if cn.id == nd.id or dotted(ct.value.value) != dotted(x.value.value) or nf.poly(ct.slice, sc, cn.id).canon() != ri or nf.poly(ct.value.slice, sc, cn.id).canon() != rk:
                            continue
                        if cfg.dominates(cn.id, nd.id) and not any(w != cn.id and cfg.paths_avoiding(cn.id, w, {cn.id}) is not None and (w == nd.id or cfg.paths_avoiding(w, nd.id, {cn.id}) is not None) for w in avoid):
                            covered = True
                    if covered:
                        continue
                    # is the read guarded by the fill state?
                    guarded = False
                    for bid, lab in cfg.control_deps(nd.id):
                        b_ = cfg.nodes[bid]
                        t_ = getattr(b_.ast, "test", None)
                        if t_ is not None and "self." in nf.poly(t_, sc, bid).canon():
                            guarded = True
                    if guarded:
                        ck.incomplete.append(f"{q}: `{short(x, 50)}` reads the slot that is overwritten next under a condition on the object's state - whether that excludes never-written slots is not decided")
                        continue
                    ck.ob("R5-uninitialised-storage", q, f"reads-slot-before-first-write:{short(x, 40)}", False, f"`{short(nd.ast, 80)}` then `{short(sn.ast, 60)}`",
                          f"`{dotted(x.value.value)}[...]` is allocated with numpy.empty and slot `{ri}` is read before this method writes it: until the ring has wrapped the slot was never written, so the value is whatever the allocator returned - results differ from run to run", loc(mi, x))
                    break
    ck.floor("numpy-empty-storages", n_alloc, 2)
    ck.ob("R5-uninitialised-storage", "rl_blox", "storage-methods-scanned", True, f"{n_meth} methods that write numpy.empty storages of {n_alloc} storages scanned: none reads a slot ahead of its first write", "", "rl_blox/blox/replay_buffer.py")


def _default_is_none(fn, name):
    a = fn.args
    pos = a.posonlyargs + a.args
    for p_, d_ in zip(pos[len(pos) - len(a.defaults):], a.defaults):
        if p_.arg == name:
            return isinstance(d_, ast.Constant) and d_.value is None
    for p_, d_ in zip(a.kwonlyargs, a.kw_defaults):
        if p_.arg == name:
            return isinstance(d_, ast.Constant) and d_.value is None
    return False


def _construction_sites(repo, q):
    """Calls inside rl_blox of the function ``q`` (of the class, when q is its __init__)."""
    target = q[: -len(".__init__")] if q.endswith(".__init__") else q
    out = []
    for q2, fn2, mi2 in repo.all_functions():
        if "<locals>" in q2:
            continue
        for n in ast.walk(fn2):
            if isinstance(n, ast.Call) and isinstance(n.func, (ast.Name, ast.Attribute)):
                try:
                    r = repo.resolve_expr(mi2, n.func)
                except Exception:
                    r = None
                if r == target:
                    out.append((mi2, n, q2))
    return out


ORDER_BLIND = {"all", "any", "set", "frozenset", "sorted", "min", "max", "len"}


def _order_free(n):
    """The traversal at ``n`` (for loop / comprehension clause / list()-like call / star-unpacking) is consumed by something whose result
    is the same for every order of the elements."""
    def blind_call(c, arg):
        return isinstance(c, ast.Call) and isinstance(c.func, ast.Name) and c.func.id in ORDER_BLIND and len(c.args) == 1 and c.args[0] is arg and not c.keywords
    if isinstance(n, ast.comprehension):
        comp = getattr(n, "_parent", None)
        if isinstance(comp, ast.SetComp):
            return True
        return isinstance(comp, (ast.GeneratorExp, ast.ListComp)) and blind_call(getattr(comp, "_parent", None), comp)
    if isinstance(n, ast.For):
        def checks_only(stmts):
            return all(isinstance(s, (ast.Assert, ast.Pass, ast.Raise)) or (isinstance(s, ast.If) and checks_only(s.body + s.orelse)) for s in stmts)
        return not n.orelse and checks_only(n.body)
    if isinstance(n, ast.Call):
        return blind_call(getattr(n, "_parent", None), n)
    if isinstance(n, ast.Starred):
        return isinstance(getattr(n, "_parent", None), ast.Set)
    return False


def _one_iteration(ck, repo, fn, mi, q, n, it, undecided_sets):
    kind = _set_kind(repo, fn, mi, it)
    if kind is None:
        return
    if kind != "int" and isinstance(n, ast.Call) and n.func.id == "map" and len(n.args) == 2 and _order_free(n):
        return     # one iterable mapped into an order-blind consumer (zip pairs by position: the order matters whatever consumes it)
    if kind == "unknown":
        undecided_sets.append(f"{q}: cannot tell what the set `{short(it, 40)}` holds")
        return
    ok = kind == "int"
    ck.ob("R3-unordered-iteration", q, f"iterates:{short(it, 40)}", ok, f"`{short(n, 70)}` over a set of {kind}",
          "" if ok else ("iteration order of a set of strings depends on hash randomisation: results differ between processes" if kind == "str" else
                         "iteration order of a set of objects hashed by identity depends on memory addresses: the same random index selects different members from run to run"), loc(mi, it))


def _set_kind(repo, fn, mi, it, _seen=None):
    """'int' / 'str' / 'unknown' if ``it`` is (an alias of) a set, else None."""
    _seen = {} if _seen is None else _seen
    key = (id(fn), ast.unparse(it))
    if key in _seen:
        return _seen[key]          # None while in progress (cycle), else the memoised answer
    _seen[key] = None
    r_ = _set_kind_(repo, fn, mi, it, _seen)
    _seen[key] = r_
    return r_


def _set_kind_(repo, fn, mi, it, _seen):
    e = it
    if isinstance(e, ast.Set):
        return _elem_kind(e.elts)
    if isinstance(e, ast.SetComp):
        return _elem_kind([e.elt])
    if isinstance(e, ast.Call) and isinstance(e.func, ast.Name) and e.func.id in ("set", "frozenset"):
        return _ctor_kind(e)
    name = dotted(e)
    if not name:
        return None
    # find the defining assignments of the variable (those that reach this use) / of the attribute (in the class and the classes it inherits from)
    scopes = _class_scopes(repo, fn) if name.startswith("self.") else [fn]
    assigns = [n for scope in scopes for n in ast.walk(scope) if isinstance(n, ast.Assign) and any(dotted(t) == name for t in n.targets)]
    if isinstance(e, ast.Name):
        assigns = _reaching_assigns(fn, e, assigns)
    kinds = []
    for n in assigns:
        v = n.value
        if isinstance(v, ast.Set):
            kinds.append(_elem_kind(v.elts))
        elif isinstance(v, ast.SetComp):
            kinds.append(_elem_kind([v.elt]))
        elif isinstance(v, ast.Call) and isinstance(v.func, ast.Name) and v.func.id in ("set", "frozenset"):
            kinds.append(_ctor_kind(v))
        elif isinstance(v, ast.BinOp) and isinstance(v.op, (ast.Sub, ast.BitOr, ast.BitAnd)) and any(isinstance(x, ast.Call) and isinstance(x.func, ast.Name) and x.func.id == "set" for x in ast.walk(v)):
            kinds.append("int" if all(_ctor_kind(x) == "int" for x in ast.walk(v) if isinstance(x, ast.Call) and isinstance(x.func, ast.Name) and x.func.id == "set") else "unknown")
        elif isinstance(v, ast.Call) and dotted(v.func) == "copy.deepcopy" and v.args:
            k = _set_kind(repo, fn, mi, v.args[0], _seen)
            if k:
                kinds.append(k)
        elif isinstance(v, ast.Name):
            k = _set_kind(repo, fn, mi, v, _seen) if v.id != name else None
            if k:
                kinds.append(k)
    if not kinds and isinstance(e, ast.Name) and e.id not in param_names(fn):
        # a module-level constant
        for n in mi.tree.body:
            v = n.value if isinstance(n, (ast.Assign, ast.AnnAssign)) else None
            tg = n.targets if isinstance(n, ast.Assign) else [n.target] if isinstance(n, ast.AnnAssign) else []
            if v is not None and any(dotted(t) == name for t in tg):
                if isinstance(v, ast.Set):
                    kinds.append(_elem_kind(v.elts))
                elif isinstance(v, ast.SetComp):
                    kinds.append(_elem_kind([v.elt]))
                elif isinstance(v, ast.Call) and isinstance(v.func, ast.Name) and v.func.id in ("set", "frozenset"):
                    kinds.append(_ctor_kind(v))
        if kinds:
            return "int" if all(k == "int" for k in kinds) else "str" if "str" in kinds else "unknown"
    if not kinds:
        # function parameter that receives a set at the call sites of this module (smt_stage2(unsolvable_pool))
        if isinstance(e, ast.Name) and e.id in param_names(fn):
            site_kinds = []
            for n in ast.walk(mi.tree):
                if isinstance(n, ast.Call) and isinstance(n.func, ast.Name) and n.func.id == fn.name:
                    from ..repo import bind_call
                    b = bind_call(fn, n)
                    a = b.get(e.id)
                    caller = n
                    while caller is not None and not isinstance(caller, ast.FunctionDef):
                        caller = getattr(caller, "_parent", None)
                    if a is not None and caller is not None and not isinstance(a, list):
                        if isinstance(a, ast.Name):
                            # result of a callee that returns a set?
                            for m in ast.walk(caller):
                                if isinstance(m, ast.Assign) and isinstance(m.targets[0], ast.Tuple) and any(dotted(t) == a.id for t in m.targets[0].elts) and isinstance(m.value, ast.Call) and isinstance(m.value.func, ast.Name):
                                    r = repo.resolve_name(mi, m.value.func.id)
                                    if r and repo.has(r):
                                        cf = repo.func(r)
                                        idx = [dotted(t) for t in m.targets[0].elts].index(a.id)
                                        for ret in ast.walk(cf):
                                            if isinstance(ret, ast.Return) and isinstance(ret.value, ast.Tuple) and idx < len(ret.value.elts):
                                                site_kinds.append(_set_kind(repo, cf, mi, ret.value.elts[idx], _seen))
                        site_kinds.append(_set_kind(repo, caller, mi, a, _seen))
            site_kinds = [k for k in site_kinds if k is not None]
            if site_kinds:
                return "str" if "str" in site_kinds else "object" if "object" in site_kinds else "int" if all(k == "int" for k in site_kinds) else "unknown"
        return None
    if all(k == "int" for k in kinds):
        # additions must be ints as well
        for n in (x for scope in scopes for x in ast.walk(scope)):
            if isinstance(n, ast.Call) and isinstance(n.func, ast.Attribute) and n.func.attr in ("add", "update") and dotted(n.func.value) == name and n.args:
                owner = n
                while owner is not None and not isinstance(owner, ast.FunctionDef):
                    owner = getattr(owner, "_parent", None)
                k = _value_kind(owner or fn, _owner_class(owner or fn), n.args[0], n.func.attr == "update", set_kind=lambda it_, f_=owner or fn: _set_kind(repo, f_, mi, it_, _seen))
                if k != "int":
                    return k
        return "int"
    return "str" if "str" in kinds else "unknown"


def _owner_class(fn):
    p = getattr(fn, "_parent", None)
    while p is not None and not isinstance(p, (ast.ClassDef, ast.Module)):
        p = getattr(p, "_parent", None)
    return p if isinstance(p, ast.ClassDef) else fn


def _class_scopes(repo, fn):
    """The class of the method ``fn`` and the repository classes it inherits from (an attribute may be initialised in a base class / mixin)."""
    p = _owner_class(fn)
    if not isinstance(p, ast.ClassDef):
        return [fn]
    out = [p]
    try:
        mi = fn._module
        for cq in repo.mro(repo.canonical(f"{mi.name}.{p.name}", p))[1:]:
            c = repo.cls(cq)
            if all(c is not x for x in out):
                out.append(c)
    except Exception:
        pass
    return out


def _methods_along_mro(fn, cls_scope):
    """(class, method) for the methods of the class and of the repository classes it inherits from."""
    classes = [cls_scope]
    if _REPO is not None and getattr(fn, "_module", None) is not None and _owner_class(fn) is cls_scope:
        classes = _class_scopes(_REPO, fn)
    return [(c, m) for c in classes for m in c.body if isinstance(m, ast.FunctionDef)]


def _reaching_assigns(fn, use, assigns):
    """Of the assignments to the local name read at ``use``, those whose definition reaches the use (a name that is re-bound, e.g. to a
    sorted list, is no longer the set); all of them when the use cannot be located in the routine's control-flow graph."""
    try:
        cfg = _cfg(fn)
        at = cfg.node_of(use)
        ds = cfg.defs_of(at.id, use.id)
    except Exception:
        return assigns
    if not ds:
        return assigns
    reach = {id(cfg.nodes[d.node].ast) for d in ds}
    return [a for a in assigns if id(a) in reach]


def _instances_hashed_by_identity(fn, call):
    """True when ``call`` constructs an instance of a repository class that inherits object's hash (no __hash__ / __eq__, not a
    NamedTuple / dataclass / Enum); False when the class defines value hashing; None when the callee is not a known class."""
    repo, mi = _REPO, getattr(fn, "_module", None)
    if repo is None or mi is None or not isinstance(call.func, (ast.Name, ast.Attribute)):
        return None
    try:
        r = repo.resolve_expr(mi, call.func)
        if not r or not r.startswith("rl_blox."):
            return None
        for cq in repo.mro(r):
            c = repo.cls(cq)
            if c.decorator_list or any(isinstance(m, ast.FunctionDef) and m.name in ("__hash__", "__eq__") for m in c.body):
                return False
            if any(not (repo.resolve_expr(c._module, b) or "").startswith("rl_blox.") and dotted(b) not in ("object", "abc.ABC", "ABC") for b in c.bases) or c.keywords:
                return None      # an external base (NamedTuple, Enum, nnx.Module, ...): its hashing is not read
        return True
    except Exception:
        return None


_REPO = None


def _value_kind(fn, cls_scope, e, is_iterable=False, depth=0, set_kind=None):
    """'int' / 'str' / 'object' / 'unknown' for the value(s) put into a set."""
    if depth > 6:
        return "unknown"
    if isinstance(e, ast.Constant):
        return "int" if isinstance(e.value, int) else "str" if isinstance(e.value, str) else "unknown"
    if isinstance(e, (ast.List, ast.Tuple, ast.Set)) and is_iterable:
        ks = {_value_kind(fn, cls_scope, x, False, depth + 1, set_kind) for x in e.elts}
        return ks.pop() if len(ks) == 1 else ("int" if not ks else "unknown")
    if isinstance(e, ast.Call):
        d = dotted(e.func)
        if d in ("int", "len", "range", "ord") or d.endswith(".integers") or d.endswith(".choice") or d.endswith("arange") or d.endswith("argmax") or d.endswith("argmin"):
            return "int"
        if d in ("str", "repr") or d.endswith(".format") or d.endswith(".join"):
            return "str"
        if d in ("copy.deepcopy", "deepcopy", "copy.copy", "copy") and len(e.args) == 1:
            return _value_kind(fn, cls_scope, e.args[0], is_iterable, depth + 1, set_kind)    # a copy hashes like the original
        if d == "object" or _instances_hashed_by_identity(fn, e):
            return "object"
        return "unknown"
    if isinstance(e, ast.BinOp) and isinstance(e.op, (ast.Add, ast.Sub, ast.Mult, ast.Mod, ast.FloorDiv)):
        ks = {_value_kind(fn, cls_scope, e.left, False, depth + 1), _value_kind(fn, cls_scope, e.right, False, depth + 1)}
        return "int" if ks == {"int"} else "unknown"
    name = dotted(e)
    # a value on which a non-builtin method is called is an object instance (hashed by identity unless its class says otherwise)
    _BUILTIN_METHODS = set(dir(int)) | set(dir(str)) | set(dir(float)) | {"item", "tolist", "astype"}
    if name:
        # (a local name means the same thing only inside its own routine; an attribute of self in the whole class)
        for scope_ in ([fn] + ([cls_scope] if isinstance(cls_scope, ast.ClassDef) and name.startswith("self.") else [])):
            for n in ast.walk(scope_):
                if isinstance(n, ast.Call) and isinstance(n.func, ast.Attribute) and n.func.attr not in _BUILTIN_METHODS and ast.dump(n.func.value) == ast.dump(e):
                    return "object"
    if isinstance(e, ast.Name):
        # parameter annotated int / local with one kind of definition
        for a in fn.args.posonlyargs + fn.args.args + fn.args.kwonlyargs:
            if a.arg == e.id:
                return _annotation_kind(a.annotation)
        ks = set()
        for n in ast.walk(fn):
            if isinstance(n, ast.Assign) and any(isinstance(t, ast.Name) and t.id == e.id for t in n.targets):
                ks.add(_value_kind(fn, cls_scope, n.value, False, depth + 1, set_kind))
            elif isinstance(n, (ast.For, ast.comprehension)) and isinstance(n.target, ast.Name) and n.target.id == e.id:
                it = n.iter
                if isinstance(it, ast.Call) and dotted(it.func) in ("range", "enumerate"):
                    ks.add("int")
                else:
                    sk = set_kind(it) if set_kind is not None else None    # iterating over a set of ints yields ints
                    ks.add(sk if sk in ("int", "str") else "unknown")
        return ks.pop() if len(ks) == 1 else "unknown"
    if isinstance(e, ast.Attribute) and name and name.startswith("self.") and isinstance(cls_scope, ast.ClassDef):
        ks = set()
        for cls_, m in _methods_along_mro(fn, cls_scope):
            for n in ast.walk(m):
                if isinstance(n, ast.Assign) and any(dotted(t) == name for t in n.targets):
                    ks.add(_value_kind(m, cls_, n.value, False, depth + 1))
        return ks.pop() if len(ks) == 1 else "unknown"
    if isinstance(e, ast.Subscript):
        base = dotted(e.value)
        for scope_ in ([fn] + ([cls_scope] if isinstance(cls_scope, ast.ClassDef) and base.startswith("self.") else [])):
            for n in ast.walk(scope_):
                if isinstance(n, ast.Call) and isinstance(n.func, ast.Attribute) and n.func.attr not in _BUILTIN_METHODS and isinstance(n.func.value, ast.Subscript) and dotted(n.func.value.value) == base and base:
                    return "object"
        if base and base.startswith("self.") and isinstance(cls_scope, ast.ClassDef):
            # element of a container attribute: what are its elements?
            for cls_, m in _methods_along_mro(fn, cls_scope):
                for n in ast.walk(m):
                    if isinstance(n, ast.Assign) and any(dotted(t) == base for t in n.targets):
                        v = n.value
                        elts = v.elts if isinstance(v, (ast.List, ast.Tuple)) else [v.elt] if isinstance(v, (ast.ListComp, ast.GeneratorExp)) else None
                        if elts is not None and elts:
                            ks = {_value_kind(m, cls_, x, False, depth + 1) for x in elts}
                            return ks.pop() if len(ks) == 1 else "unknown"
        if isinstance(e.value, ast.Name) and set_kind is not None:
            # element of a local sequence made from a set (`members = list(pool)`): what the set holds
            ks = set()
            for k_, v in _bindings(fn, e.value.id):
                if k_ == "assign" and isinstance(v, ast.Call) and isinstance(v.func, ast.Name) and v.func.id in ("list", "tuple", "sorted") and len(v.args) == 1:
                    ks.add(set_kind(v.args[0]) or "unknown")
                else:
                    ks.add("unknown")
            if len(ks) == 1 and ks <= {"int", "str"}:
                return ks.pop()
        return "unknown"
    return "unknown"


def _annotation_kind(ann):
    """'int' / 'str' / 'unknown' from a parameter annotation: every alternative (Optional / Union / `|`, None aside) names an integer resp. string type."""
    if ann is None:
        return "unknown"
    if isinstance(ann, ast.Constant) and isinstance(ann.value, str):
        try:
            ann = ast.parse(ann.value, mode="eval").body
        except SyntaxError:
            return "unknown"
    alts, todo = [], [ann]
    while todo:
        a = todo.pop()
        if isinstance(a, ast.BinOp) and isinstance(a.op, ast.BitOr):
            todo += [a.left, a.right]
        elif isinstance(a, ast.Subscript) and dotted(a.value).rsplit(".", 1)[-1] in ("Optional", "Union"):
            todo += list(a.slice.elts) if isinstance(a.slice, ast.Tuple) else [a.slice]
        elif not (isinstance(a, ast.Constant) and a.value is None):
            alts.append(dotted(a).rsplit(".", 1)[-1] if dotted(a) else "?")
    if alts and all(x in ("int", "integer", "int8", "int16", "int32", "int64", "uint8", "uint16", "uint32", "uint64", "intp") for x in alts):
        return "int"
    return "str" if alts and all(x == "str" for x in alts) else "unknown"


def _elem_kind(elts):
    if not elts:
        return "int"
    if all(isinstance(x, ast.Constant) and isinstance(x.value, int) for x in elts):
        return "int"
    if any(isinstance(x, ast.Constant) and isinstance(x.value, str) for x in elts):
        return "str"
    return "unknown"


def _ctor_kind(c):
    if not c.args:
        return "int"  # empty set; the additions decide
    a = c.args[0]
    if isinstance(a, ast.Call):
        d = dotted(a.func)
        if d in ("range",) or d.endswith(".choice") or d.endswith(".integers") or d.endswith("arange") or d.endswith(".permutation"):
            return "int"
    if isinstance(a, (ast.List, ast.Tuple, ast.Set)):
        return _elem_kind(a.elts)
    return "unknown"


def _selfcheck(src):
    tree = ast.parse(src)
    hits = set()
    for n in ast.walk(tree):
        if isinstance(n, ast.Call):
            d = dotted(n.func)
            if d == "np.random.rand":
                hits.add(d)
            if d == "random.random":
                hits.add(d)
            if d == "np.random.default_rng" and not n.args:
                hits.add("default_rng()")
            if d == "time.time":
                hits.add(d)
        if isinstance(n, ast.For) and isinstance(n.iter, ast.Set) and _elem_kind(n.iter.elts) == "str":
            hits.add("set-of-str")
    return hits


# ---------------------------------------------------------------------------------------------------------------------------------
# R6: state that outlives a call (module-level containers, rebound module globals, class-level containers, mutable defaults)

MUTABLE_CTORS = {"dict", "list", "set", "bytearray", "collections.defaultdict", "collections.OrderedDict", "collections.deque", "collections.Counter", "collections.ChainMap",
                 "weakref.WeakValueDictionary", "weakref.WeakKeyDictionary", "weakref.WeakSet"}
MUTATING_METHODS = {"append", "extend", "insert", "pop", "popitem", "remove", "clear", "add", "discard", "update", "sort", "reverse", "appendleft", "extendleft", "popleft", "rotate",
                    "__delitem__", "difference_update", "intersection_update", "symmetric_difference_update", "move_to_end", "subtract"}
# wrappers under which a key component still determines the wrapped value (what is compared on a cache hit is the whole value)
KEY_LOSSLESS_FUNCS = {"tuple", "list", "float", "int", "str", "repr", "bytes", "frozenset", "sorted", "hash", "complex", "bool", "map", "zip", "format"}
KEY_LOSSY_FUNCS = {"len", "type", "isinstance", "callable", "min", "max", "sum", "any", "all"}
KEY_LOSSLESS_METHODS = {"tobytes", "tolist", "tostring", "item", "ravel", "flatten", "astype", "copy", "items", "hex", "encode", "__hash__", "__repr__", "__str__", "view", "reshape", "squeeze", "numpy", "block_until_ready"}
KEY_LOSSLESS_LIB = {"asarray", "array", "ascontiguousarray", "asanyarray", "ravel", "concatenate", "stack", "hstack", "vstack", "float32", "float64", "int32", "int64", "atleast_1d", "atleast_2d", "device_get"}
# dropping or reordering entries can only turn a later hit into a miss (the value is then rebuilt from that call's own inputs)
REMOVING_METHODS = {"pop", "popitem", "remove", "clear", "discard", "move_to_end", "popleft", "__delitem__"}
GEOMETRY_ATTRS = {"shape", "dtype", "ndim", "size", "itemsize", "nbytes"}
STATEFUL_GENERATORS = {"numpy.random.default_rng", "numpy.random.Generator", "flax.nnx.Rngs"} | SEEDED_GENERATORS
PURE_VALUE_LIBS = ("jax.", "flax.nnx.jit", "flax.nnx.vmap", "flax.nnx.grad", "flax.nnx.value_and_grad", "flax.nnx.scan", "functools.", "numpy.", "math.", "operator.", "itertools.", "optax.", "chex.")


def _is_mutable_ctor(repo, mi, v):
    if isinstance(v, (ast.Dict, ast.List, ast.Set, ast.ListComp, ast.DictComp, ast.SetComp)):
        return True
    if isinstance(v, ast.Call) and isinstance(v.func, (ast.Name, ast.Attribute)):
        return (repo.resolve_expr(mi, v.func) or dotted(v.func)) in MUTABLE_CTORS
    return False


def _assigned_value(node):
    return node.value if isinstance(node, (ast.Assign, ast.AnnAssign)) else None


def _fn_chain(node):
    """The function definitions / lambdas that enclose ``node``, innermost first."""
    out, p = [], getattr(node, "_parent", None)
    while p is not None:
        if isinstance(p, (ast.FunctionDef, ast.AsyncFunctionDef, ast.Lambda)):
            out.append(p)
        p = getattr(p, "_parent", None)
    return out


def _scope_params(scope):
    a = scope.args
    return {x.arg for x in a.posonlyargs + a.args + a.kwonlyargs} | ({a.vararg.arg} if a.vararg else set()) | ({a.kwarg.arg} if a.kwarg else set())


def _own_nodes(scope):
    """Nodes of a function body that belong to its own scope (nested definitions are yielded, not entered)."""
    stack = list(scope.body) if not isinstance(scope, ast.Lambda) else [scope.body]
    while stack:
        n = stack.pop()
        yield n
        if isinstance(n, (ast.FunctionDef, ast.AsyncFunctionDef, ast.Lambda, ast.ClassDef)):
            continue
        stack.extend(ast.iter_child_nodes(n))


def _scope_table(scope):
    """(names declared global, {local name: bindings}) of one function scope, computed once.  A binding is (kind, node) with kind 'expr'
    (the value the name holds / is drawn from), 'expr~' (one component of that value: an over-approximation), 'def' (a nested function),
    'const' (import, exception, class), 'unknown'."""
    tab = scope.__dict__.get("_c09_tab")
    if tab is not None:
        return tab
    glob, bind = set(), {}
    if isinstance(scope, ast.Lambda):
        tab = scope.__dict__["_c09_tab"] = (glob, bind)
        return tab
    for n in _own_nodes(scope):
        if isinstance(n, ast.Global):
            glob |= set(n.names)
        elif isinstance(n, (ast.FunctionDef, ast.AsyncFunctionDef, ast.ClassDef)):
            bind.setdefault(n.name, []).append(("def" if not isinstance(n, ast.ClassDef) else "const", n))
        elif isinstance(n, (ast.Import, ast.ImportFrom)):
            for a in n.names:
                bind.setdefault(a.asname or a.name.split(".")[0], []).append(("const", n))
        elif isinstance(n, ast.ExceptHandler) and n.name:
            bind.setdefault(n.name, []).append(("const", n))
        elif isinstance(n, ast.Name) and isinstance(n.ctx, ast.Store):
            out = bind.setdefault(n.id, [])
            p = getattr(n, "_parent", None)
            top = p
            while isinstance(top, (ast.Tuple, ast.List, ast.Starred)):
                top = getattr(top, "_parent", None)
            if isinstance(top, ast.comprehension):
                if not out:
                    del bind[n.id]
                continue     # scoped to the comprehension: resolved where it is read
            direct = top is p
            if isinstance(top, ast.Assign):
                v = top.value
                if direct:
                    out.append(("expr", v))
                elif isinstance(p, (ast.Tuple, ast.List)) and any(p is t for t in top.targets) and isinstance(v, (ast.Tuple, ast.List)) and len(v.elts) == len(p.elts) \
                        and not any(isinstance(x, ast.Starred) for x in list(v.elts) + list(p.elts)):
                    out.append(("expr", v.elts[[x is n for x in p.elts].index(True)]))
                else:
                    out.append(("expr~", v))
            elif isinstance(top, ast.AnnAssign):
                out.append(("expr", top.value) if top.value is not None else ("const", top))
            elif isinstance(top, (ast.AugAssign, ast.NamedExpr)):
                out.append(("expr", top.value))
            elif isinstance(top, (ast.For, ast.AsyncFor)):
                out.append(("expr" if direct else "expr~", top.iter))
            elif isinstance(top, ast.withitem):
                out.append(("expr" if direct else "expr~", top.context_expr))
            else:
                out.append(("unknown", top))
    for g_ in glob:
        bind.pop(g_, None)
    tab = scope.__dict__["_c09_tab"] = (glob, bind)
    return tab


def _scope_bindings(scope, name):
    return _scope_table(scope)[1].get(name, [])


def _scope_globals(scope):
    return _scope_table(scope)[0]


def _comprehension_binding(x):
    """The iterable that a comprehension enclosing the name read ``x`` draws it from, if any."""
    child, p = x, getattr(x, "_parent", None)
    while p is not None and not isinstance(p, (ast.FunctionDef, ast.AsyncFunctionDef, ast.Lambda, ast.Module)):
        if isinstance(p, (ast.ListComp, ast.SetComp, ast.GeneratorExp, ast.DictComp)):
            for g in p.generators:
                if any(isinstance(t, ast.Name) and t.id == x.id for t in ast.walk(g.target)):
                    return g.iter
        child, p = p, getattr(p, "_parent", None)
    return None


class _Deps:
    """Which inputs of the routine a value is built from.  An *atom* is a maximal attribute chain rooted at a parameter of one of the
    functions that enclose ``site`` (`action_space.low`); locals are replaced by what they are bound to (scope by scope), names bound
    inside the value (lambda / nested-function parameters, comprehension variables) are not inputs, module-level names are constants of
    the process.  ``inexact`` is set when a step over-approximated (one component of an unpacked value)."""

    def __init__(self, site, not_inputs=()):
        self.outer = _fn_chain(site)
        self.not_inputs = set(not_inputs)
        self.inexact = False
        self.unknown = False
        self._busy = set()

    def resolve(self, x):
        """('param', None) / ('bound', None) / ('local', bindings) / ('module', None) for the name read ``x``."""
        it = _comprehension_binding(x)
        if it is not None:
            return "local", [("expr", it)]
        for sc in _fn_chain(x):
            if x.id in _scope_params(sc):
                if x.id in self.not_inputs:
                    return "module", None
                return ("param" if any(sc is o for o in self.outer) else "bound"), None
            if isinstance(sc, ast.Lambda):
                continue
            if x.id in _scope_globals(sc):
                return "module", None
            bs = _scope_bindings(sc, x.id)
            if bs:
                return "local", bs
        return "module", None

    @staticmethod
    def chain_above(x):
        """(attribute / constant-subscript chain that starts at the name ``x``, its top node); the name of a called method is not part."""
        tail, cur, p = [], x, getattr(x, "_parent", None)
        while True:
            if isinstance(p, ast.Attribute) and p.value is cur:
                tail.append(p.attr)
            elif isinstance(p, ast.Subscript) and p.value is cur and isinstance(p.slice, ast.Constant):
                tail.append(f"[{p.slice.value!r}]")
            else:
                break
            cur, p = p, getattr(p, "_parent", None)
        if tail and isinstance(p, ast.Call) and p.func is cur and isinstance(cur, ast.Attribute):
            tail.pop()
        return tail

    def pure_chain(self, e):
        """The input chain that the expression ``e`` is a plain reference to (`env.action_space`, a local copy of it), else None."""
        tail = []
        while True:
            if isinstance(e, ast.Attribute):
                tail.append(e.attr)
                e = e.value
            elif isinstance(e, ast.Subscript) and isinstance(e.slice, ast.Constant):
                tail.append(f"[{e.slice.value!r}]")
                e = e.value
            else:
                break
        if not isinstance(e, ast.Name):
            return None
        kind, bs = self.resolve(e)
        if kind == "param":
            return (e.id,) + tuple(reversed(tail))
        if kind == "local" and len(bs) == 1 and bs[0][0] == "expr" and (id(bs[0][1]) not in self._busy):
            self._busy.add(id(bs[0][1]))
            try:
                base = self.pure_chain(bs[0][1])
            finally:
                self._busy.discard(id(bs[0][1]))
            if base is not None:
                return base + tuple(reversed(tail))
        return None

    def atoms(self, node):
        out = set()
        for x in ast.walk(node):
            if isinstance(x, ast.Name) and isinstance(x.ctx, ast.Load):
                out |= self.of_name(x)
        return out

    def of_name(self, x):
        kind, bs = self.resolve(x)
        if kind == "param":
            return {(x.id,) + tuple(self.chain_above(x))}
        if kind != "local":
            return set()
        if len(bs) == 1 and bs[0][0] == "expr":
            base = self.pure_chain(bs[0][1])
            if base is not None:
                return {base + tuple(self.chain_above(x))}
        out = set()
        for k, v in bs:
            if k == "const":
                continue
            if k == "unknown":
                self.unknown = True
                continue
            if k == "expr~":
                self.inexact = True
            if id(v) in self._busy:
                continue
            self._busy.add(id(v))
            try:
                out |= self.atoms(v)
            finally:
                self._busy.discard(id(v))
        return out

    # -- the key of a lookup: which inputs it pins down ------------------------------------------------------------------------
    def key_atoms(self, e, repo, mi, status="whole"):
        """[(chain, status)]: status 'whole' - the key holds that input itself (possibly converted), so equal keys mean equal values of
        it and of everything reached through it; 'unknown' - the key holds something computed from it."""
        if isinstance(e, (ast.Tuple, ast.List, ast.Set)):
            return [a for x in e.elts for a in self.key_atoms(x.value if isinstance(x, ast.Starred) else x, repo, mi, status)]
        if isinstance(e, ast.Constant):
            return []
        if isinstance(e, ast.JoinedStr):
            return [a for x in e.values if isinstance(x, ast.FormattedValue) for a in self.key_atoms(x.value, repo, mi, status)]
        if isinstance(e, (ast.Name, ast.Attribute)) or (isinstance(e, ast.Subscript) and isinstance(e.slice, ast.Constant)):
            ch = self.pure_chain(e)
            if ch is not None:
                return [(ch, status)]
            if isinstance(e, ast.Name):
                kind, bs = self.resolve(e)
                if kind == "local" and all(k == "expr" for k, _ in bs):
                    out = []
                    for _, v in bs:
                        if id(v) in self._busy:
                            continue
                        self._busy.add(id(v))
                        try:
                            out += self.key_atoms(v, repo, mi, status)
                        finally:
                            self._busy.discard(id(v))
                    return out
            return [(a, "unknown") for a in self.atoms(e)]
        if isinstance(e, ast.Call) and not any(isinstance(a, ast.Starred) for a in e.args):
            f = e.func
            if isinstance(f, ast.Name) and self.resolve(f)[0] == "module" and repo.resolve_name(mi, f.id) is None:
                if f.id in KEY_LOSSLESS_FUNCS:
                    return [a for x in e.args for a in self.key_atoms(x, repo, mi, status)]
                if f.id in KEY_LOSSY_FUNCS:
                    return [(a + (f"<{f.id}>",), status) for x in e.args for a in self.atoms(x)]      # pins down a summary of the input only
            if isinstance(f, ast.Attribute) and f.attr in KEY_LOSSLESS_METHODS:
                return self.key_atoms(f.value, repo, mi, status)
            d = repo.resolve_expr(mi, f) if isinstance(f, (ast.Name, ast.Attribute)) and _root_is_module(self, f) else None
            if d and d.startswith(("numpy.", "jax.numpy.", "jax.")) and d.rsplit(".", 1)[1] in KEY_LOSSLESS_LIB:
                return [a for x in e.args for a in self.key_atoms(x, repo, mi, status)]
        return [(a, "unknown") for a in self.atoms(e)]


def _root_is_module(deps, f):
    while isinstance(f, ast.Attribute):
        f = f.value
    return isinstance(f, ast.Name) and deps.resolve(f)[0] == "module"


class _StateIndex:
    """Objects that live as long as the process and can be written from inside a function: module-level mutable containers, module globals
    that a function rebinds (`global x`), containers in a class body that no method shadows on the instance, mutable parameter defaults."""

    def __init__(self, repo, funcs, closure):
        self.repo = repo
        self.rebound = set()
        for q in closure:
            fn, mi = funcs[q]
            for n in ast.walk(fn):
                if isinstance(n, ast.Global):
                    self.rebound |= {f"{mi.name}.{x}" for x in n.names}
        self._cls = {}

    def module_var(self, qual):
        """The state id of the module-level variable ``qual`` (`pkg.mod.NAME`) when it is process state, else None."""
        mod, _, nm = qual.rpartition(".")
        m2 = self.repo.modules.get(mod)
        if m2 is None or nm not in m2.defs:
            return None
        v = _assigned_value(m2.defs[nm])
        if qual in self.rebound or (v is not None and _is_mutable_ctor(self.repo, m2, v)):
            return qual
        return None

    def class_var(self, cq, attr):
        """State id of a container defined in the body of class ``cq`` (or of a base class) that no method replaces on the instance."""
        key = (cq, attr)
        if key not in self._cls:
            r = None
            try:
                mro = self.repo.mro(cq)
                shadowed = False
                for c_ in mro:
                    c = self.repo.cls(c_)
                    for m in c.body:
                        if isinstance(m, ast.FunctionDef):
                            for n in ast.walk(m):
                                if isinstance(n, ast.Attribute) and n.attr == attr and isinstance(n.ctx, ast.Store) and isinstance(n.value, ast.Name) and n.value.id in ("self", "cls") \
                                        and isinstance(getattr(n, "_parent", None), (ast.Assign, ast.AnnAssign)):
                                    shadowed = True
                if not shadowed:
                    for c_ in mro:
                        c = self.repo.cls(c_)
                        for s in c.body:
                            tg = s.targets if isinstance(s, ast.Assign) else [s.target] if isinstance(s, ast.AnnAssign) else []
                            if any(isinstance(t, ast.Name) and t.id == attr for t in tg) and s.value is not None and _is_mutable_ctor(self.repo, self.repo.lookup(c_)[0], s.value):
                                r = f"{c_}.{attr}"
                                break
                        if r:
                            break
            except Exception:
                r = None
            self._cls[key] = r
        return self._cls[key]

    def of(self, mi, fn, e, default_state, depth=0):
        """State id that the expression ``e`` (a name / attribute read inside ``fn``) denotes, else None."""
        repo = self.repo
        if isinstance(e, ast.Name):
            for sc in _fn_chain(e):
                if e.id in _scope_globals(sc):
                    return f"{mi.name}.{e.id}"
                if e.id in _scope_params(sc):
                    return default_state.get((id(sc), e.id))
                if isinstance(sc, ast.Lambda):
                    continue
                bs = _scope_bindings(sc, e.id)
                if bs:
                    # a local copy of the container (`cache = _CACHE`)
                    if depth < 4 and all(k == "expr" and isinstance(v, (ast.Name, ast.Attribute)) for k, v in bs):
                        ss = {self.of(mi, fn, v, default_state, depth + 1) for _, v in bs}
                        if len(ss) == 1:
                            return ss.pop()
                    return None
            if _comprehension_binding(e) is not None:
                return None
            if e.id in mi.defs and isinstance(mi.defs[e.id], (ast.Assign, ast.AnnAssign)):
                return self.module_var(f"{mi.name}.{e.id}")
            tgt = mi.imports.get(e.id)
            if tgt and tgt.startswith(repo.PKG + "."):
                return self.module_var(tgt)
            return None
        if isinstance(e, ast.Attribute) and isinstance(e.value, ast.Name):
            base = e.value
            if base.id in ("self", "cls") and any(base.id in _scope_params(sc) for sc in _fn_chain(e)):
                c = _owner_class(fn)
                if isinstance(c, ast.ClassDef):
                    try:
                        return self.class_var(repo.canonical(f"{mi.name}.{c.name}", c), e.attr)
                    except Exception:
                        return None
                return None
            if any(base.id in _scope_params(sc) or (not isinstance(sc, ast.Lambda) and _scope_bindings(sc, base.id)) for sc in _fn_chain(e)):
                return None
            d = repo.resolve_name(mi, base.id)
            if d and d in repo.modules:
                return self.module_var(f"{d}.{e.attr}")
            if d and d.startswith(repo.PKG + "."):
                try:
                    _, node = repo.lookup(d)
                except Exception:
                    return None
                if isinstance(node, ast.ClassDef):
                    return self.class_var(d, e.attr)
                if isinstance(node, (ast.FunctionDef, ast.AsyncFunctionDef)) and not e.attr.startswith("__"):
                    return f"{d}.{e.attr}"        # an attribute hung on a function object (`f._cache`) lives as long as the module
        return None


def _default_states(repo, q, fn, mi):
    """{(id(scope), parameter): state id} for the parameters of ``fn`` whose default is a mutable container built once at definition time
    and that some call inside the package leaves to that default (or that nothing in the package passes)."""
    out = {}
    a = fn.args
    pos = a.posonlyargs + a.args
    pairs = list(zip(pos[len(pos) - len(a.defaults):], a.defaults)) + [(p_, d_) for p_, d_ in zip(a.kwonlyargs, a.kw_defaults) if d_ is not None]
    for p_, d_ in pairs:
        if not _is_mutable_ctor(repo, mi, d_):
            continue
        sites = _construction_sites(repo, q)
        passed = []
        for _, site, _ in sites:
            if any(isinstance(x, ast.Starred) for x in site.args) or any(k.arg is None for k in site.keywords):
                passed.append(True)
                continue
            try:
                passed.append(p_.arg in bind_call(fn, site, skip_self=isinstance(getattr(fn, "_parent", None), ast.ClassDef)))
            except Exception:
                passed.append(True)
        if not sites or not all(passed):
            out[(id(fn), p_.arg)] = f"{q}.<default of {p_.arg}>"
    return out


def _state_accesses(index, repo, q, fn, mi):
    """Every access of a process-state object inside ``fn`` (nested functions included), classified by what it does."""
    out = []
    defaults = _default_states(repo, q, fn, mi)
    for r in ast.walk(fn):
        if not isinstance(r, (ast.Name, ast.Attribute)):
            continue
        st = index.of(mi, fn, r, defaults)
        if st is None:
            continue
        p = getattr(r, "_parent", None)
        pp = getattr(p, "_parent", None)
        acc = {"state": st, "q": q, "fn": fn, "mi": mi, "root": r, "node": r, "key": None, "value": None, "kind": "use"}
        if isinstance(r.ctx, (ast.Store, ast.Del)):
            if isinstance(r, ast.Name):
                scs = [sc for sc in _fn_chain(r) if not isinstance(sc, ast.Lambda)]
                if not scs or r.id not in _scope_globals(scs[0]):
                    continue      # binding a local name (a copy of the reference) changes nothing that outlives the call
            direct = isinstance(p, (ast.Assign, ast.AnnAssign)) and (any(t is r for t in p.targets) if isinstance(p, ast.Assign) else p.target is r)
            if isinstance(r.ctx, ast.Store) and direct and p.value is not None:
                acc.update(kind="gstore", value=p.value, node=p)
            elif isinstance(p, ast.AnnAssign) and p.value is None:
                continue
            else:
                acc.update(kind="mutate", node=p if p is not None else r)
        elif isinstance(p, ast.Subscript) and p.value is r:
            if isinstance(p.ctx, ast.Store):
                direct = isinstance(pp, (ast.Assign, ast.AnnAssign)) and (any(t is p for t in pp.targets) if isinstance(pp, ast.Assign) else pp.target is p)
                if direct and pp.value is not None:
                    acc.update(kind="store", key=p.slice, value=pp.value, node=pp)
                else:
                    acc.update(kind="mutate", node=pp if pp is not None else p)
            elif isinstance(p.ctx, ast.Del):
                acc.update(kind="remove", node=pp if pp is not None else p)
            else:
                # an entry that is changed in place (`M[k].append(v)`, `M[k][j] = v`, `M[k].x = v`) is a write to what outlives the call
                cur_, up_ = p, pp
                while isinstance(up_, (ast.Subscript, ast.Attribute)) and up_.value is cur_ and isinstance(up_.ctx, ast.Load):
                    cur_, up_ = up_, getattr(up_, "_parent", None)
                if isinstance(up_, (ast.Subscript, ast.Attribute)) and up_.value is cur_ and isinstance(up_.ctx, (ast.Store, ast.Del)):
                    acc.update(kind="mutate", node=getattr(up_, "_parent", None) or up_)
                elif isinstance(up_, ast.Call) and up_.func is cur_ and isinstance(cur_, ast.Attribute) and cur_.attr in MUTATING_METHODS | {"setdefault"} and cur_ is not p:
                    acc.update(kind="mutate", node=up_)
                else:
                    acc.update(kind="read", key=p.slice, node=p)
        elif isinstance(p, ast.Attribute) and p.value is r and isinstance(pp, ast.Call) and pp.func is p:
            m, args = p.attr, pp.args
            plain = not any(isinstance(x, ast.Starred) for x in args) and not pp.keywords
            if m == "setdefault" and plain and len(args) in (1, 2):
                acc.update(kind="store", key=args[0], value=args[1] if len(args) == 2 else ast.Constant(value=None), node=pp, conditional=True)
                out.append(dict(acc, kind="read", value=None, conditional=True))
            elif m in ("get", "__getitem__") and plain and len(args) in (1, 2):
                acc.update(kind="read", key=args[0], node=pp)
            elif m == "__contains__" and plain and len(args) == 1:
                acc.update(kind="in", key=args[0], node=pp)
            elif m == "__setitem__" and plain and len(args) == 2:
                acc.update(kind="store", key=args[0], value=args[1], node=pp)
            elif m in REMOVING_METHODS and isinstance(getattr(pp, "_parent", None), ast.Expr):
                acc.update(kind="remove", node=pp)     # result discarded: entries are dropped / reordered, none is made
            elif m in MUTATING_METHODS or m == "setdefault":
                acc.update(kind="mutate", node=pp)
            else:
                acc.update(kind="use", node=pp)
        elif isinstance(p, ast.Compare) and len(p.ops) == 1 and isinstance(p.ops[0], (ast.In, ast.NotIn)) and p.comparators[0] is r:
            acc.update(kind="in", key=p.left, node=p)
        elif isinstance(p, (ast.Assign, ast.AnnAssign)) and p.value is r and all(isinstance(t, ast.Name) for t in (p.targets if isinstance(p, ast.Assign) else [p.target])):
            tn = (p.targets if isinstance(p, ast.Assign) else [p.target])[0]
            if any(isinstance(x, ast.Name) and x.id == tn.id and x is not tn and index.of(mi, fn, x, defaults) == st for x in ast.walk(fn)):
                continue     # a local copy of the reference: its accesses are found under the copy's name
        out.append(acc)
    return out


def _harmless_observation(repo, acc, sinks, index, defaults_of):
    """The value observed by ``acc`` only reaches log output, or decides a branch that holds nothing but log output and writes to the
    same state object (warn-once bookkeeping).  Returns (harmless, uses)."""
    mi, fn, st = acc["mi"], acc["fn"], acc["state"]
    inner = [sc for sc in _fn_chain(acc["node"]) if not isinstance(sc, ast.Lambda)]
    owner = inner[0] if inner else fn          # locals are followed in the function that holds the access
    try:
        uses = _value_uses(repo, mi, owner, acc["node"], sinks)
    except Exception:
        return False, [("other", acc["node"])]
    if not uses:
        return False, [("other", acc["node"])]
    local = _local_names(fn)

    def bookkeeping(stmts):
        for s in stmts:
            if isinstance(s, ast.Pass) or (isinstance(s, ast.Expr) and isinstance(s.value, ast.Call) and _is_log_call(repo, mi, s.value, sinks, local)):
                continue
            if isinstance(s, ast.If) and bookkeeping(s.body + s.orelse):
                continue
            tgt = None
            if isinstance(s, ast.Expr) and isinstance(s.value, ast.Call) and isinstance(s.value.func, ast.Attribute):
                tgt = s.value.func.value
            elif isinstance(s, (ast.Assign, ast.AugAssign, ast.AnnAssign)):
                t = s.targets[0] if isinstance(s, ast.Assign) and len(s.targets) == 1 else s.target if isinstance(s, (ast.AugAssign, ast.AnnAssign)) else None
                tgt = t.value if isinstance(t, ast.Subscript) else t
            if isinstance(tgt, (ast.Name, ast.Attribute)) and index.of(mi, fn, tgt, defaults_of(acc)) == st:
                continue
            return False
        return True

    for k, c in uses:
        if k in ("log", "drop"):
            continue
        if k == "test" and isinstance(c, ast.If) and bookkeeping(c.body + c.orelse):
            continue
        if k == "other" and isinstance(c, (ast.Assign, ast.AugAssign, ast.AnnAssign)) and bookkeeping([c]):
            continue      # flows back into the same object (a running total): judged where that object is observed
        return False, uses
    return True, uses


def _feeds_on_itself(cfg, store, observers):
    """The value written by ``store`` is computed from what the same object held before (`M[k] = M.get(k, 0) + x`, also through locals
    whose definitions reach the store): the write extends the history instead of replacing it."""
    obs = {id(a["node"]) for a in observers} | {id(a["root"]) for a in observers}
    try:
        at0 = cfg.node_of(store["node"]).id
    except Exception:
        return True
    seen, work = set(), [(store["value"], at0)]
    while work:
        e, at = work.pop()
        for x in ast.walk(e):
            if id(x) in obs:
                return True
            if isinstance(x, ast.Name) and isinstance(x.ctx, ast.Load):
                try:
                    ds = cfg.defs_of(at, x.id)
                except Exception:
                    ds = []
                for d in ds:
                    if d.value is not None and isinstance(d.value, ast.AST) and (d.node, x.id) not in seen:
                        seen.add((d.node, x.id))
                        work.append((d.value.value if isinstance(d.value, ast.AugAssign) else d.value, d.node))
    return False


def _attr_stores_on(fn, name):
    """Statements of ``fn`` (nested functions excluded) that store an attribute / element of the object bound to ``name``:
    `name.x = ..`, `name.x += ..`, `name.x[i] = ..`, `name[i] = ..`."""
    out = []
    for st in ast.walk(fn):
        tg = st.targets if isinstance(st, ast.Assign) else [st.target] if isinstance(st, (ast.AugAssign, ast.AnnAssign)) else []
        for t in tg:
            for el in (t.elts if isinstance(t, (ast.Tuple, ast.List)) else [t]):
                b = el
                while isinstance(b, (ast.Attribute, ast.Subscript)):
                    b = b.value
                if b is not el and isinstance(b, ast.Name) and b.id == name:
                    out.append(st)
    return out


def _default_instances(ck, repo, funcs, closure):
    """R6, default arguments that are objects: `def train(..., state: State = State())` evaluates `State()` once, when the function is defined.
    If the routine (or a routine of the package it hands the object to) updates that object in place, a later call that also relies on the
    default continues from the state the earlier call left behind - the run is no longer a function of its arguments.  Evidence: the default
    is a construction of a class of the package that is not immutable (NamedTuple / frozen dataclass), and an attribute store on the
    parameter is found in the routine itself or, one call level down, on the parameter the object is bound to."""
    from ..nf import NF
    n_seen = 0
    for q in sorted(closure):
        if q not in funcs:
            continue
        fn, mi = funcs[q]
        a = fn.args
        pos = a.posonlyargs + a.args
        pairs = list(zip(pos[len(pos) - len(a.defaults):], a.defaults)) + [(p_, d_) for p_, d_ in zip(a.kwonlyargs, a.kw_defaults) if d_ is not None]
        for p_, d_ in pairs:
            if not (isinstance(d_, ast.Call) and isinstance(d_.func, (ast.Name, ast.Attribute))):
                continue
            cq = repo.resolve_expr(mi, d_.func)
            try:
                node = repo.lookup(cq)[1] if cq and cq.startswith(repo.PKG + ".") and repo.has(cq) else None
            except Exception:
                node = None
            if not isinstance(node, ast.ClassDef):
                continue
            immutable = any((isinstance(b, ast.Name) and b.id == "NamedTuple") or (isinstance(b, ast.Attribute) and b.attr == "NamedTuple") for b in node.bases) \
                or any("frozen=True" in ast.unparse(dc) for dc in node.decorator_list)
            if immutable:
                continue
            n_seen += 1
            name = p_.arg
            if any(isinstance(x, ast.Name) and x.id == name and isinstance(x.ctx, ast.Store) for x in ast.walk(fn)):
                raise AnalysisError(f"{q}: the parameter `{name}` (default `{short(d_, 40)}`) is rebound in the routine (unrecognised form)")
            hits = [(q, st) for st in _attr_stores_on(fn, name)]
            if not hits:
                for c in ast.walk(fn):
                    if not (isinstance(c, ast.Call) and isinstance(c.func, (ast.Name, ast.Attribute))):
                        continue
                    gq = repo.resolve_expr(mi, c.func)
                    if not (gq and gq in funcs) or any(isinstance(x, ast.Starred) for x in c.args) or any(k.arg is None for k in c.keywords):
                        continue
                    gfn = funcs[gq][0]
                    try:
                        b = bind_call(gfn, c)
                    except Exception:
                        continue
                    for gp, arg in b.items():
                        if isinstance(arg, ast.Name) and arg.id == name:
                            hits += [(gq, st) for st in _attr_stores_on(gfn, gp)]
            ok = not hits
            ck.ob("R6-process-state", q, f"default-instance:{name}", ok, f"`{name}={short(d_, 40)}` is created once, when the routine is defined",
                  "" if ok else f"the default object is updated in place (`{short(hits[0][1], 60)}` in {hits[0][0].rsplit('.', 1)[1]}): a later call that relies on the default starts from the state an "
                  f"earlier call in the same process left behind, so equal seeds no longer give equal runs", loc(mi, d_))
    ck.count("R6-default-instances", n_seen)


def _process_state_guarded(ck, repo, funcs, closure, sinks):
    try:
        _process_state(ck, repo, funcs, closure, sinks)
    except AnalysisError:
        raise
    except Exception as e:     # a construct the reader of scopes / accesses was not written for: undecided, never a crash
        raise AnalysisError(f"R6-process-state: the accesses of process-level state could not be read ({type(e).__name__}: {str(e)[:80]}) (unrecognised form)") from e


def _process_state(ck, repo, funcs, closure, sinks):
    """R6: a training routine is a function of its arguments only if nothing it reads was left behind by an earlier call.  For every
    process-state object that code in the closure writes: who observes it?  Only log output -> fine.  A keyed store / lookup pair (or a
    lazily initialised global) is a memo: the entry a later call receives was built from the *earlier* call's inputs, so every input the
    stored value is built from has to be pinned down by the lookup key; an input that the key does not hold is a dataflow witness of
    history dependence.  Any other observed mutation is undecided."""
    index = _StateIndex(repo, funcs, closure)
    by_state = {}
    n_fn = 0
    dflt = {}
    transparent = repo.transparent_helpers()
    for q in sorted(closure):
        if "<locals>" in q or q in transparent:
            continue          # nested functions are walked with their parent; a helper whose every call was expanded is read at its call sites
        fn, mi = funcs[q]
        n_fn += 1
        for a in _state_accesses(index, repo, q, fn, mi):
            by_state.setdefault(a["state"], []).append(a)

    def defaults_of(acc):
        k = acc["q"]
        if k not in dflt:
            dflt[k] = _default_states(repo, k, acc["fn"], acc["mi"])
        return dflt[k]

    n_written = 0
    called_in_bodies = None
    for st, accs in sorted(by_state.items()):
        writes = [a for a in accs if a["kind"] in ("store", "gstore", "mutate", "remove")]
        if not writes:
            continue          # a table that is only read: a constant of the process
        # a module-level function that no function body refers to runs while the modules are imported (registration decorators, table set-up):
        # what it writes is in place before any training routine starts and is the same in every process
        if called_in_bodies is None:
            called_in_bodies = set()
            for q2, fn2, mi2 in repo.all_functions():
                if "<locals>" in q2:
                    continue
                for n in ast.walk(fn2):
                    if isinstance(n, ast.Name) and isinstance(n.ctx, ast.Load) and n.id not in _scope_params(fn2):
                        r_ = repo.resolve_name(mi2, n.id)
                        if r_:
                            called_in_bodies.add(r_)
                    elif isinstance(n, ast.Attribute) and isinstance(n.ctx, ast.Load):
                        r_ = repo.resolve_expr(mi2, n)
                        if r_:
                            called_in_bodies.add(r_)
        def at_import_only(a):
            f_ = a["fn"]
            return isinstance(getattr(f_, "_parent", None), ast.Module) and a["q"] not in called_in_bodies and not any(a["q"] == e_ for e_ in entry_points(repo))
        accs = [a for a in accs if not (a["kind"] in ("store", "gstore", "mutate", "remove") and at_import_only(a))]
        writes = [a for a in accs if a["kind"] in ("store", "gstore", "mutate", "remove")]
        if not writes:
            continue
        n_written += 1
        w0 = writes[0]
        where = loc(w0["mi"], w0["node"])
        observers = [a for a in accs if a["kind"] in ("read", "in", "use")]
        live = []
        for a in observers:
            ok_, uses = _harmless_observation(repo, a, sinks, index, defaults_of)
            a["uses"] = uses
            if not ok_:
                live.append(a)
        if not live:
            ck.ob("R6-process-state", w0["q"], f"state:{st}", True, f"`{short(w0['node'], 60)}`: what is kept in `{st}` only reaches log output", "", where)
            continue
        und = lambda why: ck.incomplete.append(f"{w0['q']}: `{st}` outlives the call and is written by `{short(w0['node'], 50)}` - {why} (unrecognised form)")
        odd = [a for a in writes if a["kind"] == "mutate"] + [a for a in live if a["kind"] == "use" and not isinstance(a["root"].ctx, ast.Store)]
        stores = [a for a in writes if a["kind"] in ("store", "gstore")]
        is_global = any(a["kind"] == "gstore" for a in stores)
        if is_global:
            # a rebound global is read by name: those reads are its value reads
            for a in live:
                if a["kind"] == "use" and a["node"] is a["root"]:
                    a["kind"] = "read"
            odd = [a for a in writes if a["kind"] == "mutate"] + [a for a in live if a["kind"] == "use"]
            if any(a["kind"] == "store" for a in stores):
                odd.append(stores[0])
        for a in stores:
            inner_ = [sc for sc in _fn_chain(a["node"]) if not isinstance(sc, ast.Lambda)]
            try:
                if inner_ and _feeds_on_itself(_cfg(inner_[0]), a, observers):
                    a["kind"] = "mutate"
                    odd.append(a)
            except Exception:
                odd.append(a)
        if odd:
            # what earlier calls accumulated there (append / += / update ...) reaches the seed of a generator: the stream depends on the process history
            grows = [a for a in writes if a["kind"] == "mutate" and not (isinstance(a["node"], ast.Call) and isinstance(a["node"].func, ast.Attribute) and a["node"].func.attr in REMOVING_METHODS)]
            seeded = [(a, c) for a in live for k, c in a.get("uses", []) if k == "rng"]
            if grows and seeded:
                a, c = seeded[0]
                ck.ob("R6-process-state", a["q"], f"seed:{st}", False, f"`{short(c, 80)}`",
                      f"`{st}` outlives the call and is changed by `{short(grows[0]['node'], 50)}` each time; what has accumulated there reaches the seed of `{short(c, 50)}`: the random stream of a run depends on how many runs the process made before", loc(a["mi"], c))
                continue
            und(f"`{short(odd[0]['node'], 50)}` changes / observes it as a whole; whether a result depends on what earlier calls left there is not decided")
            continue
        if not stores:
            und("entries are removed from it and what remains is observed; whether a result depends on what earlier calls left there is not decided")
            continue
        owners = {id(_fn_chain(a["node"])[0]) if _fn_chain(a["node"]) else 0 for a in stores + live}
        if len({a["q"] for a in stores + live}) != 1 or len(owners) != 1:
            und("it is written and read by different functions; whether a result depends on what earlier calls left there is not decided")
            continue
        owner = _fn_chain(stores[0]["node"])[0]
        # can a read see an entry that this call did not write?  (a read on a path that passes no store; setdefault by construction)
        try:
            cfg = _cfg(owner)
            store_nodes = {cfg.node_of(a["node"]).id for a in stores}
            value_reads = [a for a in live if a["kind"] == "read" and any(k in ("other", "rng") for k, _ in a.get("uses", [("other", None)]))]
            sees_old = [a for a in value_reads if a.get("conditional") or (cfg.node_of(a["node"]).id not in store_nodes and cfg.paths_avoiding(cfg.entry, cfg.node_of(a["node"]).id, store_nodes) is not None)]
        except Exception:
            und("the control flow between its writes and reads is not read")
            continue
        if not value_reads:
            und("only its membership is observed; whether a result depends on what earlier calls left there is not decided")
            continue
        if not sees_old:
            ck.ob("R6-process-state", w0["q"], f"state:{st}", True, f"`{short(w0['node'], 60)}`: every read of `{st}` follows this call's own write", "", where)
            continue
        not_inputs = {p_ for (sid, p_), s_ in defaults_of(w0).items() if s_ == st}
        verdicts = []
        for s in stores:
            deps = _Deps(s["node"], not_inputs)
            katoms = deps.key_atoms(s["key"], repo, s["mi"]) if s["key"] is not None else []
            kset = {(c, t) for c, t in katoms}
            mismatch = False
            for a in live:
                if a["key"] is not None:
                    d2 = _Deps(a["node"], not_inputs)
                    if {(c, t) for c, t in d2.key_atoms(a["key"], repo, a["mi"])} != kset:
                        mismatch = True
            if mismatch:
                verdicts.append(("und", "it is stored and looked up under keys that are not built from the same inputs"))
                continue
            vatoms = deps.atoms(s["value"])
            whole = [c for c, t in katoms if t == "whole"]
            maybe = [c for c, t in katoms if t != "whole"]
            missing, unsure = [], []
            called = {x.func.id for x in ast.walk(owner) if isinstance(x, ast.Call) and isinstance(x.func, ast.Name)}
            for v in sorted(vatoms):
                if any(v[:len(c)] == c for c in whole):
                    continue
                # a builder handed in by the caller (`make()`): which inputs it closes over is the caller's knowledge, not this function's
                if any(v[:len(c)] == c or c[:len(v)] == v for c in maybe) or any(x in GEOMETRY_ATTRS for x in v) or (len(v) == 1 and v[0] in called):
                    unsure.append(v)
                else:
                    missing.append(v)
            if missing and not deps.inexact and not deps.unknown:
                verdicts.append(("bad", s, missing, katoms))
            elif missing or unsure or deps.unknown:
                verdicts.append(("und", f"whether the lookup key pins down `{'.'.join((missing + unsure + [('?',)])[0])}`, from which the stored value is built, is not decided"))
            else:
                # the key pins down every input; an object with its own evolving state is still shared between the calls
                gen = other = None
                for c in ast.walk(s["value"]):
                    if isinstance(c, ast.Call) and isinstance(c.func, (ast.Name, ast.Attribute)):
                        root_mod = _root_is_module(deps, c.func)
                        d = repo.resolve_expr(s["mi"], c.func) if root_mod else None
                        if d in STATEFUL_GENERATORS:
                            gen = gen or c
                        elif d and d.startswith(repo.PKG + "."):
                            try:
                                if isinstance(repo.lookup(d)[1], ast.ClassDef):
                                    other = other or c
                            except Exception:
                                other = other or c
                        elif d and not d.startswith(PURE_VALUE_LIBS) and not d.startswith(repo.PKG + "."):
                            other = other or c
                        elif d is None and not (isinstance(c.func, ast.Name) and root_mod and c.func.id in SEED_BUILTINS | KEY_LOSSLESS_FUNCS) and not (isinstance(c.func, ast.Attribute) and c.func.attr in KEY_LOSSLESS_METHODS | SEED_METHODS):
                            other = other or c
                if gen is not None:
                    verdicts.append(("gen", s, gen))
                elif other is not None:
                    verdicts.append(("und", f"the kept object is made by `{short(other, 40)}`; whether it carries state of its own from call to call is not decided"))
                else:
                    verdicts.append(("ok", s))
        for v in verdicts:
            s = v[1] if v[0] != "und" else None
            if v[0] == "bad":
                names = ", ".join("`" + ".".join(m) + "`" for m in v[2][:3])
                held = ", ".join("`" + ".".join(c) + "`" for c in sorted({c for c, _ in v[3]}))
                keytxt = (f"the key `{short(s['key'], 40)}` (it holds {held})" if held else f"the key `{short(s['key'], 40)}`") if s["key"] is not None else "nothing (a lazily initialised global has no key)"
                ck.ob("R6-process-state", s["q"], f"memo:{st}", False, f"`{short(s['node'], 80)}`",
                      f"`{st}` outlives the call; the kept value is built from {names} but a later call is handed it back on the strength of {keytxt}, which does not hold {names}: "
                      f"a call that agrees on the key and differs there receives the object built for the earlier call - the training run depends on what the process did before", loc(s["mi"], s["node"]))
            elif v[0] == "gen":
                ck.ob("R6-process-state", s["q"], f"memo:{st}", False, f"`{short(s['node'], 80)}`",
                      f"`{st}` outlives the call and keeps the random generator made by `{short(v[2], 50)}`: a later run continues the stream where the earlier one stopped instead of starting from its seed", loc(s["mi"], s["node"]))
            elif v[0] == "ok":
                ck.ob("R6-process-state", s["q"], f"memo:{st}", True, f"`{short(s['node'], 80)}`: every input of the kept value is part of the lookup key", "", loc(s["mi"], s["node"]))
            else:
                und(v[1])
    ck.count("process-state-objects-written", n_written)
    ck.ob("R6-process-state", "rl_blox", "closure-scanned", True, f"{n_fn} functions scanned for writes to module-level containers, rebound globals, class-level containers and mutable defaults: {n_written} written", "", "rl_blox/")


_A = "rl_blox/algorithm/"
_MSA = """    action_scale = 0.5 * (action_space.high - action_space.low)
    return nnx.jit(
        partial(
            sample_actions,
            action_space.low,
            action_space.high,
            action_scale,
            exploration_noise,
        )
    )
"""
_MSA_DEF = "def make_sample_actions(\n"
_MSA_BUILD = "nnx.jit(partial(sample_actions, action_space.low, action_space.high, 0.5 * (action_space.high - action_space.low), exploration_noise))"
_DUCB_INIT = "    def __init__(self, n_arms, upper_bound, gamma, zeta=0.002, verbose=0):\n"
_DUCB_PAD = """    def _padding_function(self, arm_idx):
        return (
            2
            * self.upper_bound
            * np.sqrt(
                self.zeta
                * np.log(self.total_frequency)
                / self.discounted_frequencies[arm_idx]
            )
        )
"""
_DUCB_PAD_MEMO = """    def _padding_function(self, arm_idx):
        if arm_idx not in self._pad_memo_:
            self._pad_memo_[arm_idx] = 2 * self.upper_bound * np.sqrt(self.zeta * np.log(self.total_frequency) / self.discounted_frequencies[arm_idx])
        return self._pad_memo_[arm_idx]
"""
_RB_ALLOC = """            for k, v in sample.items():
                assert k in self.buffer, f"{k} not in {self.buffer.keys()}"
                self.buffer[k] = np.empty(
                    (self.buffer_size,) + np.asarray(v).shape,
                    dtype=self.buffer[k].dtype,
                )
        for k, v in sample.items():
            self.buffer[k][self.insert_idx] = v
        self.insert_idx"""
_RB_ALLOC_CARRIER = """            fresh_ = OrderedDict()
            for name_, first_ in sample.items():
                assert name_ in self.buffer, f"{name_} not in {self.buffer.keys()}"
                fresh_[name_] = np.empty((self.buffer_size,) + np.asarray(first_).shape, dtype=self.buffer[name_].dtype)
            self.buffer = fresh_
"""
MUTANTS = [
    {"id": "c09-td7-default-state-instance-updated-in-place", "file": 'rl_blox/algorithm/td7.py', "rule": "R6", "edits": [('    progress_bar: bool = True,\n', '    progress_bar: bool = True,\n    checkpoint_state: CheckpointState = CheckpointState(),\n'), ('    value_clipping_state = ValueClippingState()\n    checkpoint_state = CheckpointState()\n', '    value_clipping_state = ValueClippingState()\n')]},
    {"id": "c09-seed-unwrapped-space", "file": _A + "td3.py", "rule": "R2", "find": "    env.action_space.seed(seed)", "replace": "    env.unwrapped.action_space.seed(seed)"},
    {"id": "c09-sample-unwrapped-space", "file": _A + "ddpg.py", "rule": "R2", "find": "            action = env.action_space.sample()", "replace": "            action = env.unwrapped.action_space.sample()"},
    {"id": "c09-set-of-buffers", "file": "rl_blox/blox/replay_buffer.py", "rule": "R3", "edits": [("        self.active_buffers.add(self.selected_task)", "        self.active_buffers.add(self.buffers[self.selected_task])"),
        ("        self.sampled_task_idx = rng.choice(list(self.active_buffers), size=1)[0]", "        cands = list(self.active_buffers)\n        self.sampled_task_idx = self.buffers.index(cands[rng.choice(len(cands), size=1)[0]])")]},
    {"id": "c09-unseeded-rng", "file": _A + "td3.py", "rule": "R2", "find": "    rng = np.random.default_rng(seed)", "replace": "    rng = np.random.default_rng()"},
    {"id": "c09-np-global", "file": _A + "ddpg.py", "rule": "R1", "find": "        if global_step < learning_starts:\n            action = env.action_space.sample()", "replace": "        if global_step < learning_starts:\n            action = np.random.uniform(env.action_space.low, env.action_space.high)"},
    {"id": "c09-stdlib-random", "file": _A + "smt.py", "rule": "R1", "find": "import copy\nimport warnings", "replace": "import copy\nimport random\nimport warnings", "edits": [("import copy\nimport warnings", "import copy\nimport random\nimport warnings"), ("            worst = main_pool_indices[worst_index]", "            worst = main_pool_indices[worst_index] if random.random() < 2.0 else main_pool_indices[0]")]},
    {"id": "c09-time-seed", "file": _A + "sac.py", "rule": "R", "edits": [("import chex\nimport gymnasium as gym", "import time\n\nimport chex\nimport gymnasium as gym"), ("    key = jax.random.PRNGKey(seed)", "    key = jax.random.PRNGKey(seed + int(time.time()) % 1)")]},
    {"id": "c09-set-of-names", "file": "rl_blox/blox/replay_buffer.py", "rule": "R3", "edits": [("        self.active_buffers = set()", "        self.active_buffers = set()\n        self.active_names = {\"a\", \"b\"}"), ("        self.sampled_task_idx = rng.choice(list(self.active_buffers), size=1)[0]", "        self.sampled_task_idx = rng.choice(list(self.active_buffers), size=1)[0]\n        _ = list(self.active_names)")]},
    {"id": "c09-rngs-unseeded", "file": _A + "td3.py", "rule": "R2", "nth": 0, "find": "        nnx.Rngs(seed),", "replace": "        nnx.Rngs(),"},
    {"id": "c09-reset-seed-none", "file": _A + "dqn.py", "rule": "R2", "find": "    obs, _ = env.reset(seed=seed)", "replace": "    obs, _ = env.reset(seed=None)"},
    {"id": "c09-read-evicted-slot", "file": "rl_blox/blox/replay_buffer.py", "rule": "R5", "nth": 0, "find": "        for k, v in sample.items():\n            self.buffer[k][self.insert_idx] = v\n        self.insert_idx", "replace": "        self.evicted_ = {k: np.array(self.buffer[k][self.insert_idx]) for k in sample}\n        for k, v in sample.items():\n            self.buffer[k][self.insert_idx] = v\n        self.insert_idx"},
    {"id": "c09-zip-name-set", "file": _A + "sac.py", "rule": "R3", "edits": [("    while step < total_timesteps:\n", "    while step < total_timesteps:\n        key, *sub_ = jax.random.split(key, 3)\n        named_ = dict(zip({\"action\", \"critic\"}, sub_))\n")]},
    {"id": "c09-uuid", "file": "rl_blox/blox/mapb.py", "rule": "R1", "edits": [("import numpy as np", "import uuid\n\nimport numpy as np"), ("            arm_idx = len(self.rewards) % self.n_arms\n", "            arm_idx = (len(self.rewards) + uuid.uuid4().int * 0) % self.n_arms\n")]},
    {"id": "c09-space-seed-none-kw", "file": _A + "td3.py", "rule": "R2", "find": "    env.action_space.seed(seed)", "replace": "    env.action_space.seed(seed=None)"},
    {"id": "c09-ctor-seed-default-none", "file": "rl_blox/blox/mapb.py", "rule": "R2", "edits": [("    def __init__(self, n_arms, upper_bound, gamma, zeta=0.002, verbose=0):\n", "    def __init__(self, n_arms, upper_bound, gamma, zeta=0.002, verbose=0, seed=None):\n        self.rng_ = np.random.default_rng(seed)\n"),
        ("            arm_idx = len(self.rewards) % self.n_arms\n", "            arm_idx = int(self.rng_.integers(self.n_arms))\n")]},
    {"id": "c09-ctor-seed-some-sites", "file": "rl_blox/blox/mapb.py", "rule": "R2", "edits": [("    def __init__(self, n_arms, upper_bound, gamma, zeta=0.002, verbose=0):\n", "    def __init__(self, n_arms, upper_bound, gamma, zeta=0.002, verbose=0, seed=None):\n        self.rng_ = np.random.default_rng(seed)\n"),
        ("            arm_idx = len(self.rewards) % self.n_arms\n", "            arm_idx = int(self.rng_.integers(self.n_arms))\n"), ("class DUCB:\n", "def make_seeded_ducb_(n_arms, seed):\n    return DUCB(n_arms, 1.0, 0.9, seed=seed)\n\n\nclass DUCB:\n")]},
    {"id": "c09-time-branch", "file": _A + "td3.py", "rule": "R4", "edits": [("import chex\nimport gymnasium as gym", "import time\n\nimport chex\nimport gymnasium as gym"), ("        if step < learning_starts:\n            action = env.action_space.sample()", "        if step < learning_starts or time.time() % 2 < 1e-9:\n            action = env.action_space.sample()")]},
    {"id": "c09-time-local-branch", "file": _A + "td3.py", "rule": "R4", "edits": [("import chex\nimport gymnasium as gym", "import time\n\nimport chex\nimport gymnasium as gym"), ("    while step < total_timesteps:\n", "    t0_ = time.monotonic()\n    while step < total_timesteps:\n        elapsed_ = time.monotonic() - t0_\n        if elapsed_ > 3600.0:\n            break\n")]},
    {"id": "c09-hash-str-seed", "file": _A + "ddpg.py", "rule": "R", "find": "    rng = np.random.default_rng(seed)", "replace": "    rng = np.random.default_rng(seed + hash(\"ddpg\") % 7)"},
    {"id": "c09-pid-seed", "file": _A + "ddpg.py", "rule": "R2", "edits": [("import chex\n", "import os\n\nimport chex\n"), ("    rng = np.random.default_rng(seed)", "    rng = np.random.default_rng(seed + os.getpid() % 2)")]},
    {"id": "c09-read-before-store-in-loop", "file": "rl_blox/blox/replay_buffer.py", "rule": "R5", "nth": 0, "find": "        for k, v in sample.items():\n            self.buffer[k][self.insert_idx] = v\n        self.insert_idx", "replace": "        self.evicted_ = {}\n        for k, v in sample.items():\n            self.evicted_[k] = np.array(self.buffer[k][self.insert_idx])\n            self.buffer[k][self.insert_idx] = v\n        self.insert_idx"},
    {"id": "c09-read-evicted-slot-carrier-allocation", "file": "rl_blox/blox/replay_buffer.py", "rule": "R5", "nth": 0, "find": _RB_ALLOC,
        "replace": _RB_ALLOC_CARRIER + "        self.evicted_ = {k: np.array(self.buffer[k][self.insert_idx]) for k in sample}\n        for k, v in sample.items():\n            self.buffer[k][self.insert_idx] = v\n        self.insert_idx"},
    # R6: state that outlives the call
    {"id": "c09-memo-key-without-bounds", "file": _A + "ddpg.py", "rule": "R6", "edits": [(_MSA_DEF, "_JITTED_ = {}\n\n\n" + _MSA_DEF),
        (_MSA, "    k_ = (action_space.shape, exploration_noise)\n    if k_ in _JITTED_:\n        return _JITTED_[k_]\n    f_ = " + _MSA_BUILD + "\n    _JITTED_[k_] = f_\n    return f_\n")]},
    {"id": "c09-memo-get-form-noise-only", "file": _A + "ddpg.py", "rule": "R6", "edits": [(_MSA_DEF, "_JITTED_ = dict()\n\n\n" + _MSA_DEF),
        (_MSA, "    f_ = _JITTED_.get(float(exploration_noise))\n    if f_ is None:\n        lo_, hi_ = action_space.low, action_space.high\n        f_ = nnx.jit(lambda p_, o_, k_: sample_actions(lo_, hi_, 0.5 * (hi_ - lo_), exploration_noise, p_, o_, k_))\n        _JITTED_[float(exploration_noise)] = f_\n    return f_\n")]},
    {"id": "c09-lazy-global-sampler", "file": _A + "ddpg.py", "rule": "R6", "edits": [(_MSA_DEF, "_SAMPLER_ = None\n\n\n" + _MSA_DEF),
        (_MSA, "    global _SAMPLER_\n    if _SAMPLER_ is None:\n        _SAMPLER_ = " + _MSA_BUILD + "\n    return _SAMPLER_\n")]},
    {"id": "c09-memo-in-mutable-default", "file": _A + "ddpg.py", "rule": "R6", "edits": [("    exploration_noise: float,\n) -> Callable[[nnx.Module, jnp.ndarray, jnp.ndarray], jnp.ndarray]:\n    action_scale", "    exploration_noise: float,\n    _memo_={},\n) -> Callable[[nnx.Module, jnp.ndarray, jnp.ndarray], jnp.ndarray]:\n    action_scale"),
        (_MSA, "    return _memo_.setdefault(str(action_space.dtype), " + _MSA_BUILD + ")\n")]},
    {"id": "c09-memo-on-function-attribute", "file": _A + "ddpg.py", "rule": "R6", "edits": [
        (_MSA, "    k_ = (len(action_space.low), exploration_noise)\n    if k_ not in make_sample_actions.jitted_:\n        make_sample_actions.jitted_[k_] = " + _MSA_BUILD + "\n    return make_sample_actions.jitted_[k_]\n\n\nmake_sample_actions.jitted_ = {}\n")]},
    {"id": "c09-class-level-memo", "file": "rl_blox/blox/mapb.py", "rule": "R6", "edits": [(_DUCB_INIT, "    _pad_memo_ = {}\n\n" + _DUCB_INIT), (_DUCB_PAD, _DUCB_PAD_MEMO)]},
    {"id": "c09-kept-generator", "file": _A + "td3.py", "rule": "R6", "edits": [("import chex\nimport gymnasium as gym", "import chex\nimport gymnasium as gym\n\n_GENERATORS_ = {}"),
        ("    rng = np.random.default_rng(seed)", "    if seed not in _GENERATORS_:\n        _GENERATORS_[seed] = np.random.default_rng(seed)\n    rng = _GENERATORS_[seed]")]},
    {"id": "c09-call-counter-in-seed", "file": "rl_blox/blox/mapb.py", "rule": "R6", "edits": [("class DUCB:\n", "_MADE_ = []\n\n\nclass DUCB:\n"),
        ("        self.n_arms = n_arms\n", "        self.n_arms = n_arms\n        _MADE_.append(n_arms)\n        stream_ = len(_MADE_)\n        self.rng_ = np.random.default_rng(stream_)\n")]},
]
BENIGN = [
    {"id": "c09-b-td7-default-state-instance-only-read", "file": 'rl_blox/algorithm/td7.py', "edits": [('    progress_bar: bool = True,\n', '    progress_bar: bool = True,\n    initial_clipping: ValueClippingState = ValueClippingState(),\n'), ('    value_clipping_state = ValueClippingState()\n', '    value_clipping_state = ValueClippingState(min_value=initial_clipping.min_value, max_value=initial_clipping.max_value)\n')]},
    {"id": "c09-b-read-after-store", "file": "rl_blox/blox/replay_buffer.py", "nth": 0, "find": "        for k, v in sample.items():\n            self.buffer[k][self.insert_idx] = v\n        self.insert_idx", "replace": "        for k, v in sample.items():\n            self.buffer[k][self.insert_idx] = v\n        self.last_added_ = {k: np.array(self.buffer[k][self.insert_idx]) for k in sample}\n        self.insert_idx"},
    {"id": "c09-b-zip-name-tuple", "file": _A + "sac.py", "edits": [("    while step < total_timesteps:\n", "    while step < total_timesteps:\n        key, *sub_ = jax.random.split(key, 3)\n        named_ = dict(zip((\"action\", \"critic\"), sub_))\n")]},
    {"id": "c09-b-seed-arith", "file": _A + "td3.py", "find": "    rng = np.random.default_rng(seed)", "replace": "    rng = np.random.default_rng(seed + 17)"},
    {"id": "c09-b-key-literal", "file": _A + "pets.py", "find": "        key=jax.random.key(seed),", "replace": "        key=jax.random.key(2 * seed + 1),"},
    # audit: forms the rules must read by meaning
    {"id": "c09-b-space-seed-keyword", "file": _A + "td3.py", "find": "    env.action_space.seed(seed)", "replace": "    env.action_space.seed(seed=seed)"},
    {"id": "c09-b-seed-through-asarray", "file": _A + "td3.py", "edits": [("    rng = np.random.default_rng(seed)", "    rng = np.random.default_rng(np.asarray(seed).item())"), ("        nnx.Rngs(seed),", "        nnx.Rngs(default=seed),")]},
    {"id": "c09-b-wall-time-logged", "file": _A + "td3.py", "edits": [("import chex\nimport gymnasium as gym", "import time\n\nimport chex\nimport gymnasium as gym"), ("    while step < total_timesteps:\n", "    t0_ = time.perf_counter()\n    while step < total_timesteps:\n"),
        ("                logger.record_stat(\"return\", accumulated_reward, step=step + 1)\n", "                logger.record_stat(\"return\", accumulated_reward, step=step + 1)\n                elapsed_ = time.perf_counter() - t0_\n                logger.record_stat(\"wall time\", round(elapsed_, 3), step=step + 1)\n                if elapsed_ > 60.0:\n                    print(f\"slow run: {elapsed_:.1f}s\")\n")]},
    {"id": "c09-b-key-set-checks", "file": "rl_blox/blox/replay_buffer.py", "nth": 0, "find": "        for k, v in sample.items():\n            self.buffer[k][self.insert_idx] = v\n        self.insert_idx", "replace": "        known_ = {\"observation\", \"reward\"}\n        for k_ in known_:\n            assert isinstance(k_, str)\n        assert all(isinstance(k_, str) for k_ in known_)\n        n_known_ = len(list(known_))\n        known_ = sorted(known_)\n        for k_ in known_:\n            n_known_ -= 1\n        for k, v in sample.items():\n            self.buffer[k][self.insert_idx] = v\n        self.insert_idx"},
    {"id": "c09-b-read-back-in-loop", "file": "rl_blox/blox/replay_buffer.py", "nth": 0, "find": "        for k, v in sample.items():\n            self.buffer[k][self.insert_idx] = v\n        self.insert_idx", "replace": "        for k, v in sample.items():\n            shape_ = self.buffer[k][self.insert_idx].shape\n            self.buffer[k][self.insert_idx] = v\n            self.last_written_ = self.buffer[k][self.insert_idx]\n        self.insert_idx"},
    {"id": "c09-b-identity-assert", "file": _A + "td3.py", "find": "    q = ContinuousClippedDoubleQNet(q1, q2)\n", "replace": "    assert id(q1) != id(q2), f\"shared critic {id(q1)}\"\n    n_streams_ = hash(2) % 3\n    q = ContinuousClippedDoubleQNet(q1, q2)\n"},
    {"id": "c09-b-ctor-seed-none-replaced", "file": "rl_blox/blox/mapb.py", "edits": [("    def __init__(self, n_arms, upper_bound, gamma, zeta=0.002, verbose=0):\n", "    def __init__(self, n_arms, upper_bound, gamma, zeta=0.002, verbose=0, seed=None):\n        if seed is None:\n            seed = 0\n        self.rng_ = np.random.default_rng(seed)\n")]},
    {"id": "c09-b-ctor-seed-none-replaced-some-sites", "file": "rl_blox/blox/mapb.py", "edits": [("    def __init__(self, n_arms, upper_bound, gamma, zeta=0.002, verbose=0):\n", "    def __init__(self, n_arms, upper_bound, gamma, zeta=0.002, verbose=0, seed=None):\n        if seed is None:\n            seed = 0\n        self.rng_ = np.random.default_rng(seed)\n"),
        ("class DUCB:\n", "def make_seeded_ducb_(n_arms, seed):\n    return DUCB(n_arms, 1.0, 0.9, seed=seed)\n\n\nclass DUCB:\n")]},
    {"id": "c09-b-timedelta", "file": _A + "td3.py", "edits": [("import chex\nimport gymnasium as gym", "import datetime\n\nimport chex\nimport gymnasium as gym"), ("    while step < total_timesteps:\n", "    budget_ = datetime.timedelta(seconds=60).total_seconds()\n    while step < total_timesteps:\n")]},
    {"id": "c09-b-carrier-allocation", "file": "rl_blox/blox/replay_buffer.py", "nth": 0, "find": _RB_ALLOC,
        "replace": _RB_ALLOC_CARRIER + "        for k, v in sample.items():\n            self.buffer[k][self.insert_idx] = v\n        self.insert_idx"},
    # R6: memo forms whose key pins down every input, bookkeeping that only reaches log output, state that does not outlive the call
    {"id": "c09-b-memo-complete-key", "file": _A + "ddpg.py", "edits": [(_MSA_DEF, "_JITTED_ = {}\n\n\n" + _MSA_DEF),
        (_MSA, "    k_ = (action_space.low.tobytes(), action_space.high.tobytes(), float(exploration_noise))\n    if k_ in _JITTED_:\n        return _JITTED_[k_]\n    f_ = " + _MSA_BUILD + "\n    _JITTED_[k_] = f_\n    return f_\n")]},
    {"id": "c09-b-memo-lru-eviction", "file": _A + "ddpg.py", "edits": [(_MSA_DEF, "from collections import OrderedDict\n\n_JITTED_ = OrderedDict()\n\n\n" + _MSA_DEF),
        (_MSA, "    lo_, hi_ = action_space.low, action_space.high\n    k_ = (tuple(lo_.tolist()), tuple(hi_.tolist()), exploration_noise)\n    f_ = _JITTED_.get(k_)\n    if f_ is None:\n        f_ = nnx.jit(partial(sample_actions, lo_, hi_, 0.5 * (hi_ - lo_), exploration_noise))\n        _JITTED_[k_] = f_\n        if len(_JITTED_) > 16:\n            _JITTED_.popitem(last=False)\n    else:\n        _JITTED_.move_to_end(k_)\n    return f_\n")]},
    {"id": "c09-b-memo-helper-complete-key", "file": _A + "ddpg.py", "edits": [(_MSA_DEF, "_JITTED_ = {}\n\n\ndef _memoised_(key, make):\n    if key not in _JITTED_:\n        _JITTED_[key] = make()\n    return _JITTED_[key]\n\n\n" + _MSA_DEF),
        (_MSA, "    return _memoised_((action_space.low.tobytes(), action_space.high.tobytes(), exploration_noise), lambda: " + _MSA_BUILD + ")\n")]},
    {"id": "c09-b-lazy-global-of-constant", "file": _A + "ddpg.py", "edits": [(_MSA_DEF, "_JIT_ = None\n\n\n" + _MSA_DEF),
        (_MSA, "    global _JIT_\n    if _JIT_ is None:\n        _JIT_ = nnx.jit(sample_actions)\n    return partial(_JIT_, action_space.low, action_space.high, 0.5 * (action_space.high - action_space.low), exploration_noise)\n")]},
    {"id": "c09-b-warn-once", "file": _A + "ddpg.py", "edits": [(_MSA_DEF, "import warnings\n\n_WARNED_ = set()\n\n\n" + _MSA_DEF),
        (_MSA, "    if exploration_noise > 1.0 and exploration_noise not in _WARNED_:\n        warnings.warn(\"large exploration noise\")\n        _WARNED_.add(exploration_noise)\n" + _MSA)]},
    {"id": "c09-b-running-total-logged", "file": _A + "ddpg.py", "edits": [(_MSA_DEF, "_MADE_ = {}\n\n\n" + _MSA_DEF),
        (_MSA, "    before_ = _MADE_.get(exploration_noise, 0)\n    _MADE_[exploration_noise] = before_ + 1\n    print(\"samplers with this noise so far:\", _MADE_[exploration_noise])\n" + _MSA)]},
    {"id": "c09-b-memo-on-function-attribute-complete-key", "file": _A + "ddpg.py", "edits": [
        (_MSA, "    k_ = (action_space.low.tobytes(), action_space.high.tobytes(), exploration_noise)\n    if k_ not in make_sample_actions.jitted_:\n        make_sample_actions.jitted_[k_] = " + _MSA_BUILD + "\n    return make_sample_actions.jitted_[k_]\n\n\nmake_sample_actions.jitted_ = {}\n")]},
    {"id": "c09-b-table-filled-at-import", "file": _A + "ddpg.py", "edits": [(_MSA_DEF, "_SCALES_ = {}\n\n\ndef _declare_scale_(name, value):\n    _SCALES_[name] = value\n\n\n_declare_scale_(\"half\", 0.5)\n\n\n" + _MSA_DEF),
        ("    action_scale = 0.5 * (action_space.high - action_space.low)\n    return nnx.jit(", "    action_scale = _SCALES_[\"half\"] * (action_space.high - action_space.low)\n    return nnx.jit(")]},
    {"id": "c09-b-call-count-logged", "file": "rl_blox/blox/mapb.py", "edits": [("class DUCB:\n", "_MADE_ = 0\n\n\nclass DUCB:\n"),
        ("        self.n_arms = n_arms\n", "        global _MADE_\n        _MADE_ += 1\n        if verbose:\n            print(f\"bandit #{_MADE_}\")\n        self.n_arms = n_arms\n")]},
    {"id": "c09-b-instance-level-memo", "file": "rl_blox/blox/mapb.py", "edits": [(_DUCB_INIT, "    _pad_memo_ = {}\n\n" + _DUCB_INIT + "        self._pad_memo_ = {}\n"),
        (_DUCB_PAD, _DUCB_PAD_MEMO.replace("arm_idx not in", "(arm_idx, float(self.total_frequency), float(self.discounted_frequencies[arm_idx])) not in").replace("_[arm_idx]", "_[(arm_idx, float(self.total_frequency), float(self.discounted_frequencies[arm_idx]))]"))]},
    {"id": "c09-b-overwritten-before-read", "file": _A + "ddpg.py", "edits": [(_MSA_DEF, "_LAST_ = {}\n\n\n" + _MSA_DEF),
        (_MSA, "    _LAST_.clear()\n    _LAST_[\"sampler\"] = " + _MSA_BUILD + "\n    return _LAST_[\"sampler\"]\n")]},
]
