"""C02 - replay buffer is a faithful fixed-capacity FIFO of whole transitions (ring premises + sampling structure)."""
from __future__ import annotations

import ast
from fractions import Fraction

from ..loops import dotted
from ..nf import NF, Scope, Poly, parse_expr
from ..repo import Repo, loc, short, AnalysisError, positional_params, param_names, bind_call
from ..sem import guard_literals, spec, on_every_path_once, stmt_calls, arg_of, recv_canon, ingredient_tokens, split_conditional_assignments
from ..sympath import enumerate_paths, PathEval

EXPLANATION = (
    "The checker decides the premises of the ring-buffer induction for ReplayBuffer.add_sample (inherited by LAP / PrioritizedReplayBuffer): "
    "(1) every provided field is stored at the *current* insert index, (2) all stores precede the advance, (3) the advance is "
    "insert' = (insert + 1) mod N, (4) len' = min(len + 1, N), (5) allocation happens only while the buffer is empty with N rows of the "
    "configured dtype. The premises are read per execution path of add_sample (symbolic evaluation of the statements along every path, so "
    "locals, augmented assignments, compare-and-reset forms and extracted helpers are read by what they compute): a path is accepted when its "
    "final insert_idx / current_len are provably (insert + 1) mod N / min(len + 1, N) under the path's conditions and the ring invariant "
    "0 <= insert < N, 0 <= len <= N; it is a violation when a reachable ring state (small N, every fill level) is a concrete counterexample; "
    "anything else is an unrecognised form. Given (1)-(5) the FIFO statement follows by induction on the number of additions: the slot written by addition n is "
    "n mod N, a slot is overwritten exactly N additions later, hence the buffer holds the last min(n, N) transitions and [0, len) are exactly "
    "the written slots (trusted five-line argument; the premises are what can break in a code change). Sampling: one index vector gathers "
    "every field inside a single comprehension over self.buffer; the index is drawn from [0, current_len) (uniform) or from a sampler that "
    "receives current_len and slices its priorities with it. Multi-task routing: additions go to buffers[selected_task] and mark exactly "
    "that task active, batches come from one active task, select_task stores only validated ids, len is the sum."
)
TRUSTED = ["numpy rng.integers(0, n, size) draws from [0, n); x[indices] gathers rows", "the induction from the five ring premises to the FIFO statement"]
RULES = {
    "R1-ring-law": "stores buffer[k][insert_idx] = v for every provided key precede insert_idx' = (insert_idx + 1) % buffer_size and current_len' = min(current_len + 1, buffer_size)",
    "R2-one-index-vector": "every sample_batch gathers all fields with the same index vector inside one comprehension over self.buffer",
    "R3-index-bound": "the index vector is drawn from [0, current_len): rng.integers(0, self.current_len, ...) or a priority sampler that is given self.current_len and slices with it",
    "R4-allocation": "storage is allocated only under current_len == 0, with (buffer_size,) + value shape and the configured dtype",
    "R5-task-routing": "MultiTaskReplayBuffer: add -> buffers[selected_task] and active_buffers.add(selected_task); sample -> one buffer among active_buffers; select_task validates (the routing of priority updates is decided under C08)",
    "R6-length": "__len__ returns current_len (sum over tasks for the multi-task buffer)",
    "R7-stored-rows-kept": "a method other than add_sample that replaces a storage field (or the storage entry of the pickled state) by a leading slice field[:n] of it keeps the rows [0, current_len) of the stored transitions: n >= current_len in every reachable ring state",
}

RB = "rl_blox.blox.replay_buffer."
IDX, LEN, CAP = "self.insert_idx", "self.current_len", "self.buffer_size"
# names a ring-state expression may be built from: a value made of these only that differs from the documented one is a different function of the ring state
RING_TOKENS = {"self", "insert_idx", "current_len", "buffer_size", "min", "max", "minimum", "maximum", "mod", "len"}
RING_STATE = {"insert_idx", "current_len", "buffer_size"}
DRAWS = {"integers", "randint", "choice", "random", "uniform", "permutation", "normal", "shuffle", "random_sample", "rand"}
WRAPPERS = {"asarray", "array", "int", "astype", "copy", "ravel", "flatten", "int32", "int64", "squeeze"}


def _m(repo, cq, name, inherited=True):
    """The method as the class sees it (own or inherited from a base / mixin), with the module of the class that defines it."""
    m = repo.method(cq, name, inherited=inherited)
    if m is None:
        raise AnalysisError(f"{cq}.{name} not found (anchor vanished)")
    fn = m[1]
    fn._module = repo.cls(m[0])._module
    fn._owner = m[0]
    return fn


def _paths(cfg, src, stops, what):
    """Every syntactic path (loops: zero or one iteration); which of them can be taken is decided by the caller from the conditions."""
    try:
        return enumerate_paths(cfg, src, stops, feasible=False)
    except RuntimeError:
        raise AnalysisError(f"{what}: too many execution paths to read (unrecognised form)")


# ---------------------------------------------------------------------------------------------------------------------------
# integer reasoning over the ring state: conditions as trees, linear consequences, concrete evaluation
class _NoValue(Exception):
    pass


def _num_ast(e, st):
    if isinstance(e, ast.Constant) and isinstance(e.value, (int, bool)):
        return Fraction(int(e.value))
    if isinstance(e, (ast.Attribute, ast.Name)):
        d = dotted(e)
        if d in st:
            return Fraction(st[d])
        raise _NoValue(d)
    if isinstance(e, ast.UnaryOp) and isinstance(e.op, ast.USub):
        return -_num_ast(e.operand, st)
    if isinstance(e, ast.BinOp) and isinstance(e.op, (ast.Add, ast.Sub, ast.Mult, ast.Div)):
        a, b = _num_ast(e.left, st), _num_ast(e.right, st)
        if isinstance(e.op, ast.Div):
            if b == 0:
                raise _NoValue("division by zero")
            return a / b
        return a + b if isinstance(e.op, ast.Add) else a - b if isinstance(e.op, ast.Sub) else a * b
    if isinstance(e, ast.Call) and isinstance(e.func, ast.Name) and not e.keywords:
        f = e.func.id
        if f == "len" and len(e.args) == 1 and dotted(e.args[0]) == "self" and "len(self)" in st:
            return Fraction(st["len(self)"])
        args = [_num_ast(a, st) for a in e.args]
        if f in ("min", "minimum") and len(args) >= 2:
            return min(args)
        if f in ("max", "maximum") and len(args) >= 2:
            return max(args)
        if f == "mod" and len(args) == 2:
            if args[1] <= 0 or any(a.denominator != 1 for a in args):
                raise _NoValue("mod")
            return Fraction(int(args[0]) % int(args[1]))
        if f == "floordiv" and len(args) == 2 and args[1] > 0 and all(a.denominator == 1 for a in args):
            return Fraction(int(args[0]) // int(args[1]))
        if f == "ite" and len(args) == 3:
            return args[1] if args[0] != 0 else args[2]
        if f in ("Lt", "LtE", "Eq", "NotEq") and len(args) == 2:
            return Fraction(int({"Lt": args[0] < args[1], "LtE": args[0] <= args[1], "Eq": args[0] == args[1], "NotEq": args[0] != args[1]}[f]))
    raise _NoValue(ast.dump(e)[:40])


def _num(p: Poly, st: dict) -> Fraction:
    """Value of a normal form in a concrete ring state; _NoValue when it reads anything but the ring state."""
    if p.elems is not None:
        raise _NoValue("tuple")
    tot = Fraction(0)
    for mono, c in p.terms.items():
        v = Fraction(c)
        for a, k in mono:
            if a in st:
                x = Fraction(st[a])
            else:
                if "^" in a:
                    raise _NoValue(a)
                try:
                    tree = ast.parse(a, mode="eval").body
                except SyntaxError:
                    raise _NoValue(a)
                x = _num_ast(tree, st)
            if k < 0 and x == 0:
                raise _NoValue("division by zero")
            v *= x ** k
        tot += v
    return tot


def _ring_states():
    """Every ring state the documented behaviour reaches for the capacities 1..5 (n additions made), with the documented successor."""
    for N in range(1, 6):
        for n in range(0, 2 * N + 2):
            ln = min(n, N)
            yield {CAP: N, IDX: n % N, LEN: ln, "len(self)": ln}, (n + 1) % N, min(n + 1, N)


def _cond_tree(pe, nf, e, norm):
    """A branch condition, evaluated in the state the path has reached, as a tree over comparison leaves of normal forms."""
    if isinstance(e, ast.UnaryOp) and isinstance(e.op, ast.Not):
        return ("not", _cond_tree(pe, nf, e.operand, norm))
    if isinstance(e, ast.BoolOp):
        return ("and" if isinstance(e.op, ast.And) else "or", [_cond_tree(pe, nf, v, norm) for v in e.values])
    if isinstance(e, ast.Compare):
        parts = [norm(pe.ev(x)) for x in [e.left] + list(e.comparators)]
        items = [("cmp", type(op).__name__, parts[i], parts[i + 1]) for i, op in enumerate(e.ops)]
        return items[0] if len(items) == 1 else ("and", items)
    p = norm(pe.ev(e))
    m = nf.meta.get(p.single_atom() or "", {})
    if m.get("fn") in ("Lt", "LtE", "Eq", "NotEq") and len(m.get("args", [])) == 2:
        return ("cmp", m["fn"], norm(m["args"][0]), norm(m["args"][1]))
    return ("truth", p)


def _tree_tokens(t) -> set:
    if t[0] == "not":
        return _tree_tokens(t[1])
    if t[0] in ("and", "or"):
        return set().union(*[_tree_tokens(x) for x in t[1]]) if t[1] else set()
    if t[0] == "cmp":
        return ingredient_tokens(t[2]) | ingredient_tokens(t[3])
    return ingredient_tokens(t[1])


def _assume(t, truth, facts, nes, unknown):
    """Linear consequences over the integers of `t is truth`: facts (polys that are >= 0), nes (polys that are != 0); what is not read goes to unknown."""
    k = t[0]
    if k == "not":
        _assume(t[1], not truth, facts, nes, unknown)
    elif k in ("and", "or"):
        if (k == "and") == truth:
            for x in t[1]:
                _assume(x, truth, facts, nes, unknown)
        else:
            unknown.append((t, truth))
    elif k == "cmp":
        op, a, b = t[1], t[2], t[3]
        if op in ("Gt", "GtE"):
            a, b, op = b, a, {"Gt": "Lt", "GtE": "LtE"}[op]
        if op not in ("Lt", "LtE", "Eq", "NotEq") or a.elems is not None or b.elems is not None:
            unknown.append((t, truth))
            return
        if not truth:
            if op in ("Lt", "LtE"):
                a, b, op = b, a, {"Lt": "LtE", "LtE": "Lt"}[op]     # not (a < b) == b <= a
            else:
                op = {"Eq": "NotEq", "NotEq": "Eq"}[op]
        if op == "Lt":
            facts.append(b - a - Poly.const(1))
        elif op == "LtE":
            facts.append(b - a)
        elif op == "Eq":
            facts += [b - a, a - b]
        else:
            nes.append(b - a)
    else:
        p = t[1]
        if p.elems is not None:
            unknown.append((t, truth))
        elif p.is_const():
            if (p.const_value() != 0) != truth:
                facts.append(Poly.const(-1))        # a folded condition that is not taken: the path does not exist
        elif truth:
            nes.append(p)
        else:
            facts += [p, -p]


def _holds(t, st) -> bool:
    k = t[0]
    if k == "not":
        return not _holds(t[1], st)
    if k == "and":
        return all(_holds(x, st) for x in t[1])
    if k == "or":
        return any(_holds(x, st) for x in t[1])
    if k == "cmp":
        a, b = _num(t[2], st), _num(t[3], st)
        ops = {"Lt": a < b, "LtE": a <= b, "Gt": a > b, "GtE": a >= b, "Eq": a == b, "NotEq": a != b}
        if t[1] not in ops:
            raise _NoValue(t[1])
        return ops[t[1]]
    return _num(t[1], st) != 0


def _nonneg(q: Poly, facts) -> bool:
    """q >= 0 follows from the facts (each >= 0): q is a fact, or the sum of two, plus a non-negative constant."""
    cands = [Poly.const(0)] + list(facts)
    for i, f in enumerate(cands):
        d = q - f
        if d.is_const() and d.const_value() >= 0:
            return True
        for g in cands[i:]:
            d2 = d - g
            if d2.is_const() and d2.const_value() >= 0:
                return True
    return False


def _close(facts, nes):
    """d != 0 together with d >= 0 is d >= 1 (integers)."""
    facts = list(facts)
    for d in nes:
        if d.is_zero():
            facts.append(Poly.const(-1))            # 0 != 0: the path does not exist
        elif _nonneg(d, facts):
            facts.append(d - Poly.const(1))
        elif _nonneg(-d, facts):
            facts.append(-d - Poly.const(1))
    return facts


def _infeasible(facts) -> bool:
    for i, f in enumerate(facts):
        for g in facts[i:]:
            s = f + g
            if s.is_const() and s.const_value() < 0:
                return True
        if f.is_const() and f.const_value() < 0:
            return True
    return False


# ---------------------------------------------------------------------------------------------------------------------------
# R1 / R4: the ring premises, read per execution path of add_sample
class _RingPath:
    def __init__(self):
        self.conds = []      # (tree, truth, node id) in execution order
        self.stores = []     # dict(node, stmt, key, idx, val, base, nconds, advanced)
        self.allocs = []     # dict(node, stmt, key, val, nconds)
        self.other = []      # stores that reach the storage in a way that is not read: (stmt, base canon, val canon)
        self.rebinds = []    # statements that replace the storage dict
        self.idx = self.len = None


def _flat_targets(s):
    ts = s.targets if isinstance(s, ast.Assign) else [s.target]
    out = []
    for t in ts:
        out += list(t.elts) if isinstance(t, (ast.Tuple, ast.List)) else [t]
    return out


def _walk_ring_path(nf, cfg, mi, site, path, norm):
    pe = PathEval(nf, cfg, mi, site, {}, self_class=None)
    rp = _RingPath()
    fields = {}          # location text `self.buffer[K]` of the fields (re)allocated on this path -> K

    def raw(e):
        """Value of a storage expression with the locals resolved but the storage itself kept symbolic (self.buffer[k] stays the location)."""
        sc = pe.scope()
        sc.store = {k: v for k, v in pe.store.items() if not (k == "self.buffer" or k.startswith("self.buffer["))}
        return nf.poly(e, sc, None)
    for nid, lab in path:
        n = cfg.nodes[nid]
        s = n.ast
        if lab == "exc" or (n.kind == "stmt" and isinstance(s, ast.ExceptHandler)):
            raise AnalysisError(f"{site}: exception handlers in the ring update (unrecognised form)")
        if n.kind == "test" and hasattr(s, "test") and lab in (True, False):
            rp.conds.append((_cond_tree(pe, nf, s.test, norm), lab, nid))
        elif n.kind == "stmt" and isinstance(s, ast.Assert):
            rp.conds.append((_cond_tree(pe, nf, s.test, norm), True, nid))
        elif n.kind == "stmt" and isinstance(s, (ast.Assign, ast.AugAssign, ast.AnnAssign)) and getattr(s, "value", None) is not None:
            simple = isinstance(s, (ast.Assign, ast.AnnAssign)) and len(_flat_targets(s)) == 1
            for t in _flat_targets(s):
                if isinstance(t, ast.Attribute) and dotted(t) == "self.buffer":
                    rp.rebinds.append(s)
                if not isinstance(t, ast.Subscript):
                    continue
                base = raw(t.value)
                bc = base.canon()
                bm = nf.meta.get(base.single_atom() or "", {})
                key = None
                if bm.get("fn") in ("subscript", "proj") and bm.get("args") and bm["args"][0].canon() == "self.buffer" and bc.startswith("self.buffer[") and bc.endswith("]"):
                    key = bc[len("self.buffer["):-1]
                elif bc == "iter(self.buffer.items())[1]":
                    key = "iter(self.buffer.items())[0]"          # for k, arr in self.buffer.items(): arr[i] = ...
                elif isinstance(t.value, ast.Name):
                    # a local bound to a field after the field was (re)allocated on this path holds that field
                    key = next((k_ for l_, k_ in fields.items() if l_ in pe.store and pe.store[l_].canon() == bc), None)
                if bc == "self.buffer":
                    if not simple:
                        raise AnalysisError(f"{site}: storage field assigned by `{short(s, 60)}` (unrecognised form)")
                    rp.allocs.append({"node": nid, "stmt": s, "key": norm(pe.ev(t.slice)), "val": pe.ev(s.value), "nconds": len(rp.conds)})
                    fields[pe.target_key(t)] = rp.allocs[-1]["key"].canon()
                elif key is not None:
                    if not simple:
                        raise AnalysisError(f"{site}: storage row written by `{short(s, 60)}` (unrecognised form)")
                    sl = t.slice
                    if isinstance(sl, ast.Tuple):
                        # buffer[k][i, ...] = v and buffer[k][i, :] = v write row i
                        if not sl.elts or not all((isinstance(x, ast.Constant) and x.value is Ellipsis) or (isinstance(x, ast.Slice) and x.lower is None and x.upper is None and x.step is None) for x in sl.elts[1:]):
                            raise AnalysisError(f"{site}: storage row written by `{short(s, 60)}` (unrecognised form)")
                        sl = sl.elts[0]
                    if isinstance(sl, ast.Slice):
                        raise AnalysisError(f"{site}: storage rows written by `{short(s, 60)}` (unrecognised form)")
                    rp.stores.append({"node": nid, "stmt": s, "key": key, "keyexpr": t.value.slice if isinstance(t.value, ast.Subscript) else None, "idx": norm(pe.ev(sl)),
                                      "val": pe.ev(s.value), "nconds": len(rp.conds), "advanced": IDX in pe.store})
                elif {"buffer", "self"} <= ingredient_tokens(base):
                    rp.other.append((s, base, pe.ev(s.value)))
        pe.step(nid, lab)
    rp.idx = norm(pe.store[IDX]) if IDX in pe.store else None
    rp.len = norm(pe.store[LEN]) if LEN in pe.store else None
    return rp


def _is_min_of(nf, v: Poly, a: Poly, b: Poly) -> bool:
    m = nf.meta.get(v.single_atom() or "", {})
    if m.get("fn", "").split(".")[-1] in ("min", "minimum") and len(m.get("args", [])) == 2 and not m.get("kws"):
        x, y = m["args"]
        return (x == a and y == b) or (x == b and y == a)
    return False


def _path_facts(rp, upto=None):
    facts, nes, unknown = [], [], []
    seen = {}
    for t, truth, _ in (rp.conds if upto is None else rp.conds[:upto]):
        _assume(t, truth, facts, nes, unknown)
        # the same condition (on the values it had when it was tested) taken both ways: the path does not exist
        if seen.setdefault(_show_tree(t, 400), truth) != truth:
            facts.append(Poly.const(-1))
    return facts, nes, unknown


def _witness(rp, upto, check):
    """A reachable ring state that takes this path (conditions on the ring state hold; conditions on anything else are free) and for which
    ``check(state, idx', len')`` is true: concrete evidence.  None when there is none or the path's conditions are not evaluable."""
    import re
    conds = rp.conds if upto is None else rp.conds[:upto]
    # free: conditions on the provided sample / the keys of the storage.  Conditions that read the ring state, or any other attribute of the
    # object (a cached flag may be tied to the ring state by an invariant this rule does not know), must hold in the state
    rel = [(t, truth) for t, truth, _ in conds if _tree_tokens(t) & (RING_STATE | {"len"}) or set(re.findall(r"self\.(\w+)", _show_tree(t, 400))) - {"buffer", "Batch"}]
    for st, want_idx, want_len in _ring_states():
        try:
            if all(_holds(t, st) == truth for t, truth in rel) and check(st, want_idx, want_len):
                return st
        except _NoValue:
            return None
    return None


def _fmt_state(st):
    return f"buffer_size={st[CAP]}, insert_idx={st[IDX]}, current_len={st[LEN]}"


def _pairs_by_name(kw, key: str, val: Poly) -> bool:
    """The stored value is the one provided under the key of the storage field: (k, v) of kwargs.items(), or kwargs[k]."""
    vc = val.canon()
    if key == f"iter({kw}.items())[0]" and vc == f"iter({kw}.items())[1]":
        return True
    return vc == f"{kw}[{key}]"


def _all_fields(kw, key: str) -> bool:
    """The key ranges over every provided field (or over every field of the storage, which then must all be provided)."""
    return key in (f"iter({kw}.items())[0]", f"iter({kw})", f"iter({kw}.keys())", "iter(self.buffer)", "iter(self.buffer.keys())", "iter(self.buffer.items())[0]")


def _ring(ck, repo, nf):
    cq = RB + "ReplayBuffer"
    fn0 = _m(repo, cq, "add_sample")
    mi = fn0._module
    site = f"{cq}.add_sample"
    where = loc(mi, fn0)
    fn = split_conditional_assignments(fn0)          # `x = a if c else b` is read as two paths
    kwarg = fn.args.kwarg.arg if fn.args.kwarg else None
    ck.need(kwarg is not None, f"{site}: the transition is not passed as keyword fields (unrecognised idiom)")
    cfg = nf.cfg_of(fn)
    one, zero = Poly.const(1), Poly.const(0)
    a_idx, a_len, a_cap = (Poly.atom(x, {x}, frozenset()) for x in (IDX, LEN, CAP))
    sc0 = Scope(None, mi, {}, site)
    len_self = nf.poly(parse_expr("len(self)"), sc0, None).single_atom()

    def norm(p):
        # component i of a record built in place (NamedTuple carrier of the ring state) is the i-th constructor argument
        a = p.single_atom()
        m = nf.meta.get(a or "", {})
        if m.get("fn") == "proj" and len(m.get("args", [])) == 1 and a.endswith("]") and a[a.rfind("[") + 1:-1].isdigit():
            mq = nf.meta.get(m["args"][0].single_atom() or "", {})
            i = int(a[a.rfind("[") + 1:-1])
            if "record" in mq and i < len(mq.get("args", [])):
                p = mq["args"][i]
        # len(self) is current_len (R6 decides that separately)
        if p.elems is None and len_self and len_self in p.atoms():
            return p.subst({len_self: a_len})
        return p
    MOD = nf.poly(parse_expr("(self.insert_idx + 1) % self.buffer_size"), sc0, None)
    invariant = [a_idx, a_cap - a_idx - one, a_len, a_cap - a_len, a_cap - one]      # 0 <= insert < N, 0 <= len <= N, N >= 1
    for n in cfg.nodes:
        if n.kind == "stmt" and isinstance(n.ast, (ast.Assign, ast.AugAssign, ast.AnnAssign)) and cfg.enclosing_loops(n.id) and any(isinstance(t, ast.Attribute) and dotted(t) in (IDX, LEN, CAP) for t in _flat_targets(n.ast)):
            raise AnalysisError(f"{site}: `{short(n.ast, 60)}` updates the ring state inside a loop (unrecognised form)")
    paths = [_walk_ring_path(nf, cfg, mi, site, p, norm) for p in _paths(cfg, cfg.entry, {cfg.exit}, site)]
    ck.need(paths, f"{site}: no path reaches the end of add_sample (unrecognised form)")
    if not any(rp.idx is not None for rp in paths) or not any(rp.len is not None for rp in paths):
        raise AnalysisError(f"{site}: the ring state (insert_idx / current_len) is not written in add_sample (unrecognised form)")

    # -- the advance and the length, per path ---------------------------------------------------
    def decide(key, shown_name, value_of, proofs, want_of, why):
        bad, undecided, shown = None, None, set()
        for rp in paths:
            facts, nes, unknown = _path_facts(rp)
            facts = _close(invariant + facts, nes)
            if _infeasible(facts):
                continue
            v = value_of(rp)
            shown.add(v.canon())
            if "φ(" in v.canon() or "⟦" in v.canon():
                undecided = undecided or v
                continue
            if proofs(v, facts):
                continue
            w = _witness(rp, None, lambda st, wi, wl, v=v: _num(v, st) != want_of(wi, wl))
            if w is not None:
                bad = bad or (v, w, rp)
            else:
                undecided = undecided or v
        if bad is not None:
            v, w, rp = bad
            got = _num(v, w)
            ck.ob("R1-ring-law", site, key, False, f"{shown_name}' = {v.canon()[:120]}", f"{why}: from the reachable state {_fmt_state(w)} this path leaves {shown_name} = {got}", where,
                  witness=[f"state {_fmt_state(w)}", f"path conditions: {[(_show_tree(t), truth) for t, truth, _ in rp.conds]}", f"{shown_name}' = {v.canon()[:150]} = {got}"])
        elif undecided is not None:
            raise AnalysisError(f"{site}: {shown_name}' = `{undecided.canon()[:110]}` on one path (unrecognised form)")
        else:
            ck.ob("R1-ring-law", site, key, True, f"{shown_name}' = {sorted(shown)} on the {len(paths)} paths", "", where)

    def idx_proof(v, facts):
        if v == MOD:
            return True
        if v == a_idx + one and _nonneg(a_cap - a_idx - one - one, facts):      # no wrap: insert + 1 <= N - 1
            return True
        return v == zero and _nonneg(a_idx + one - a_cap, facts)                # wrap: insert + 1 >= N

    def len_proof(v, facts):
        if _is_min_of(nf, v, a_len + one, a_cap):
            return True
        if v == a_len + one and _nonneg(a_cap - a_len - one, facts):
            return True
        if v == a_cap and _nonneg(a_len + one - a_cap, facts):
            return True
        return v == a_len and _nonneg(a_len - a_cap, facts)
    # the four premises are decided independently: an unread form in one of them does not hide a violation of another
    ck.guard(decide, "advance-mod-capacity", "insert_idx", lambda rp: rp.idx if rp.idx is not None else a_idx, idx_proof, lambda wi, wl: wi, "must be (insert_idx + 1) % buffer_size on every addition")
    ck.guard(decide, "length-saturates", "current_len", lambda rp: rp.len if rp.len is not None else a_len, len_proof, lambda wi, wl: wl, "must be min(current_len + 1, buffer_size) on every addition")
    ck.guard(_ring_stores, ck, nf, mi, site, where, kwarg, paths, a_idx)
    ck.guard(_ring_alloc, ck, nf, mi, site, kwarg, paths, invariant, a_len)



def _ring_stores(ck, nf, mi, site, where, kwarg, paths, a_idx):
    """The stores: at the write position as it was on entry, every provided field under its own name."""
    seen_nodes, named, violated, store_undecided = set(), 0, False, None
    for rp in paths:
        for s_, base, val in rp.other:
            if id(s_) in seen_nodes:
                continue
            m = nf.meta.get(base.single_atom() or "", {})
            src = m["args"][0].canon() if m.get("fn") == "proj" and m.get("args") else ""
            if src.startswith("iter(zip(") and "self.buffer.values()" in src and f"{kwarg}.values()" in src:
                seen_nodes.add(id(s_))
                violated = True
                ck.ob("R1-ring-law", site, "store-by-key", False, f"`{short(s_, 60)}` with `{src[5:-1][:60]}`",
                      "the storage array is chosen by *position* in the iteration, not by the field name of the value: keyword arguments in another order land in the wrong field", loc(mi, s_))
            else:
                store_undecided = store_undecided or f"store `{short(s_, 60)}` reaches the storage through `{base.canon()[:60]}`"
        for st in rp.stores:
            if st["node"] in seen_nodes:
                continue
            label = short(st["keyexpr"], 20) if st["keyexpr"] is not None else st["key"][:20]
            if not (_pairs_by_name(kwarg, st["key"], st["val"]) and _all_fields(kwarg, st["key"])):
                store_undecided = store_undecided or f"store `{short(st['stmt'], 60)}` pairs storage and value in a way this check does not recognise"
                continue
            if st["idx"] == a_idx:
                seen_nodes.add(st["node"])
                named += 1
                ck.ob("R1-ring-law", site, f"store-at-insert-idx:{label}", True, f"`{short(st['stmt'], 60)}` at the entry write position", "", loc(mi, st["stmt"]))
                continue
            w = _witness(rp, st["nconds"], lambda s2, wi, wl, v=st["idx"]: _num(v, s2) != s2[IDX])
            if w is None:
                store_undecided = store_undecided or f"store `{short(st['stmt'], 60)}` at index `{st['idx'].canon()[:60]}`"
                continue
            seen_nodes.add(st["node"])
            violated = True
            ck.ob("R1-ring-law", site, f"store-at-insert-idx:{label}", False, f"`{short(st['stmt'], 60)}` writes row {st['idx'].canon()[:80]}",
                  ("the store happens after the write position advanced: the transition is split over two slots" if st["advanced"] else "the field is stored at a different index than the write position")
                  + f" (state {_fmt_state(w)}: row {_num(st['idx'], w)})", loc(mi, st["stmt"]))
    if violated:
        return
    if store_undecided:
        raise AnalysisError(f"{site}: {store_undecided} (unrecognised form)")
    if not named:
        raise AnalysisError(f"{site}: no store of the provided fields into self.buffer[key][row] found (unrecognised form)")
    ck.ob("R1-ring-law", site, "stores-every-provided-field", True, f"{named} store statement(s) write the provided value under its own key", "", where)


def _ring_alloc(ck, nf, mi, site, kwarg, paths, invariant, a_len):
    """R4 allocation: only while the buffer is empty, buffer_size rows of the value's shape, configured dtype."""
    for rp in paths:
        if rp.rebinds:
            raise AnalysisError(f"{site}: `{short(rp.rebinds[0], 60)}` replaces the storage dict - allocation not recognised")
    allocs = {}
    for rp in paths:
        for al in rp.allocs:
            allocs.setdefault(al["node"], []).append((rp, al))
    ck.need(allocs, f"{site}: storage allocation not found (unrecognised idiom)")
    for nid_, items in allocs.items():
        rp0, al0 = items[0]
        s = al0["stmt"]
        # guard
        okg, wit = True, None
        for rp, al in items:
            facts, nes, unknown = _path_facts(rp, al["nconds"])
            facts = _close(invariant + facts, nes)
            if _infeasible(facts) or _nonneg(-a_len, facts):
                continue
            okg = False
            w = _witness(rp, al["nconds"], lambda s2, wi, wl: s2[LEN] > 0)
            if w is not None:
                wit = wit or (w, rp, al)
        shown_g = [(_show_tree(t), truth) for t, truth, _ in rp0.conds[:al0["nconds"]]]
        if not okg and wit is None:
            raise AnalysisError(f"{site}: allocation guard {shown_g} not recognised")
        # value
        key = al0["key"].canon()
        v = al0["val"]
        m = nf.meta.get(v.single_atom() or "", {})
        fshort = m.get("fn", "").split(".")[-1]
        args, kws = list(m.get("args", [])), dict(m.get("kws", {}))
        if fshort in ("empty", "zeros"):
            shp = args[0] if args else kws.get("shape")
            dt = kws.get("dtype", args[1] if len(args) > 1 else None)
        elif fshort in ("empty_like", "zeros_like") and args and "shape" in kws:
            shp, dt = kws["shape"], kws.get("dtype", Poly.atom(f"{args[0].canon()}.dtype"))
        else:
            raise AnalysisError(f"{site}: allocation `{short(s, 80)}` not recognised")
        if shp is None or shp.elems is not None or len(shp.terms) != 2 or any(len(mono) != 1 or mono[0][1] != 1 or c != 1 for mono, c in shp.terms.items()):
            raise AnalysisError(f"{site}: allocation `{short(s, 80)}` not recognised")
        ats = sorted(shp.atoms())
        lead = [a_ for a_ in ats if a_.startswith("(")]
        tail = [a_ for a_ in ats if a_ not in lead]
        if len(lead) != 1 or len(tail) != 1:
            raise AnalysisError(f"{site}: allocation `{short(s, 80)}` not recognised")
        tm = nf.meta.get(tail[0], {})
        tsrc = tm["args"][0] if (tm.get("fn") == "attr" and tail[0].endswith(".shape") and tm.get("args")) or (tm.get("fn", "").split(".")[-1] == "shape" and len(tm.get("args", [])) == 1) else None
        if tsrc is None or not _pairs_by_name(kwarg, key, tsrc):
            raise AnalysisError(f"{site}: allocation `{short(s, 80)}`: the trailing shape `{tail[0][:50]}` is not the shape of the provided value (unrecognised form)")
        ok_shape = lead[0] == f"({CAP})"
        if not ok_shape and not (lead[0].count(",") == 0 and ingredient_tokens(Poly.atom(lead[0])) <= RING_TOKENS):
            raise AnalysisError(f"{site}: allocation `{short(s, 80)}`: leading dimension `{lead[0][:50]}` (unrecognised form)")
        dts = dt.canon() if dt is not None else None
        ok_dtype = dts == f"self.buffer[{key}].dtype"
        if ok_shape and not ok_dtype and dts is not None:
            # a dtype that is known to be another one: a literal type, or the dtype of the provided value
            dm = nf.meta.get(dts, {})
            other = dts in ("float", "int", "bool", "complex") or dts.startswith(("numpy.", "jax.numpy.")) or (dts.endswith(".dtype") and dm.get("fn") == "attr" and dm.get("args") and _pairs_by_name(kwarg, key, dm["args"][0]))
            if not other:
                raise AnalysisError(f"{site}: allocation `{short(s, 80)}`: dtype `{dts[:50]}` (unrecognised form)")
        okv = ok_shape and ok_dtype
        why = ""
        if not okg:
            w, rp, al = wit
            why = (f"storage is (re)allocated under {[(_show_tree(t), truth) for t, truth, _ in rp.conds[:al['nconds']]] or 'no condition'}: reached with stored transitions "
                   f"(state {_fmt_state(w)}), which the allocation discards")
        elif not okv:
            why = "allocation must create buffer_size rows of the value's shape with the configured dtype" + (" (no dtype given: numpy's default float64)" if dts is None else "")
        ck.ob("R4-allocation", site, "empty-buffer-only", okg and okv, f"`{short(s, 90)}` under {shown_g}", why, loc(mi, s))


def _show_tree(t, width=40) -> str:
    if t[0] == "not":
        return f"not({_show_tree(t[1], width)})"
    if t[0] in ("and", "or"):
        return f"{t[0]}(" + ", ".join(_show_tree(x, width) for x in t[1]) + ")"
    if t[0] == "cmp":
        return f"{t[1]}({t[2].canon()[:width]}, {t[3].canon()[:width]})"
    return t[1].canon()[:width + 10]


# ---------------------------------------------------------------------------------------------------------------------------
# R2 / R3: one index vector for all fields, drawn from the valid prefix
def _peel(e, mi):
    """Strip value-transparent wrappers of an index expression: np.asarray(x), x.astype(int), int(x) ..."""
    while isinstance(e, ast.Call) and not any(isinstance(a, ast.Starred) for a in e.args):
        f = e.func
        is_mod = isinstance(f, ast.Attribute) and isinstance(f.value, ast.Name) and f.value.id in mi.imports
        if isinstance(f, ast.Name) and f.id in WRAPPERS and len(e.args) == 1 and not e.keywords:
            e = e.args[0]
        elif isinstance(f, ast.Attribute) and f.attr in WRAPPERS and is_mod and e.args:
            e = e.args[0]
        elif isinstance(f, ast.Attribute) and f.attr in WRAPPERS and not is_mod:
            e = f.value
        else:
            break
    return e


def _resolve_draws(cfg, mi, at, e, site, depth=0):
    """Follow local aliases and transparent wrappers from an index expression to the call(s) that produce the index vector: [(call, node id)],
    one per reaching definition."""
    e = _peel(e, mi)
    if isinstance(e, ast.Name) and depth < 12:
        ds = cfg.defs_of(at, e.id)
        if not ds or any(d.kind != "assign" for d in ds):
            raise AnalysisError(f"{site}: index vector `{e.id}` is not defined by plain assignments (unrecognised form)")
        out = []
        for d in ds:
            out += _resolve_draws(cfg, mi, d.node, d.value, site, depth + 1)
        return out
    if isinstance(e, ast.Call):
        return [(e, at)]
    raise AnalysisError(f"{site}: index vector `{short(e, 50)}` is not produced by a call (unrecognised form)")


def _is_draw(repo, cq, c: ast.Call, depth=0) -> bool:
    """The call draws random numbers: a generator method, or a method of the buffer / its priority store that does."""
    if not isinstance(c.func, ast.Attribute):
        return False
    if c.func.attr in DRAWS:
        return True
    if depth < 2:
        for owner in (cq, RB + "PriorityBuffer"):
            try:
                m = repo.method(owner, c.func.attr)
            except Exception:
                m = None
            if m is not None and any(isinstance(x, ast.Call) and isinstance(x.func, ast.Attribute) and x.func.attr in DRAWS for x in ast.walk(m[1])):
                return True
    return False


def _attr_class(repo, cq, attr):
    """Class of the object a constructor of the class (or of a base) stores in self.<attr>."""
    for c in repo.mro(cq):
        m = repo.method(c, "__init__", inherited=False)
        if m is None:
            continue
        mi = repo.cls(c)._module
        for st in ast.walk(m[1]):
            if isinstance(st, (ast.Assign, ast.AnnAssign)) and isinstance(getattr(st, "value", None), ast.Call):
                for t in (st.targets if isinstance(st, ast.Assign) else [st.target]):
                    if isinstance(t, ast.Attribute) and dotted(t) == f"self.{attr}":
                        r = repo.resolve_expr(mi, st.value.func)
                        if r and repo.has(r):
                            try:
                                repo.cls(r)
                                return r
                            except Exception:
                                pass
    return None


def _ring_evidence(p: Poly) -> bool:
    c = p.canon()
    return "φ(" not in c and "⟦" not in c and ingredient_tokens(p) <= RING_TOKENS


def _valid_count(nf, p: Poly, also=()):
    """Is the value the number of stored transitions?  "ok": it is current_len / len(self) (or one of the atoms in ``also`` that stand for it, e.g. a
    sampler's parameter), also as a min / max form that equals it under the ring invariant 0 <= len <= N, 0 <= insert < N.  A reachable ring
    state: there the value is another number (evidence; only for values built from the ring state alone).  None: not decided."""
    a_idx, a_len, a_cap = (Poly.atom(x, {x}, frozenset()) for x in (IDX, LEN, CAP))
    one = Poly.const(1)
    inv = [a_idx, a_cap - a_idx - one, a_len, a_cap - a_len, a_cap - one]
    if p.elems is not None:
        return None
    sub = {a: a_len for a in p.atoms() if a == "len(self)" or a in also}

    def deep(q):
        """substitute inside min / max arguments as well: rebuild nothing, just evaluate structurally"""
        return q.subst({a: a_len for a in q.atoms() if a == "len(self)" or a in also}) if q.elems is None else q

    def proves(q, depth=0):
        q = deep(q)
        if q == a_len:
            return True
        m = nf.meta.get(q.single_atom() or "", {})
        f = m.get("fn", "").split(".")[-1] if isinstance(m.get("fn"), str) else ""
        args = [deep(x) for x in m.get("args", [])]
        if depth < 3 and len(args) >= 2 and not m.get("kws") and f in ("min", "minimum", "max", "maximum"):
            lo_side = f in ("min", "minimum")
            rest_ok = lambda x: proves(x, depth + 1) or (x.elems is None and _nonneg((x - a_len) if lo_side else (a_len - x), inv))
            return any(proves(x, depth + 1) for x in args) and all(rest_ok(x) for x in args)
        return False
    if proves(p):
        return "ok"
    q = p.subst(sub) if sub else p
    if not _ring_evidence(q):
        return None
    alias = {a: LEN for a in also}
    for st, _wi, _wl in _ring_states():
        st = dict(st, **{a: st[LEN] for a in alias})
        try:
            if _num(p, st) != st[LEN]:
                return st
        except _NoValue:
            return None
    return None


def _gather_one(ck, repo, nf, cq, samplers):
    from ..sem import field_gathers
    fn = _m(repo, cq, "sample_batch")
    site = f"{cq}.sample_batch"
    if fn._owner != cq and fn._owner in (RB + "ReplayBuffer", RB + "LAP", RB + "PrioritizedReplayBuffer"):
        ck.ob("R2-one-index-vector", site, "inherits:sample_batch", True, f"{cq.rsplit('.', 1)[1]} samples with {fn._owner.rsplit('.', 1)[1]}.sample_batch", "", cq)
        return
    mi = fn._module
    cfg = nf.cfg_of(fn)
    fg = field_gathers(fn)
    ck.need(fg, f"{site}: no per-field gather `self.buffer[k][indices]` inside an iteration over self.buffer found (unrecognised idiom)")
    owners = []
    for g_ in fg:
        if not any(g_["owner"] is o for o in owners):
            owners.append(g_["owner"])
    draws = []
    for ow in owners:
        grp = [g_ for g_ in fg if g_["owner"] is ow]
        loop_vars = set().union(*[g_["vars"] for g_ in grp])
        try:
            at = cfg.node_of(grp[0]["sub"]).id
        except KeyError:
            raise AnalysisError(f"{site}: the gather `{short(grp[0]['sub'], 50)}` is not a statement of sample_batch (unrecognised form)")
        sc = Scope(cfg, mi, {}, site)
        sc.opaque_names = set(loop_vars)
        vals = {}
        for g_ in grp:
            vals.setdefault(nf.poly(g_["index"], sc, at).canon(), g_["index"])
        ix = grp[0]["index"]
        fresh = [c for v in vals.values() for c in ast.walk(v) if isinstance(c, ast.Call) and _is_draw(repo, cq, c)]
        key_dep = any(isinstance(x, ast.Name) and x.id in loop_vars for v in vals.values() for x in ast.walk(v))
        ok = len(vals) == 1 and not fresh and not key_dep
        if not ok and not fresh and not key_dep:
            raise AnalysisError(f"{site}: fields gathered at {[short(v, 40) for v in vals.values()]} - whether these are the same rows is not decided (unrecognised form)")
        ck.ob("R2-one-index-vector", site, "same-index-for-all-fields", ok, f"fields gathered at {[short(v, 40) for v in vals.values()]}",
              "" if ok else "every field of a batch row must be read with the same, once-drawn index vector: an index computed per field (fresh draw / field-dependent) mixes transitions", loc(mi, ix))
        if ok:
            draws.append((ix, at))
    ck.guard(_gather_pairing, ck, repo, cq, site, mi, fg)
    ck.guard(_gather_bound, ck, repo, nf, cq, site, mi, cfg, draws, samplers)


def _gather_pairing(ck, repo, cq, site, mi, fg):
    """How does a gathered column meet its field of the Batch?"""
    from ..sem import storage_rebindings
    pairings = {g_["pairing"] for g_ in fg}
    if None in pairings:
        raise AnalysisError(f"{site}: how the gathered columns are paired with the fields of the batch is not recognised")
    if "position" in pairings:
        # positional: column order == iteration order of self.buffer; the Batch type was derived from the dict's keys when the object was
        # built, so the dict must never be replaced by one with another key order
        reb = storage_rebindings(repo, cq)
        bad_reb = []
        for mq_, st_ in reb:
            v_ = st_.value
            keeps = any(isinstance(c_, (ast.DictComp, ast.GeneratorExp, ast.ListComp)) and any(dotted(g2.iter) == "self.buffer" or (isinstance(g2.iter, ast.Call) and isinstance(g2.iter.func, ast.Attribute) and dotted(g2.iter.func.value) == "self.buffer") for g2 in c_.generators) for c_ in ast.walk(v_))
            if not keeps:
                bad_reb.append((mq_, st_))
        if bad_reb:
            # where do the new dict's keys come from?  evidence of another order: a local filled in a loop over the keyword fields of the added sample
            mq_, st_ = bad_reb[0]
            src_ = None
            mfn = repo.method(mq_.rsplit(".", 1)[0], mq_.rsplit(".", 1)[1], inherited=False)
            kw_ = mfn[1].args.kwarg.arg if mfn and mfn[1].args.kwarg else None
            if isinstance(st_.value, ast.Name) and mfn:
                for lp in ast.walk(mfn[1]):
                    if isinstance(lp, ast.For) and any(isinstance(a_, ast.Assign) and isinstance(a_.targets[0], ast.Subscript) and dotted(a_.targets[0].value) == st_.value.id for a_ in ast.walk(lp)):
                        src_ = lp.iter
            over_kwargs = src_ is not None and kw_ is not None and (dotted(src_) == kw_ or (isinstance(src_, ast.Call) and isinstance(src_.func, ast.Attribute) and src_.func.attr in ("items", "keys") and dotted(src_.func.value) == kw_ and not src_.args))
            if not over_kwargs:
                raise AnalysisError(f"{site}: the batch is built positionally and `{short(st_, 60)}` replaces the storage dict - whether the key order is kept is not decided")
            ck.ob("R2-one-index-vector", site, "columns-meet-their-fields", False, f"positional batch `{short(fg[0]['owner'], 50)}`; `{short(st_, 50)}` in {mq_.rsplit('.', 1)[1]} rebuilds the dict in the order of `{short(src_, 30)}`",
                  "the batch fields are filled by position in the iteration order of self.buffer, but the storage dict is re-created with the key order of the first added sample's keywords: with another keyword order every field of a sampled row carries another field's data", loc(mi, fg[0]["owner"]))
        else:
            ck.ob("R2-one-index-vector", site, "columns-meet-their-fields", True, "positional batch; the storage dict is never replaced after construction (key order == Batch field order)", "", loc(mi, fg[0]["owner"]))


def _gather_bound(ck, repo, nf, cq, site, mi, cfg, draws, samplers):
    """R3: where the index vector comes from."""
    done = set()
    for ix, at, src, at_src in [(ix, at, src, at_src) for ix, at in draws for src, at_src in _resolve_draws(cfg, mi, at, ix, site)]:
        if id(src) in done:
            continue
        done.add(id(src))
        ixn = short(_peel(ix, mi), 30)
        sc = Scope(cfg, mi, {}, site)
        f = src.func
        if isinstance(f, ast.Attribute) and f.attr in ("integers", "randint", "choice"):
            if isinstance(f.value, (ast.Name, ast.Attribute)) and repo.resolve_expr(mi, f.value) == "random":
                raise AnalysisError(f"{site}: index vector drawn by the standard library's `{short(src, 50)}` (unrecognised form)")
            incl = False
            if f.attr == "choice":
                hi, lo = arg_of(src, 0, "a"), None
            else:
                if len(src.args) >= 2 or any(k.arg == "high" for k in src.keywords):
                    lo, hi = arg_of(src, 0, "low"), arg_of(src, 1, "high")
                else:
                    lo, hi = None, arg_of(src, 0, "low")
                ep = next((k.value for k in src.keywords if k.arg == "endpoint"), None)
                if ep is not None:
                    if not (isinstance(ep, ast.Constant) and isinstance(ep.value, bool)):
                        raise AnalysisError(f"{site}: `{short(src, 60)}`: endpoint is not a literal (unrecognised form)")
                    incl = ep.value
            if hi is None or any(isinstance(a_, ast.Starred) for a_ in src.args) or any(k.arg is None for k in src.keywords):
                raise AnalysisError(f"{site}: bounds of `{short(src, 60)}` not recognised")
            hip = nf.poly(hi, sc, at_src) + (Poly.const(1) if incl else Poly.const(0))
            lop = nf.poly(lo, sc, at_src) if lo is not None else Poly.const(0)
            his, los = hip.canon(), lop.canon()
            vh = "ok" if his in (LEN, "len(self)", f"arange({LEN})", "arange(len(self))") else _valid_count(nf, hip)
            vl = "ok" if los == "0" else None
            if vl is None and _ring_evidence(lop):
                try:
                    vl = next((st for st, _wi, _wl in _ring_states() if _num(lop, st) != 0), None)
                except _NoValue:
                    vl = None
            ok = vh == "ok" and vl == "ok"
            if not ok and not (isinstance(vh, dict) or isinstance(vl, dict)):
                raise AnalysisError(f"{site}: index vector drawn from [{los[:40]}, {his[:40]}) (unrecognised form)")
            ck.ob("R3-index-bound", site, "uniform-over-valid-prefix", ok, f"{ixn} = {short(src, 60)}: range [{los}, {his})",
                  "" if ok else "indices must be drawn from [0, current_len): slots beyond current_len were never written (and a positive lower bound never returns the oldest transitions)", loc(mi, src))
            continue
        # a priority sampler of the buffer or of its priority store, bound by its signature
        ck.need(isinstance(f, ast.Attribute), f"{site}: index vector drawn by `{short(src, 50)}` (unrecognised idiom)")
        recv = recv_canon(nf, cfg, mi, cfg.nodes[at_src], src)
        owner = cq if recv == "self" else (_attr_class(repo, cq, recv[len("self."):]) if recv.startswith("self.") and recv[len("self."):].isidentifier() else None)
        cm = repo.method(owner, f.attr) if owner else None
        ck.need(cm is not None, f"{site}: index vector drawn by `{short(src, 50)}` (unrecognised idiom)")
        callee = cm[1]
        callee._module = repo.cls(cm[0])._module
        ps = [p for p in positional_params(callee)][1:]
        ck.need(ps and not any(isinstance(a_, ast.Starred) for a_ in src.args) and not any(k.arg is None for k in src.keywords), f"{site}: arguments of `{short(src, 50)}` not recognised")
        b = bind_call(callee, src, skip_self=True)
        ck.need(ps[0] in b, f"{site}: `{short(src, 50)}` does not pass the number of valid entries `{ps[0]}` (unrecognised form)")
        gotp = nf.poly(b[ps[0]], sc, at_src)
        got = gotp.canon()
        vg = _valid_count(nf, gotp)
        ok = vg == "ok"
        if not ok and not isinstance(vg, dict):
            raise AnalysisError(f"{site}: the sampler is restricted to `{got[:60]}` entries (unrecognised form)")
        ck.ob("R3-index-bound", site, "sampler-gets-current-len", ok, f"{ixn} = {short(src, 70)}: {ps[0]} <- {got}", "" if ok else "the priority sampler must be restricted to the first current_len entries", loc(mi, src))
        store_field = "self.priority" if RB + "PriorityBuffer" in repo.mro(cm[0]) else f"{recv}.priority.priority" if recv == "self" else None
        if store_field is not None:
            samplers.setdefault((cm[0], f.attr), (callee, store_field))


def _ifexp_variants(fn, site, attr, limit=3):
    """Copies of a function in which every conditional expression `a if c else b` is replaced by one of its two values (all combinations):
    what a value is built from on some execution is what it is built from in one of the copies."""
    from ..expand import clone
    ifs = [x for x in ast.walk(fn) if isinstance(x, ast.IfExp)]
    if not ifs:
        return [fn]
    if len(ifs) > limit or any(isinstance(y, ast.Attribute) and y.attr == attr for x in ifs for y in ast.walk(x.test)):
        raise AnalysisError(f"{site}: conditional expressions over the priority store (unrecognised form)")
    out = []
    for bits in range(2 ** len(ifs)):
        class _Pick(ast.NodeTransformer):
            def __init__(self):
                self.i = 0

            def visit_IfExp(self, node):
                k, self.i = self.i, self.i + 1
                return self.visit(node.body if (bits >> k) & 1 else node.orelse)
        new = _Pick().visit(clone(fn))
        ast.fix_missing_locations(new)
        for parent in ast.walk(new):
            for child in ast.iter_child_nodes(parent):
                child._parent = parent
        new._module = fn._module
        out.append(new)
    return out


def _sampler_sliced(ck, repo, nf, owner, meth, fn, field, more=None):
    """The sampler restricts the stored priorities to [:n] (n = its first parameter): every occurrence of the store in the returned indices is that slice,
    or the indices are those of another sampler that is given n (appended to ``more``: that sampler carries the obligation)."""
    mi = fn._module
    site = f"{owner}.{meth}"
    ps = positional_params(fn)
    ck.need(len(ps) >= 2, f"{site}: no parameter for the number of valid entries (anchor vanished)")
    lenp = ps[1]
    env = {p: Poly.atom(p, {p}, {p}) for p in param_names(fn)}
    good, bare, other, wide = [], [], [], []

    def delegated(m):
        """The atom is a call of another sampler of the buffer / of its priority store (`self.meth(...)`, `self.<attr>.meth(...)`), bound by
        the callee's signature: (callee owner, name, callee, its store field, what its number-of-valid-entries parameter receives), else None."""
        f = m.get("fn", "")
        if not isinstance(f, str) or "." not in f or "args" not in m:
            return None
        recv, name = f.rsplit(".", 1)
        if recv == "self":
            cown = owner
        elif recv.startswith("self.") and recv[len("self."):].isidentifier():
            cown = _attr_class(repo, owner, recv[len("self."):])
        else:
            return None
        cm = repo.method(cown, name) if cown else None
        if cm is None or cm[1] is fn or not any(isinstance(x, ast.Call) and isinstance(x.func, ast.Attribute) and x.func.attr in DRAWS for x in ast.walk(cm[1])):
            return None
        callee = cm[1]
        cps = positional_params(callee)
        if len(cps) < 2 or callee.args.vararg is not None or any(str(k).startswith("*") for k in m.get("kws", {})):
            return None
        if RB + "PriorityBuffer" in repo.mro(cm[0]):
            cfield = "self.priority"
        elif recv == "self":
            cfield = field
        else:
            return None
        bound = dict(zip(cps[1:], m["args"]))
        bound.update({k: v for k, v in m.get("kws", {}).items() if k not in bound})
        callee._module = repo.cls(cm[0])._module
        return cm[0], name, callee, cfield, bound.get(cps[1])

    def walk(p: Poly, under=""):
        if p.elems is not None:
            for e_ in p.elems:
                walk(e_, under)
            return
        for a in p.atoms():
            a = a[1:] if a.startswith("*") else a          # f(*xs): the unpacked value is read like the value
            m = nf.meta.get(a)
            dg = delegated(m) if m else None
            if dg is not None:
                # the indices are those of another sampler: restricted to [:n] when that sampler is (its own obligation) and it is given n
                given = dg[4].canon() if dg[4] is not None else None
                # the caller's own number-of-valid-entries parameter stands for current_len (R3 sampler-gets-current-len decides what it receives)
                vg = _valid_count(nf, dg[4], also=(lenp,)) if dg[4] is not None and (RB + "ReplayBuffer" in repo.mro(owner) or LEN not in dg[4].atoms()) else None
                if vg == "ok":
                    good.append(a)
                    if more is not None:
                        more.append(dg[:4])
                elif isinstance(vg, dict):
                    wide.append((a, given))             # a known other quantity of the ring (capacity, write position): not the number of valid entries
                else:
                    other.append(a)
                for x in list(m.get("args", [])) + list(m.get("kws", {}).values()):
                    walk(x, "call")
                continue
            if a == field:
                if under not in ("shape", "dtype", "size", "ndim", "len"):
                    bare.append(a)
            elif m and m.get("fn") == "subscript" and m.get("args") and m["args"][0].canon() == field:
                (good if a[len(field) + 1:-1] in (f":{lenp}", f"0:{lenp}") else other).append(a)
            elif m is not None and (m.get("args") or m.get("kws")):
                u = a.rsplit(".", 1)[-1] if m.get("fn") == "attr" else m.get("fn", "").split(".")[-1]
                for x in m.get("args", []):
                    walk(x, u)
                for x in m.get("kws", {}).values():
                    walk(x, u)
            elif field in a:
                other.append(a)
    for fv in _ifexp_variants(fn, site, field.rsplit(".", 1)[-1]):
        cfg = nf.cfg_of(fv)
        rets = [n for n in cfg.nodes if n.kind == "stmt" and isinstance(n.ast, ast.Return) and n.ast.value is not None]
        ck.need(rets, f"{site}: nothing returned (anchor vanished)")
        for r in rets:
            for p in _paths(cfg, cfg.entry, {r.id}, site):
                pe = PathEval(nf, cfg, mi, site, env).run(p[:-1])
                walk(pe.ev(r.ast.value))
    if bare:
        ck.ob("R3-index-bound", site, "priorities-sliced-to-length", False, f"the sampled distribution reads the whole {field}", "an unsliced use of the priority store takes part in sampling: never-written slots can be drawn", loc(mi, fn))
        return
    if wide:
        ck.ob("R3-index-bound", site, "priorities-sliced-to-length", False, f"`{wide[0][0][:90]}` restricts the draw to {wide[0][1]} entries",
              f"the sampler hands the draw to another sampler but restricts it to `{wide[0][1]}` entries instead of the {lenp} valid ones: never-written slots can be drawn (or stored ones never)", loc(mi, fn))
        return
    if other:
        raise AnalysisError(f"{site}: stored priorities are read as `{other[0][:80]}` (unrecognised form)")
    if not good:
        raise AnalysisError(f"{site}: stored priorities do not occur in the returned indices (unrecognised idiom)")
    via = sorted({nf.meta[a]["fn"] for a in good if nf.meta.get(a, {}).get("fn") not in (None, "subscript")})
    ck.ob("R3-index-bound", site, "priorities-sliced-to-length", True, f"every use of {field} in the sampled distribution is {field}[:{lenp}]" + (f" or the indices of {via} restricted to {lenp} entries" if via else ""), "", loc(mi, fn))


def _gather(ck, repo, nf):
    samplers = {}
    for cq in (RB + "ReplayBuffer", RB + "LAP", RB + "PrioritizedReplayBuffer"):
        ck.guard(_gather_one, ck, repo, nf, cq, samplers)
    # the samplers of the library, whether or not a sample_batch was read down to them
    for owner, meth, field in ((RB + "PriorityBuffer", "prioritized_sampling", "self.priority"), (RB + "PrioritizedReplayBuffer", "prioritized_sampling_stratified", "self.priority.priority")):
        m = repo.method(owner, meth)
        if m is not None and (m[0], meth) not in samplers:
            m[1]._module = repo.cls(m[0])._module
            samplers[(m[0], meth)] = (m[1], field)
    ck.need(samplers, "no priority sampler found (anchor vanished)")
    work, done = [(o_, m_, f_, fl_) for (o_, m_), (f_, fl_) in samplers.items()], set()
    while work:
        owner, meth, fn, field = work.pop(0)
        if (owner, meth) in done:
            continue
        done.add((owner, meth))
        more = []
        ck.guard(_sampler_sliced, ck, repo, nf, owner, meth, fn, field, more)
        work += more            # a sampler that hands the draw to another one: that one carries the obligation


# ---------------------------------------------------------------------------------------------------------------------------
# R6 length, and the subclasses that add through the base ring
def _returned(nf, fn, mi, site):
    cfg = nf.cfg_of(fn)
    rets = [n for n in cfg.nodes if n.kind == "stmt" and isinstance(n.ast, ast.Return) and n.ast.value is not None]
    ck_vals = [nf.poly(r.ast.value, Scope(cfg, mi, {}, site), r.id) for r in rets]
    if not ck_vals:
        raise AnalysisError(f"{site}: returns nothing (unrecognised form)")
    return ck_vals


def _length_of(ck, repo, nf, cq):
    fn = _m(repo, cq, "__len__")
    mi = fn._module
    vals = _returned(nf, fn, mi, f"{cq}.__len__")
    vs = [_valid_count(nf, v) for v in vals]
    ok = all(v == "ok" for v in vs)
    if not ok and not any(isinstance(v, dict) for v in vs):
        raise AnalysisError(f"{cq}.__len__: returns {sorted(v.canon()[:60] for v in vals)} (unrecognised form)")
    ck.ob("R6-length", f"{cq}.__len__", "returns-current-len", ok, f"return {sorted({v.canon() for v in vals})}", "" if ok else "length must be the number of stored transitions", loc(mi, fn))


def _is_base_call(repo, cq, mi, c: ast.Call, name: str):
    """`super().name(...)`, `super(C, self).name(...)` or `Base.name(self, ...)` with Base a base class of cq: the positional arguments after self, else None."""
    if not (isinstance(c.func, ast.Attribute) and c.func.attr == name):
        return None
    r = c.func.value
    if isinstance(r, ast.Call) and isinstance(r.func, ast.Name) and r.func.id == "super" and not r.keywords and len(r.args) in (0, 2):
        return list(c.args)
    if isinstance(r, (ast.Name, ast.Attribute)):
        q = repo.resolve_expr(mi, r)
        if q and q in repo.mro(cq)[1:] and c.args and dotted(c.args[0]) == "self":
            return list(c.args[1:])
    return None


def _delegates(ck, repo, nf, cq):
    """A subclass that overrides add_sample adds through the base ring: exactly one base add_sample(**sample) on every path, no ring state written here."""
    short_cq = cq.rsplit(".", 1)[1]
    own = repo.method(cq, "add_sample", inherited=False)
    if own is None:
        ck.ob("R1-ring-law", f"{cq}.add_sample", "delegates-to-ring", True, f"{short_cq} inherits add_sample", "", cq)
        return
    fn = _m(repo, cq, "add_sample", inherited=False)
    mi = fn._module
    cfg = nf.cfg_of(fn)
    site = f"{cq}.add_sample"
    kwarg = fn.args.kwarg.arg if fn.args.kwarg else None
    sup = [(n, c) for n, c in stmt_calls(cfg, lambda c: _is_base_call(repo, cq, mi, c, "add_sample") is not None)]
    ring_writes = [short(n.ast, 50) for n in cfg.nodes if n.kind == "stmt" and isinstance(n.ast, (ast.Assign, ast.AugAssign, ast.AnnAssign)) and any(
        (dotted(t) in (IDX, LEN)) or (isinstance(t, ast.Subscript) and dotted(t.value) == "self.buffer") or (isinstance(t, ast.Subscript) and isinstance(t.value, ast.Subscript) and dotted(t.value.value) == "self.buffer")
        for t in _flat_targets(n.ast))]
    if not sup:
        raise AnalysisError(f"{site}: no call of the base class's add_sample found (unrecognised form)")
    for _, c in sup:
        pos = _is_base_call(repo, cq, mi, c, "add_sample")
        if not (pos == [] and kwarg is not None and len(c.keywords) == 1 and c.keywords[0].arg is None and dotted(c.keywords[0].value) == kwarg):
            raise AnalysisError(f"{site}: `{short(c, 60)}` - whether the transition fields are forwarded unchanged is not decided (unrecognised form)")
    once = on_every_path_once(cfg, [n.id for n, _ in sup])
    ok = once and not ring_writes
    why = ""
    if not once:
        why = "the transition must be added to the base ring exactly once on every path"
    elif ring_writes:
        why = f"{short_cq}.add_sample writes ring state itself: {ring_writes}"
    ck.ob("R1-ring-law", site, "delegates-to-ring", ok, f"{len(sup)} base add_sample call(s); ring writes {ring_writes}", why, loc(mi, fn))


def _inherits_len(ck, repo, nf, cq):
    own = repo.method(cq, "__len__", inherited=False)
    if own is None:
        ck.ob("R6-length", cq, "inherits:__len__", True, f"{cq.rsplit('.', 1)[1]} inherits __len__", "", cq)
        return
    fn = _m(repo, cq, "__len__", inherited=False)
    vals = _returned(nf, fn, fn._module, f"{cq}.__len__")
    sup = nf.poly(parse_expr("super().__len__()"), Scope(None, fn._module, {}, cq), None).canon()
    vs = ["ok" if v.canon() == sup else _valid_count(nf, v) for v in vals]
    ok = all(v == "ok" for v in vs)
    if not ok and not any(isinstance(v, dict) for v in vs):
        raise AnalysisError(f"{cq}.__len__: returns {sorted(v.canon()[:60] for v in vals)} (unrecognised form)")
    ck.ob("R6-length", cq, "inherits:__len__", ok, f"{cq.rsplit('.', 1)[1]}.__len__ returns {sorted({v.canon() for v in vals})}", "" if ok else "overrides the length with something else than the number of stored transitions", cq)


def _lengths(ck, repo, nf):
    for cq in (RB + "ReplayBuffer", RB + "SubtrajectoryReplayBuffer"):
        ck.guard(_length_of, ck, repo, nf, cq)
    for cq in (RB + "LAP", RB + "PrioritizedReplayBuffer"):
        ck.guard(_inherits_len, ck, repo, nf, cq)
        ck.guard(_delegates, ck, repo, nf, cq)


# ---------------------------------------------------------------------------------------------------------------------------
# R5 / R6: multi-task routing
MT = RB + "MultiTaskReplayBuffer"
SEL = "self.selected_task"
_SET_REMOVERS = ("discard", "remove", "clear", "pop", "difference_update", "intersection_update", "symmetric_difference_update")
_SEQ_ADDERS = {"bisect.insort", "bisect.insort_left", "bisect.insort_right", "heapq.heappush"}


def _single_literal(e):
    """x of the one-element displays [x], (x,), {x}; None otherwise."""
    if isinstance(e, (ast.List, ast.Tuple, ast.Set)) and len(e.elts) == 1 and not isinstance(e.elts[0], ast.Starred):
        return e.elts[0]
    return None


def _active_changes(nf, cfg, mi, fn):
    """Every statement of a method that changes self.active_buffers: (node, how, element expr or None, whole-argument expr or None) with how in
    add | add-many | remove | assign."""
    out = []
    for n in cfg.nodes:
        if n.ast is None or n.kind in ("entry", "exit"):
            continue
        roots = [n.ast] if n.kind == "stmt" else [n.ast.test] if n.kind == "test" and hasattr(n.ast, "test") else [n.ast.iter] if n.kind == "for" else []
        for r in roots:
            for c in ast.walk(r):
                if isinstance(c, ast.Call) and isinstance(c.func, ast.Attribute) and recv_canon(nf, cfg, mi, n, c) == "self.active_buffers":
                    if c.func.attr == "add" and len(c.args) == 1 and not c.keywords:
                        out.append((n, "add", c.args[0], None))
                    elif c.func.attr == "update" and len(c.args) == 1 and not c.keywords:
                        el = _single_literal(c.args[0])
                        out.append((n, "add", el, None) if el is not None else (n, "add-many", None, c.args[0]))
                    elif c.func.attr in _SET_REMOVERS:
                        out.append((n, "remove", None, None))
                    elif c.func.attr in ("append", "insert", "extend", "union_update", "__ior__", "setdefault", "__setitem__"):
                        out.append((n, "add-many", None, c.args[-1] if c.args else None))
                elif isinstance(c, ast.Call) and isinstance(c.func, (ast.Name, ast.Attribute)) and nf.repo.resolve_expr(mi, c.func) in _SEQ_ADDERS and len(c.args) >= 2 \
                        and nf.poly(c.args[0], _as_stored(cfg, mi), n.id).canon() == "self.active_buffers":
                    out.append((n, "add", c.args[1], None))
        s = n.ast
        if n.kind == "stmt" and isinstance(s, (ast.Assign, ast.AugAssign, ast.AnnAssign)) and getattr(s, "value", None) is not None:
            for t in _flat_targets(s):
                # `s |= {x}` on a local that holds the set updates the set itself
                alias = isinstance(s, ast.AugAssign) and isinstance(t, ast.Name) and nf.poly(ast.copy_location(ast.Name(id=t.id, ctx=ast.Load()), t), _as_stored(cfg, mi), n.id).canon() == "self.active_buffers"
                if dotted(t) != "self.active_buffers" and not alias:
                    continue
                v = s.value
                if isinstance(s, ast.AugAssign) and isinstance(s.op, ast.BitOr):
                    el = _single_literal(v)
                    out.append((n, "add", el, None) if el is not None else (n, "add-many", None, v))
                elif isinstance(s, ast.Assign) and isinstance(v, ast.BinOp) and isinstance(v.op, ast.BitOr) and dotted(v.left) == "self.active_buffers":
                    el = _single_literal(v.right)
                    out.append((n, "add", el, None) if el is not None else (n, "add-many", None, v.right))
                elif isinstance(s, ast.AugAssign):
                    out.append((n, "remove", None, None))
                else:
                    out.append((n, "assign", None, v))
    return out


def _as_stored(cfg, mi):
    sc = Scope(cfg, mi, {}, "stored")
    sc.inline_self_attrs = False
    return sc


def _mt_add(ck, repo, nf):
    cq = MT
    fn = _m(repo, cq, "add_sample")
    mi = fn._module
    cfg = nf.cfg_of(fn)
    site = f"{cq}.add_sample"
    adds = stmt_calls(cfg, lambda c: isinstance(c.func, ast.Attribute) and c.func.attr == "add_sample" and _is_base_call(repo, cq, mi, c, "add_sample") is None)
    ck.need(adds, f"{site}: no member add_sample call (anchor vanished)")
    tgt_ok = True
    va, kw = fn.args.vararg.arg if fn.args.vararg else None, fn.args.kwarg.arg if fn.args.kwarg else None
    for n, c in adds:
        rp_ = nf.poly(c.func.value, Scope(cfg, mi, {}, cq), n.id)
        rc = rp_.canon()
        if rc != f"self.buffers[{SEL}]":
            m = nf.meta.get(rp_.single_atom() or "", {})
            if not (m.get("fn") in ("subscript", "proj") and m.get("args") and m["args"][0].canon() == "self.buffers" and rc.startswith("self.buffers[") and ingredient_tokens(Poly.atom(rc[len("self.buffers["):-1])) <= {"self", "selected_task", "sampled_task_idx"}):
                raise AnalysisError(f"{site}: the transition is added to `{rc[:60]}` (unrecognised form)")
            tgt_ok = False        # another, known member: a constant index or another routing attribute
        fwd = [dotted(a.value) if isinstance(a, ast.Starred) else None for a in c.args] == ([va] if va else []) and [(k.arg, dotted(k.value)) for k in c.keywords] == ([(None, kw)] if kw else [])
        if not fwd:
            raise AnalysisError(f"{site}: `{short(c, 60)}` - whether the transition is forwarded unchanged is not decided (unrecognised form)")
    once = on_every_path_once(cfg, [n.id for n, _ in adds])
    ok = tgt_ok and once
    why = "" if ok else ("additions must go to buffers[selected_task] only" if not tgt_ok else "exactly one member buffer receives the transition on every path")
    ck.ob("R5-task-routing", site, "routes-to-selected-task", ok, "; ".join(short(c, 70) for _, c in adds), why, loc(mi, fn))
    # the task that received the transition becomes active
    changes = _active_changes(nf, cfg, mi, fn)
    if not changes:
        raise AnalysisError(f"{site}: no statement that marks a task active found (unrecognised form)")
    if any(how in ("remove", "assign") for _, how, _, _ in changes):
        raise AnalysisError(f"{site}: the active set is rebuilt / reduced here (unrecognised form)")
    shown = "; ".join(short(n.ast, 60) for n, _, _, _ in changes)
    okm, whym = True, ""
    marks = []
    for n, how, el, whole in changes:
        if how == "add-many":
            wp = nf.poly(whole, Scope(cfg, mi, {}, cq), n.id) if whole is not None else None
            if wp is None or not (ingredient_tokens(wp) <= {"range", "len", "self", "buffers", "n_tasks", "arange", "list", "set"}):
                raise AnalysisError(f"{site}: the active set receives `{short(whole, 50) if whole is not None else '?'}` (unrecognised form)")
            okm, whym = False, "every task is marked active, not the one that received the transition"
            continue
        mp = nf.poly(el, Scope(cfg, mi, {}, cq), n.id)
        marked = mp.canon()
        # the task is identified by its index or, equivalently, by its member buffer
        if marked in (SEL, f"self.buffers[{SEL}]"):
            marks.append((n, marked, el))
            nf._c02_active_holds = "id" if marked == SEL else "member"
        elif mp.is_const() or ingredient_tokens(mp) <= {"self", "sampled_task_idx", "buffers"}:
            okm, whym = False, f"`{marked[:40]}` is marked active, not the task that received the transition"
        else:
            raise AnalysisError(f"{site}: the active set receives `{marked[:60]}` (unrecognised form)")
    if okm:
        ids = [n.id for n, _, _ in marks]
        okm = on_every_path_once(cfg, ids)
        if not okm and len(marks) == 1:
            # `if x not in s: s.add(x)` is the unconditional add: the only way around the add is the arm on which x is a member already
            n0, marked, _ = marks[0]
            deps = cfg.control_deps(n0.id)
            member_guard = []
            for b_, lab_ in deps:
                t_ = getattr(cfg.nodes[b_].ast, "test", None)
                neg_ = False
                while isinstance(t_, ast.UnaryOp) and isinstance(t_.op, ast.Not):
                    t_, neg_ = t_.operand, not neg_
                if isinstance(t_, ast.Compare) and len(t_.ops) == 1 and isinstance(t_.ops[0], (ast.In, ast.NotIn)) and nf.poly(t_.comparators[0], _as_stored(cfg, mi), b_).canon() == "self.active_buffers" \
                        and nf.poly(t_.left, Scope(cfg, mi, {}, cq), b_).canon() == marked and ((isinstance(t_.ops[0], ast.NotIn) != neg_) == lab_):
                    member_guard.append(b_)
            if deps and len(member_guard) == len(deps):
                # every path from the entry reaches the membership test exactly once
                okm = on_every_path_once(cfg, [member_guard[-1]])
        if not okm:
            whym = "the task that received the transition is not marked active on every path"
    ck.ob("R5-task-routing", site, "marks-selected-task-active", okm, shown, "" if okm else whym + " (anything else lets sample_batch draw a task without data, or never draw one that has data)", loc(mi, fn))


def _mt_owner(ck, repo, nf):
    """Who may change the active set: only add_sample (and the constructors)."""
    cq = MT
    hits, unread = 0, None
    for c in repo.mro(cq):
        cn = repo.cls(c)
        for meth in cn.body:
            if not isinstance(meth, ast.FunctionDef) or meth.name in ("add_sample", "__init__", "__setstate__", "__getstate__") or repo.method(cq, meth.name)[1] is not meth:
                continue
            meth._module = cn._module
            for n, how, el, whole in _active_changes(nf, nf.cfg_of(meth), cn._module, meth):
                if how in ("add", "add-many"):
                    hits += 1
                    ck.ob("R5-task-routing", f"{cq}.{meth.name}", "active-set-owner", False, short(n.ast, 60), "a task becomes active only when a transition is added to it: marking it elsewhere lets sample_batch draw a task without data", loc(cn._module, n.ast))
                else:
                    unread = unread or f"{cq}.{meth.name}: `{short(n.ast, 60)}` rebuilds / reduces the active set (unrecognised form)"
    if unread:
        raise AnalysisError(unread)
    if not hits:
        ck.ob("R5-task-routing", cq, "active-set-owner", True, "active_buffers is changed only by add_sample", "", loc(repo.cls(cq)._module, repo.cls(cq)))


def _mt_select(ck, repo, nf):
    cq = MT
    fn = _m(repo, cq, "select_task")
    mi = fn._module
    cfg = nf.cfg_of(fn)
    site = f"{cq}.select_task"
    ps = [p for p in param_names(fn) if p != "self"]
    ck.need(ps, f"{site}: no task parameter (anchor vanished)")
    tid = ps[0]
    sets = [n for n in cfg.nodes if n.kind == "stmt" and isinstance(n.ast, (ast.Assign, ast.AnnAssign)) and getattr(n.ast, "value", None) is not None and any(dotted(t) == SEL for t in _flat_targets(n.ast))]
    ck.need(len(sets) >= 1, f"{site}: no assignment of selected_task (unrecognised form)")
    lower = {spec(nf, mi, f"0 <= {tid}"), spec(nf, mi, f"-1 < {tid}")}
    upper = {spec(nf, mi, f"{tid} < len(self.buffers)"), spec(nf, mi, f"{tid} <= len(self.buffers) - 1")}
    rng_form = spec(nf, mi, f"{tid} in range(len(self.buffers))")
    from ..sem import _flatten_and, _negate
    bounds = lower | upper

    def read_use(n) -> bool:
        """A statement that mentions the task id and is read completely: the store, a raise (message), a test made of the bounds only."""
        if n.kind == "stmt" and isinstance(n.ast, ast.Raise):
            return True
        if n.kind == "test" and isinstance(n.ast, ast.If):
            lits = _flatten_and(nf.poly(n.ast.test, Scope(cfg, mi, {}, cq), n.id).canon())
            if len(lits) == 1 and lits[0].startswith("not(") and lits[0].endswith(")"):
                lits = [_negate(x) for x in _flatten_and(lits[0][4:-1])]
            if len(lits) == 1 and lits[0].startswith("or(") and lits[0].endswith(")"):
                lits = [_negate(x) for x in _flatten_and("and(" + lits[0][3:])]
            return all(x in bounds or _negate(x) in bounds for x in lits)
        return False
    mentions = [n for n in cfg.nodes if n.ast is not None and n.kind in ("stmt", "test", "for", "with") and any(isinstance(x, ast.Name) and x.id == tid and isinstance(x.ctx, ast.Load) for x in ast.walk(
        n.ast.test if n.kind == "test" and hasattr(n.ast, "test") else n.ast.iter if n.kind == "for" else n.ast))]
    for st in sets:
        ck.need(len(_flat_targets(st.ast)) == 1, f"{site}: `{short(st.ast, 60)}` (unrecognised form)")
        g = set(guard_literals(nf, cfg, mi, st.id, inline=True))
        vp = nf.poly(st.ast.value, Scope(cfg, mi, {}, cq), st.id)
        val = vp.canon()
        if val != tid:
            raise AnalysisError(f"{site}: selected_task = `{val[:60]}` is not the requested task id (unrecognised form)")
        ok = bool((g & lower and g & upper) or rng_form in g)
        if not ok:
            # evidence of a missing bound: every condition on the task id is one of the bounds this rule reads, and one side is not among them
            about_tid = {x for x in g if tid in ingredient_tokens(Poly.atom(x))}
            if not about_tid <= bounds or not all(n is st or read_use(n) for n in mentions):
                raise AnalysisError(f"{site}: selected_task = {val} under {sorted(g)} - validation not recognised (unrecognised form)")
        ck.ob("R5-task-routing", site, "validated", ok, f"selected_task = {val} under {sorted(g)}", "" if ok else "a task id must be stored only if 0 <= task_id < n_tasks (otherwise additions go to the wrong task via negative indexing, or fail later)", loc(mi, st.ast))


def _mt_sample(ck, repo, nf):
    """The batch comes from one member, and that member is an element of the active set: `buffers[i]` with i an element of active_buffers
    (the set holds task ids) or an element of active_buffers itself (the set holds the member buffers).  An element of the set is what
    `rng.choice(<sequence of the set>)` returns, or *any* position of a sequence built from the set (list / sorted / tuple / array of it)."""
    cq = MT
    fn = _m(repo, cq, "sample_batch")
    mi = fn._module
    cfg = nf.cfg_of(fn)
    site = f"{cq}.sample_batch"
    samples = [(n_, c_) for n_, c_ in stmt_calls(cfg, lambda c: isinstance(c.func, ast.Attribute) and c.func.attr == "sample_batch" and dotted(c.func.value) != "self" and _is_base_call(repo, cq, mi, c, "sample_batch") is None)]
    ck.need(len(samples) == 1, f"{site}: expected one member sample_batch call")
    n, c = samples[0]

    def resolve(e, at):
        """Through local aliases and attributes of self with one dominating single-target assignment in this method: (expression, node where it is evaluated)."""
        for _ in range(10):
            if isinstance(e, ast.Name):
                ds = cfg.defs_of(at, e.id)
                if len(ds) == 1 and ds[0].kind == "assign" and ds[0].value is not None:
                    e, at = ds[0].value, ds[0].node
                    continue
            elif isinstance(e, ast.Attribute) and dotted(e.value) == "self":
                w = [m for m in cfg.nodes if m.kind == "stmt" and isinstance(m.ast, (ast.Assign, ast.AnnAssign)) and getattr(m.ast, "value", None) is not None and any(dotted(t) == dotted(e) for t in _flat_targets(m.ast))]
                if len(w) == 1 and w[0].id != at and cfg.dominates(w[0].id, at) and len(_flat_targets(w[0].ast)) == 1:
                    e, at = w[0].ast.value, w[0].id
                    continue
            elif isinstance(e, ast.Call) and isinstance(e.func, ast.Name) and e.func.id == "int" and len(e.args) == 1 and not e.keywords:
                e = e.args[0]
                continue
            elif isinstance(e, ast.Call) and isinstance(e.func, ast.Attribute) and e.func.attr == "item" and not e.args and not e.keywords:
                e = e.func.value
                continue
            break
        return e, at

    def seq_of_active(e, at, depth=0) -> bool:
        e, at = resolve(e, at)
        if dotted(e) == "self.active_buffers":
            return True
        if depth < 4 and isinstance(e, (ast.List, ast.Tuple, ast.Set)) and e.elts and all(isinstance(x, ast.Starred) and seq_of_active(x.value, at, depth + 1) for x in e.elts):
            return True                                                  # [*active_buffers]
        if depth < 4 and isinstance(e, ast.Call) and e.args and isinstance(e.func, (ast.Name, ast.Attribute)) and (e.func.id if isinstance(e.func, ast.Name) else e.func.attr) in ("list", "sorted", "tuple", "array", "asarray", "fromiter", "frozenset", "set", "permutation", "unique", "sort", "reversed") \
                and not any(isinstance(a_, ast.Starred) for a_ in e.args):
            return seq_of_active(e.args[0], at, depth + 1)
        if depth < 4 and isinstance(e, (ast.ListComp, ast.GeneratorExp)) and len(e.generators) == 1 and isinstance(e.generators[0].target, ast.Name) and dotted(e.elt) == e.generators[0].target.id:
            g_ = e.generators[0]
            # every element passed the membership test `x in active_buffers`, whatever is iterated
            if any(isinstance(t_, ast.Compare) and len(t_.ops) == 1 and isinstance(t_.ops[0], ast.In) and dotted(t_.left) == g_.target.id and seq_of_active(t_.comparators[0], at, depth + 1) for t_ in g_.ifs):
                return True
            return seq_of_active(g_.iter, at, depth + 1)        # a filter keeps a subset of the active tasks
        return False

    def len_of_active(e, at) -> bool:
        e, at = resolve(e, at)
        return isinstance(e, ast.Call) and dotted(e.func) == "len" and len(e.args) == 1 and not e.keywords and seq_of_active(e.args[0], at)

    def all_tasks(e, at) -> bool:
        pp = nf.poly(e, Scope(cfg, mi, {}, cq), at)
        toks = ingredient_tokens(pp)
        return bool(toks & {"buffers", "n_tasks"}) and toks <= {"self", "buffers", "n_tasks", "len", "range", "arange", "list", "tuple", "numpy", "np"}

    def element(e, at, depth=0):
        """(what the expression is an element of: "active" | "all", the expression that shows it), or None."""
        e, at = resolve(e, at)
        if isinstance(e, ast.Name) and depth < 4:
            # several reaching definitions (one per branch): an element of the active set when every one of them is
            ds = cfg.defs_of(at, e.id)
            if len(ds) > 1 and all(d.kind == "assign" and d.value is not None for d in ds):
                got_ = [element(d.value, d.node, depth + 1) for d in ds]
                if any(g_ is None for g_ in got_):
                    return None
                return next((g_ for g_ in got_ if g_[0] != "active"), got_[0])
            return None
        if isinstance(e, ast.Call) and isinstance(e.func, ast.Name) and len(e.args) == 1 and not e.keywords:
            # next(iter(s)), min(s), max(s): one element of s
            inner = e.args[0]
            if e.func.id == "next" and isinstance(inner, ast.Call) and dotted(inner.func) == "iter" and len(inner.args) == 1 and not inner.keywords:
                inner = inner.args[0]
            elif e.func.id not in ("min", "max"):
                inner = None
            if inner is not None and seq_of_active(inner, at):
                return "active", e
        if isinstance(e, ast.Subscript) and not isinstance(e.slice, ast.Slice):
            v, atv = resolve(e.value, at)
            if isinstance(v, ast.Call) and isinstance(v.func, ast.Attribute) and v.func.attr == "choice":
                return element(v, atv)                                   # choice(pop, size=1)[0]
            if seq_of_active(v, atv):
                return "active", e
            return None
        if isinstance(e, ast.Call) and isinstance(e.func, ast.Attribute) and e.func.attr == "choice" and not any(isinstance(a_, ast.Starred) for a_ in e.args) and not any(k.arg is None for k in e.keywords):
            popx = arg_of(e, 0, "a")
            if popx is None:
                return None
            if seq_of_active(popx, at):
                return "active", e
            if all_tasks(popx, at):
                return "all", e
            if len_of_active(popx, at):
                return "position", e
        elif isinstance(e, ast.Call) and isinstance(e.func, ast.Attribute) and e.func.attr in ("integers", "randint"):
            hi = arg_of(e, 1, "high") if (len(e.args) >= 2 or any(k.arg == "high" for k in e.keywords)) else arg_of(e, 0, "low")
            if hi is not None and all_tasks(hi, at):
                return "all", e
            if hi is not None and len_of_active(hi, at):
                return "position", e
        return None
    recv, at_r = resolve(c.func.value, n.id)
    holds = None
    if isinstance(recv, ast.Subscript) and not isinstance(recv.slice, ast.Slice) and dotted(resolve(recv.value, at_r)[0]) == "self.buffers":
        got, holds, shown_member = element(recv.slice, at_r), "id", f"buffers[{short(recv.slice)}]"
    else:
        got, holds, shown_member = element(recv, at_r), "member", short(c.func.value)
    if got is None:
        raise AnalysisError(f"{site}: the member `{short(recv, 60)}` that provides the batch is not read as an element of the active set / of all tasks (unrecognised form)")
    marks = getattr(nf, "_c02_active_holds", None)
    if got[0] == "active" and marks is not None and marks != holds:
        raise AnalysisError(f"{site}: the active set holds task {marks}s but the batch member is chosen as a task {holds} (unrecognised form)")
    from_active = got[0] == "active"
    ck.ob("R5-task-routing", site, "single-active-task", from_active, f"member ~ {short(got[1], 70)}; batch from {shown_member}",
          "" if from_active else "a position in the sequence of active tasks is used as the task itself: with active tasks other than 0..k-1 the batch comes from a task without data" if got[0] == "position"
          else "the member must be drawn among the tasks that already have data (active_buffers), not among all tasks", loc(mi, got[1]))
    isret = isinstance(n.ast, ast.Return)
    if not isret and isinstance(n.ast, ast.Assign) and len(n.ast.targets) == 1 and isinstance(n.ast.targets[0], ast.Name) and n.ast.value is c:
        # `batch = member.sample_batch(...); return batch`
        nm = n.ast.targets[0].id
        rets = [r for r in cfg.nodes if r.kind == "stmt" and isinstance(r.ast, ast.Return)]
        isret = bool(rets) and all(isinstance(r.ast.value, ast.Name) and r.ast.value.id == nm and [d.node for d in cfg.defs_of(r.id, nm)] == [n.id] for r in rets)
    if not isret:
        raise AnalysisError(f"{site}: member batch is post-processed before it is returned (unrecognised idiom)")
    ck.ob("R5-task-routing", site, "returns-member-batch", True, f"return {short(c, 70)}", "", loc(mi, c))


def _mt_len(ck, repo, nf):
    cq = MT
    fn = _m(repo, cq, "__len__")
    cfg = nf.cfg_of(fn)
    site = f"{cq}.__len__"
    rets = [r for r in cfg.nodes if r.kind == "stmt" and isinstance(r.ast, ast.Return) and r.ast.value is not None]
    ck.need(len(rets) == 1, f"{site}: expected one return")
    rv = rets[0].ast.value
    for _ in range(4):
        rv = _peel_len(rv)
        if isinstance(rv, ast.Name):
            ds = cfg.defs_of(rets[0].id, rv.id)
            if len(ds) == 1 and ds[0].kind == "assign":
                rv = ds[0].value
                continue
        break
    tot = False
    if isinstance(rv, ast.Name):
        # the written-out sum:  total = 0 / for b in self.buffers: total += len(b) / return total
        ds = cfg.defs_of(rets[0].id, rv.id)
        zero = [d for d in ds if d.kind == "assign" and isinstance(d.value, ast.Constant) and d.value.value == 0]
        augs = [d for d in ds if d.kind == "aug"]
        if len(ds) == 2 and len(zero) == 1 and len(augs) == 1:
            st = cfg.nodes[augs[0].node].ast
            loops_ = [cfg.nodes[h].ast for h in cfg.enclosing_loops(augs[0].node)]
            if isinstance(st, ast.AugAssign) and isinstance(st.op, ast.Add) and len(loops_) == 1 and isinstance(loops_[0], ast.For) and dotted(loops_[0].iter) == "self.buffers" \
                    and isinstance(loops_[0].target, ast.Name) and not loops_[0].orelse and not any(isinstance(x, (ast.Break, ast.Continue, ast.If)) for x in ast.walk(loops_[0])):
                t = loops_[0].target.id
                el = st.value
                tot = (isinstance(el, ast.Call) and dotted(el.func) == "len" and len(el.args) == 1 and dotted(el.args[0]) == t and not el.keywords) or dotted(el) == f"{t}.current_len"
    if isinstance(rv, ast.Call) and dotted(rv.func) in ("sum", "np.sum", "numpy.sum") and rv.args and not rv.keywords:
        a0 = rv.args[0]
        if isinstance(a0, (ast.GeneratorExp, ast.ListComp)) and len(a0.generators) == 1 and dotted(a0.generators[0].iter) == "self.buffers" and not a0.generators[0].ifs and isinstance(a0.generators[0].target, ast.Name):
            t = a0.generators[0].target.id
            el = a0.elt
            tot = (isinstance(el, ast.Call) and dotted(el.func) == "len" and len(el.args) == 1 and dotted(el.args[0]) == t and not el.keywords) or dotted(el) == f"{t}.current_len" \
                or (isinstance(el, ast.Call) and dotted(el.func) == f"{t}.__len__" and not el.args and not el.keywords)
        if isinstance(a0, ast.Call) and dotted(a0.func) == "map" and len(a0.args) == 2 and dotted(a0.args[0]) == "len" and dotted(a0.args[1]) == "self.buffers":
            tot = True
    if not tot:
        # known other provenance: the length of one member
        vp = nf.poly(rv, Scope(cfg, fn._module, {}, cq), rets[0].id)
        m = nf.meta.get(vp.single_atom() or "", {})
        inner = m["args"][0] if m.get("fn") in ("len", "attr") and m.get("args") else None
        im = nf.meta.get(inner.single_atom() or "", {}) if inner is not None else {}
        if not (im.get("fn") in ("subscript", "proj") and im.get("args") and im["args"][0].canon() == "self.buffers"):
            raise AnalysisError(f"{site}: `{short(rv, 60)}` not recognised as the total over the member buffers")
    ck.ob("R6-length", site, "sum-over-tasks", tot, f"return {short(rv, 70)}", "" if tot else "length must be the total over all task buffers, not that of one member", loc(fn._module, fn))


def _peel_len(e):
    while isinstance(e, ast.Call) and isinstance(e.func, ast.Name) and e.func.id == "int" and len(e.args) == 1 and not e.keywords:
        e = e.args[0]
    return e


def _mt_init(ck, repo, nf):
    """__init__: independent member buffers, nothing active."""
    cq = MT
    fn = _m(repo, cq, "__init__")
    mi = fn._module
    cfg = nf.cfg_of(fn)
    site = f"{cq}.__init__"
    ps = [p for p in param_names(fn) if p != "self"]
    ck.need(ps, f"{site}: no replay buffer parameter (anchor vanished)")
    rb = ps[0]
    apps = stmt_calls(cfg, lambda c: isinstance(c.func, ast.Attribute) and dotted(c.func.value) == "self.buffers" and c.func.attr in ("append", "extend", "insert"))
    inits = [m for m in cfg.nodes if m.kind == "stmt" and isinstance(m.ast, (ast.Assign, ast.AnnAssign)) and getattr(m.ast, "value", None) is not None and any(dotted(t) == "self.buffers" for t in _flat_targets(m.ast))]
    ck.need(inits, f"{site}: no assignment of self.buffers (unrecognised form)")
    aliased = []

    def _members(v):
        """[(element expr, repeated?)] of a list-valued expression, or None when its construction is not read."""
        if isinstance(v, ast.List):
            return [(e, False) for e in v.elts]
        if isinstance(v, ast.ListComp) and len(v.generators) == 1:
            return [(v.elt, True)]
        if isinstance(v, ast.BinOp) and isinstance(v.op, ast.Add):
            a_, b_ = _members(v.left), _members(v.right)
            return None if a_ is None or b_ is None else a_ + b_
        if isinstance(v, ast.BinOp) and isinstance(v.op, ast.Mult):
            for side in (v.left, v.right):
                ms = _members(side)
                if ms is not None:
                    return [(e, True) for e, _r in ms]
            return None
        if isinstance(v, ast.Call) and dotted(v.func) == "list" and len(v.args) == 1 and isinstance(v.args[0], (ast.GeneratorExp, ast.ListComp)):
            return [(v.args[0].elt, True)]
        return None

    def _fresh(e):
        return isinstance(e, ast.Call) and isinstance(e.func, (ast.Name, ast.Attribute)) and repo.resolve_expr(mi, e.func) == "copy.deepcopy" and len(e.args) == 1 and dotted(e.args[0]) == rb
    for m in inits:
        v = m.ast.value
        ms = _members(v)
        if ms is None or len(_flat_targets(m.ast)) != 1:
            raise AnalysisError(f"{site}: member construction `{short(v, 60)}` not recognised")
        bare = [(e, r_) for e, r_ in ms if dotted(e) == rb]
        other = [e for e, r_ in ms if dotted(e) != rb and not _fresh(e)]
        if other:
            raise AnalysisError(f"{site}: member construction `{short(v, 60)}` not recognised")
        # the same object in two slots: a repeated bare element, or more than one bare occurrence (the caller's buffer may be one member)
        if any(r_ for _e, r_ in bare) or len(bare) > 1:
            aliased.append(short(m.ast, 60))
    for n_, c in apps:
        a = c.args[-1] if c.args and not c.keywords else None
        if isinstance(a, ast.Name) and a.id != rb:
            ds = cfg.defs_of(n_.id, a.id)
            if len(ds) == 1 and ds[0].kind == "assign":
                a = ds[0].value
        if a is not None and c.func.attr in ("append", "insert") and dotted(a) == rb:
            aliased.append(short(c, 60))
        elif not (a is not None and c.func.attr in ("append", "insert") and _fresh(a)):
            raise AnalysisError(f"{site}: member construction `{short(c, 60)}` not recognised")
    act = [m for m in cfg.nodes if m.kind == "stmt" and isinstance(m.ast, (ast.Assign, ast.AnnAssign)) and getattr(m.ast, "value", None) is not None and any(dotted(t) == "self.active_buffers" for t in _flat_targets(m.ast))]
    if len(act) != 1 or len(_flat_targets(act[0].ast)) != 1:
        raise AnalysisError(f"{site}: the initial active set is not one assignment (unrecognised form)")
    av = act[0].ast.value
    empty = isinstance(av, ast.Call) and dotted(av.func) == "set" and not av.keywords and (not av.args or (len(av.args) == 1 and isinstance(av.args[0], (ast.List, ast.Tuple)) and not av.args[0].elts))
    if not empty:
        # evidence of a non-empty start: a set display with elements, or set(...) of a non-empty display / a range over the tasks
        nonempty = (isinstance(av, ast.Set) and av.elts) or (isinstance(av, ast.Call) and dotted(av.func) == "set" and len(av.args) == 1 and not av.keywords and (
            (isinstance(av.args[0], (ast.List, ast.Tuple, ast.Set)) and av.args[0].elts) or (isinstance(av.args[0], ast.Call) and dotted(av.args[0].func) == "range")))
        if not nonempty:
            raise AnalysisError(f"{site}: initial active set `{short(av)}` not recognised")
    ok = not aliased and empty
    ck.ob("R5-task-routing", site, "independent-buffers", ok, f"members: first = {rb}, others deep copies; active_buffers initially {short(av)}",
          "" if ok else (f"{aliased} shares one buffer object between tasks: additions to one task appear in the others" if aliased else "no task may be active before data has been added to it"), loc(fn._module, fn))


def _mt_live_copy(ck, repo, nf):
    """A member buffer created later than the constructor must not be a copy of a member that receives transitions: `deepcopy` of a live
    member duplicates the transitions stored so far into the other task (additions then do not go only to the selected task)."""
    cq = MT
    hits = 0
    # attributes that hold the very object that is also a member: `self._prototype = replay_buffer` next to `self.buffers = [replay_buffer, ...]`
    live_aliases = set()
    init = repo.method(cq, "__init__")
    if init is not None:
        ifn = init[1]
        in_members = set()
        for st in ast.walk(ifn):
            if isinstance(st, (ast.Assign, ast.AnnAssign)) and getattr(st, "value", None) is not None and any(dotted(t) == "self.buffers" for t in (st.targets if isinstance(st, ast.Assign) else [st.target])):
                in_members |= {x.id for x in ast.walk(st.value) if isinstance(x, ast.Name) and not any(isinstance(c_, ast.Call) and x in ast.walk(c_) for c_ in ast.walk(st.value))}
            if isinstance(st, ast.Call) and isinstance(st.func, ast.Attribute) and dotted(st.func.value) == "self.buffers" and st.func.attr in ("append", "insert") and st.args and isinstance(st.args[-1], ast.Name):
                in_members.add(st.args[-1].id)
        for st in ast.walk(ifn):
            if isinstance(st, ast.Assign) and isinstance(st.value, ast.Name) and st.value.id in in_members:
                live_aliases |= {dotted(t) for t in st.targets if isinstance(t, ast.Attribute) and dotted(t) != "self.buffers"}
    for c in repo.mro(cq):
        cn = repo.cls(c)
        for meth in cn.body:
            if not isinstance(meth, ast.FunctionDef) or meth.name in ("__init__", "__setstate__", "__getstate__", "__deepcopy__", "__copy__") or repo.method(cq, meth.name)[1] is not meth:
                continue
            mi = cn._module
            for st in ast.walk(meth):
                v = None
                if isinstance(st, (ast.Assign, ast.AnnAssign)) and getattr(st, "value", None) is not None:
                    tg = st.targets if isinstance(st, ast.Assign) else [st.target]
                    if any(isinstance(t, ast.Subscript) and dotted(t.value) == "self.buffers" for t in tg):
                        v = st.value
                elif isinstance(st, ast.Call) and isinstance(st.func, ast.Attribute) and dotted(st.func.value) == "self.buffers" and st.func.attr in ("append", "insert") and st.args:
                    v = st.args[-1]
                if isinstance(v, ast.Call) and isinstance(v.func, (ast.Name, ast.Attribute)) and repo.resolve_expr(mi, v.func) in ("copy.deepcopy", "copy.copy") and len(v.args) >= 1:
                    src = v.args[0]
                    if (isinstance(src, ast.Subscript) and dotted(src.value) == "self.buffers") or (isinstance(src, ast.Attribute) and dotted(src) in live_aliases):
                        hits += 1
                        ck.ob("R5-task-routing", f"{cq}.{meth.name}", "member-from-live-buffer", False, short(st, 70),
                              "a task's buffer is created as a copy of a member that receives transitions: whatever that member holds at that moment is "
                              "duplicated into the other task (its batches then contain transitions that were never added to it)", loc(mi, st))
    if not hits:
        ck.ob("R5-task-routing", cq, "member-from-live-buffer", True, "no member buffer is copied from a live member outside the constructor", "", loc(repo.cls(cq)._module, repo.cls(cq)))


def _multitask(ck, repo, nf):
    for part in (_mt_owner, _mt_add, _mt_select, _mt_sample, _mt_len, _mt_init, _mt_live_copy):
        ck.guard(part, ck, repo, nf)


# ---------------------------------------------------------------------------------------------------------------------------
# R7: whatever replaces or persists the storage keeps every stored row
_ROW_CLASSES = ("ReplayBuffer", "LAP", "PrioritizedReplayBuffer", "SubtrajectoryReplayBuffer", "SubtrajectoryReplayBufferPER")
_COPIES = {"asarray", "array", "copy", "ascontiguousarray", "asanyarray", "deepcopy"}


def _is_storage(cfg, at, e, depth=0) -> bool:
    """The expression is the storage dict: self.buffer, the "buffer" entry of a state dict, or a local that holds one of them."""
    if dotted(e) == "self.buffer":
        return True
    if isinstance(e, ast.Subscript) and isinstance(e.slice, ast.Constant) and e.slice.value == "buffer":
        return True
    if isinstance(e, ast.Name) and depth < 6:
        ds = cfg.defs_of(at, e.id)
        return bool(ds) and all(d.kind == "assign" and d.value is not None and _is_storage(cfg, d.node, d.value, depth + 1) for d in ds)
    return False


def _is_column(cfg, at, e, depth=0) -> bool:
    """The expression is one field's array of the storage: storage[k], the value variable of an iteration over storage.items() / .values(),
    or a local that holds one of them."""
    if isinstance(e, ast.Subscript) and not isinstance(e.slice, ast.Slice) and _is_storage(cfg, at, e.value):
        return True
    if not isinstance(e, ast.Name) or depth > 6:
        return False
    # bound by an enclosing comprehension / for loop over the storage?
    child, par = e, getattr(e, "_parent", None)
    while par is not None and not isinstance(par, (ast.FunctionDef, ast.AsyncFunctionDef, ast.Lambda)):
        gens = par.generators if isinstance(par, (ast.DictComp, ast.ListComp, ast.GeneratorExp, ast.SetComp)) else [par] if isinstance(par, ast.For) and child is not par.iter else []
        for g in gens:
            names = {x.id for x in ast.walk(g.target) if isinstance(x, ast.Name)}
            if e.id not in names:
                continue
            it = g.iter
            while isinstance(it, ast.Call) and isinstance(it.func, ast.Name) and it.func.id in ("list", "tuple", "sorted") and len(it.args) == 1 and not it.keywords:
                it = it.args[0]
            if isinstance(it, ast.Call) and isinstance(it.func, ast.Attribute) and not it.args and not it.keywords and _is_storage(cfg, at, it.func.value):
                if it.func.attr == "values" and isinstance(g.target, ast.Name):
                    return True
                if it.func.attr == "items" and isinstance(g.target, (ast.Tuple, ast.List)) and len(g.target.elts) == 2 and dotted(g.target.elts[1]) == e.id:
                    return True
            return False            # bound by this iteration to something else
        child, par = par, getattr(par, "_parent", None)
    ds = cfg.defs_of(at, e.id)
    return bool(ds) and all(d.kind == "assign" and d.value is not None and _is_column(cfg, d.node, d.value, depth + 1) for d in ds)


def _leading_slice(sub: ast.Subscript):
    """(lower, upper) of `x[lo:hi]`, `x[lo:hi, ...]`, `x[lo:hi, :]`; None for anything that is not a plain restriction of the rows."""
    sl = sub.slice
    if isinstance(sl, ast.Tuple):
        if not sl.elts or not all((isinstance(x, ast.Constant) and x.value is Ellipsis) or (isinstance(x, ast.Slice) and x.lower is None and x.upper is None and x.step is None) for x in sl.elts[1:]):
            return None
        sl = sl.elts[0]
    if not isinstance(sl, ast.Slice) or not (sl.step is None or (isinstance(sl.step, ast.Constant) and sl.step.value == 1)):
        return None
    return sl.lower, sl.upper


def _field_value_position(x):
    """Walk up from an expression through value-transparent wrappers (copies, arms of conditional expressions).  Returns (top, conds, kind):
    kind says where the value ends up - "store" (right-hand side of `target[...] = value` / `target = value`), "entry" (value of a dict comprehension,
    second component of a (key, value) pair of a comprehension, value of a dict display), None (an operand of some other construction)."""
    conds = []
    while True:
        par = getattr(x, "_parent", None)
        if isinstance(par, ast.IfExp) and x is not par.test:
            conds.append((par.test, x is par.body))
            x = par
        elif isinstance(par, ast.Call) and len(par.args) == 1 and par.args[0] is x and isinstance(par.func, (ast.Name, ast.Attribute)) and (par.func.id if isinstance(par.func, ast.Name) else par.func.attr) in _COPIES \
                and all(k.arg in ("dtype", "copy", "order") for k in par.keywords):
            x = par
        elif isinstance(par, ast.Attribute) and par.value is x and par.attr == "copy" and isinstance(getattr(par, "_parent", None), ast.Call) and par._parent.func is par and not par._parent.args and not par._parent.keywords:
            x = par._parent
        else:
            break
    if isinstance(par, (ast.Assign, ast.AnnAssign)) and par.value is x:
        return x, conds, "store"
    if isinstance(par, ast.DictComp) and par.value is x:
        return x, conds, "entry"
    if isinstance(par, ast.Dict) and any(v is x for v in par.values):
        return x, conds, "entry"
    if isinstance(par, ast.Tuple) and len(par.elts) == 2 and par.elts[1] is x and isinstance(getattr(par, "_parent", None), (ast.GeneratorExp, ast.ListComp)) and par._parent.elt is par:
        return x, conds, "entry"
    return x, conds, None


def _storage_sinks(fn, cfg):
    """Statements that replace the storage, a field of it, or the storage entry of a persisted state: [(node, expression that becomes the storage)]."""
    out = []
    for n in cfg.nodes:
        s = n.ast
        if n.kind != "stmt" or s is None:
            continue
        if isinstance(s, (ast.Assign, ast.AnnAssign)) and getattr(s, "value", None) is not None:
            for t in _flat_targets(s):
                if dotted(t) == "self.buffer" or (isinstance(t, ast.Subscript) and (_is_storage(cfg, n.id, t.value) or _is_storage(cfg, n.id, t))):
                    out.append((n, s.value))
        for x in ast.walk(s):
            if isinstance(x, ast.Dict):
                out += [(n, v) for k, v in zip(x.keys, x.values) if isinstance(k, ast.Constant) and k.value == "buffer"]
            elif isinstance(x, ast.Call) and isinstance(x.func, ast.Attribute) and x.func.attr in ("update", "__setitem__", "setdefault") or isinstance(x, ast.Call) and dotted(x.func) in ("dict", "setattr"):
                out += [(n, k.value) for k in x.keywords if k.arg == "buffer"]
                if len(x.args) >= 2 and isinstance(x.args[-2], ast.Constant) and x.args[-2].value == "buffer":
                    out.append((n, x.args[-1]))
    return out


def _reaching_exprs(fn, cfg, at, e, seen, depth=0):
    """The expression and the right-hand sides that build the locals it reads (plain assignments and element stores into those locals)."""
    out = [(at, e)]
    if depth > 4:
        return out
    for x in ast.walk(e):
        if isinstance(x, ast.Name) and isinstance(x.ctx, ast.Load) and x.id not in seen and x.id != "self":
            seen.add(x.id)
            for d in cfg.defs_of(at, x.id):
                if d.kind == "assign" and d.value is not None:
                    out += _reaching_exprs(fn, cfg, d.node, d.value, seen, depth + 1)
            for n in cfg.nodes:
                s = n.ast
                if n.kind == "stmt" and isinstance(s, (ast.Assign, ast.AnnAssign)) and getattr(s, "value", None) is not None and any(isinstance(t, ast.Subscript) and dotted(t.value) == x.id for t in _flat_targets(s)):
                    out += _reaching_exprs(fn, cfg, n.id, s.value, seen, depth + 1)
    return out


def _stored_rows_method(ck, repo, nf, cq, fn):
    mi = fn._module
    site = f"{cq}.{fn.name}"
    cfg = nf.cfg_of(fn)
    sinks = _storage_sinks(fn, cfg)
    if not sinks:
        return 0
    one = Poly.const(1)
    a_idx, a_len, a_cap = (Poly.atom(x, {x}, frozenset()) for x in (IDX, LEN, CAP))
    len_self = nf.poly(parse_expr("len(self)"), Scope(None, mi, {}, site), None).single_atom()

    def norm(p):
        return p.subst({len_self: a_len}) if p.elems is None and len_self and len_self in p.atoms() else p
    invariant = [a_idx, a_cap - a_idx - one, a_len, a_cap - a_len, a_cap - one]
    # a method that also rewrites the ring state (a reset, a restore) gives the rows another meaning: not read
    ring_written = any(isinstance(t, ast.Attribute) and dotted(t) in (IDX, LEN, CAP) for n in cfg.nodes if n.kind == "stmt" and isinstance(n.ast, (ast.Assign, ast.AugAssign, ast.AnnAssign)) for t in _flat_targets(n.ast))

    def covers(hip, facts, depth=0) -> bool:
        """hip >= current_len under the facts: the restriction [:hip] keeps every stored row."""
        if hip.elems is not None:
            return False
        if hip in (a_len, a_cap) or _nonneg(hip - a_len, facts):
            return True
        m = nf.meta.get(hip.single_atom() or "", {})
        f = m.get("fn", "").split(".")[-1] if isinstance(m.get("fn"), str) else ""
        if depth < 3 and m.get("args") and not m.get("kws") and len(m["args"]) >= 2:
            if f in ("max", "maximum"):
                return any(covers(norm(q), facts, depth + 1) for q in m["args"])
            if f in ("min", "minimum"):
                return all(covers(norm(q), facts, depth + 1) for q in m["args"])
        return False
    reads, seen_reads = [], set()
    for n, e in sinks:
        for at, ex in _reaching_exprs(fn, cfg, n.id, e, set()):
            for x in ast.walk(ex):
                if isinstance(x, ast.Subscript) and isinstance(x.ctx, ast.Load) and id(x) not in seen_reads and _leading_slice(x) is not None and _is_column(cfg, at, x.value):
                    seen_reads.add(id(x))
                    reads.append(x)
    count = 0
    for x in reads:
        top, ifconds, kind = _field_value_position(x)
        if kind is None:
            continue                    # an operand of a larger construction (concatenation, arithmetic ...): not a plain restriction of the rows
        lo, hi = _leading_slice(x)
        node = cfg.node_of(x)
        verdicts = []
        for path in _paths(cfg, cfg.entry, {node.id}, site):
            pe = PathEval(nf, cfg, mi, site, {}, self_class=None)
            rp = _RingPath()
            for nid, lab in path[:-1]:
                m_ = cfg.nodes[nid]
                if lab == "exc":
                    raise AnalysisError(f"{site}: exception handlers around `{short(x, 50)}` (unrecognised form)")
                if m_.kind == "test" and hasattr(m_.ast, "test") and lab in (True, False):
                    rp.conds.append((_cond_tree(pe, nf, m_.ast.test, norm), lab, nid))
                elif m_.kind == "stmt" and isinstance(m_.ast, ast.Assert):
                    rp.conds.append((_cond_tree(pe, nf, m_.ast.test, norm), True, nid))
                pe.step(nid, lab)
            for t_, truth in ifconds:
                rp.conds.append((_cond_tree(pe, nf, t_, norm), truth, -1))
            facts, nes, unknown = _path_facts(rp)
            facts = _close(invariant + facts, nes)
            if _nonneg(a_cap - a_len - one, facts):
                facts += [a_idx - a_len, a_len - a_idx]         # before the first wrap the write position is the fill level (ring induction)
            if _infeasible(facts):
                continue
            lop = norm(pe.ev(lo)) if lo is not None else Poly.const(0)
            hip = norm(pe.ev(hi)) if hi is not None else a_cap
            if lop.is_zero() and covers(hip, facts):
                verdicts.append(("ok", hip, lop, None, rp))
                continue

            def drops(st, wi, wl, lop=lop, hip=hip):
                l_, h_ = _num(lop, st), _num(hip, st)
                l_, h_ = (l_ + st[CAP] if l_ < 0 else l_), (h_ + st[CAP] if h_ < 0 else h_)
                return st[LEN] > 0 and (h_ < st[LEN] or l_ > 0)
            w = None
            if _ring_evidence(lop) and _ring_evidence(hip):
                w = _witness(rp, None, drops)
            verdicts.append(("bad", hip, lop, w, rp) if w is not None and not ring_written else ("und", hip, lop, None, rp))
        bad = next((v for v in verdicts if v[0] == "bad"), None)
        und = next((v for v in verdicts if v[0] == "und"), None)
        shown = short(x, 60)
        if bad is not None:
            _, hip, lop, w, rp = bad
            count += 1
            ck.ob("R7-stored-rows-kept", site, f"restriction-keeps-stored-rows:{short(x.value, 20)}", False, f"`{shown}` becomes the field's storage under {[(_show_tree(t), truth) for t, truth, _ in rp.conds]}",
                  f"the rows [0, current_len) hold the stored transitions; from the reachable state {_fmt_state(w)} this restriction keeps rows [{_num(lop, w)}, {_num(hip, w)}) only: stored transitions are lost",
                  loc(mi, x), witness=[f"state {_fmt_state(w)}", f"rows kept: [:{hip.canon()[:60]}] = [:{_num(hip, w)}], stored rows: [:{w[LEN]}]"])
        elif und is not None:
            raise AnalysisError(f"{site}: `{shown}` replaces a storage field - whether rows [0, current_len) are kept is not decided (unrecognised form)")
        elif verdicts:
            count += 1
            ck.ob("R7-stored-rows-kept", site, f"restriction-keeps-stored-rows:{short(x.value, 20)}", True, f"`{shown}` keeps rows [0, current_len)", "", loc(mi, x))
    return count


def _stored_rows(ck, repo, nf):
    """A method (other than the addition itself) that replaces the storage, or the storage entry of the persisted state, by a leading slice of a field keeps rows [0, current_len)."""
    total = 0
    for cname in _ROW_CLASSES:
        cq = RB + cname
        try:
            cn = repo.cls(cq)
        except Exception:
            continue
        for meth in cn.body:
            if not isinstance(meth, ast.FunctionDef) or meth.name in ("add_sample", "__init__"):
                continue
            meth._module = cn._module

            def one(meth=meth, cq=cq):
                nonlocal total
                total += _stored_rows_method(ck, repo, nf, cq, meth)
            ck.guard(one)
    if not total:
        ck.ob("R7-stored-rows-kept", RB + "ReplayBuffer", "restriction-keeps-stored-rows", True, "no method outside add_sample replaces or persists a storage field as a row restriction of it", "", loc(repo.cls(RB + "ReplayBuffer")._module, repo.cls(RB + "ReplayBuffer")))


def run(ck, repo: Repo, tier: str):
    nf = NF(repo, inline_depth=1, inline_calls=False)
    for group in (_ring, _gather, _lengths, _multitask, _stored_rows):
        ck.guard(group, ck, repo, nf)


_F = "rl_blox/blox/replay_buffer.py"
_RING = "        for k, v in sample.items():\n            self.buffer[k][self.insert_idx] = v\n        self.insert_idx = (self.insert_idx + 1) % self.buffer_size\n        self.current_len = min(self.current_len + 1, self.buffer_size)\n\n    def sample_batch(\n        self, batch_size: int, rng: np.random.Generator\n    ) -> tuple[jnp.ndarray]:"
_GS = "    def __getstate__(self):\n        d = dict(self.__dict__)\n        del d[\"Batch\"]\n        return d\n\n    def __setstate__(self, d):\n        self.__dict__.update(d)\n        self.Batch = namedtuple(\"Batch\", self.buffer)\n"
_PAD = "\n    def __setstate__(self, d):\n        self.__dict__.update(d)\n        for name, rows in self.buffer.items():\n            full = np.empty((self.buffer_size,) + rows.shape[1:], dtype=rows.dtype)\n            full[: len(rows)] = rows\n            self.buffer[name] = full\n        self.Batch = namedtuple(\"Batch\", self.buffer)\n"


def _gs(body):
    return "    def __getstate__(self):\n        d = dict(self.__dict__)\n        del d[\"Batch\"]\n" + body + "        return d\n" + _PAD


_STRAT = "        priority = self.priority.priority[:current_len]\n        if mask is not None:\n            priority = priority * mask[:current_len]\n        probabilities = np.cumsum(priority)\n\n        # stratified sampling: divide [0, sum_probability] into batch_size segments\n        segment = probabilities[-1] / batch_size\n\n        # sample one uniform value per segment\n        random_points = rng.uniform(\n            low=np.arange(batch_size) * segment,\n            high=(np.arange(batch_size) + 1) * segment,\n            size=batch_size\n        )\n\n        self.priority.sampled_indices = np.searchsorted(\n            probabilities, random_points\n        )\n        return self.priority.sampled_indices\n"
MUTANTS = [
    {"id": "c02-mt-member-recreated-from-live-template", "file": _F, "rule": "R5", "edits": [('        self.buffers = [replay_buffer]\n        for _ in range(n_tasks - 1):\n            self.buffers.append(copy.deepcopy(replay_buffer))\n', '        self.buffers = [replay_buffer]\n        for _ in range(n_tasks - 1):\n            self.buffers.append(copy.deepcopy(replay_buffer))\n        self._template = replay_buffer\n'), ('        self.buffers[self.selected_task].add_sample(*args, **kwargs)\n        self.active_buffers.add(self.selected_task)\n', '        if self.selected_task not in self.active_buffers and self.selected_task > 0:\n            self.buffers[self.selected_task] = copy.deepcopy(self._template)\n        self.buffers[self.selected_task].add_sample(*args, **kwargs)\n        self.active_buffers.add(self.selected_task)\n')]},
    {"id": "c02-mt-lazy-member-from-live-buffer", "file": _F, "rule": "R5", "find": '        self.buffers[self.selected_task].add_sample(*args, **kwargs)\n        self.active_buffers.add(self.selected_task)\n', "replace": '        if len(self.buffers[self.selected_task]) == 0 and self.selected_task not in self.active_buffers:\n            self.buffers[self.selected_task] = copy.deepcopy(self.buffers[0])\n        self.buffers[self.selected_task].add_sample(*args, **kwargs)\n        self.active_buffers.add(self.selected_task)\n'},
    {"id": "c02-positional-batch-storage-rebuilt", "file": _F, "rule": "R2", "edits": [("        indices = rng.integers(0, self.current_len, batch_size)\n        return self.Batch(\n            **{k: jnp.asarray(self.buffer[k][indices]) for k in self.buffer}\n        )", "        indices = rng.integers(0, self.current_len, batch_size)\n        return self.Batch(\n            *(jnp.asarray(v[indices]) for v in self.buffer.values())\n        )"), ("        if self.current_len == 0:\n            for k, v in sample.items():\n                assert k in self.buffer, f\"{k} not in {self.buffer.keys()}\"\n                self.buffer[k] = np.empty(\n                    (self.buffer_size,) + np.asarray(v).shape,\n                    dtype=self.buffer[k].dtype,\n                )\n        for k, v in sample.items():\n            self.buffer[k][self.insert_idx] = v\n        self.insert_idx =", "        if self.current_len == 0:\n            storage = OrderedDict()\n            for k, v in sample.items():\n                storage[k] = np.empty(\n                    (self.buffer_size,) + np.asarray(v).shape,\n                    dtype=self.buffer[k].dtype,\n                )\n            self.buffer = storage\n        for k, v in sample.items():\n            self.buffer[k][self.insert_idx] = v\n        self.insert_idx =")]},
    {"id": "c02-integers-low-one", "file": _F, "rule": "R3", "find": "        indices = rng.integers(0, self.current_len, batch_size)", "replace": "        indices = rng.integers(1, self.current_len, batch_size)"},
    {"id": "c02-mt-shared-buffers", "file": _F, "rule": "R5", "find": "            self.buffers.append(copy.deepcopy(replay_buffer))", "replace": "            self.buffers.append(replay_buffer)"},
    {"id": "c02-mt-add-to-first", "file": _F, "rule": "R5", "find": "        self.buffers[self.selected_task].add_sample(*args, **kwargs)", "replace": "        self.buffers[0].add_sample(*args, **kwargs)"},
    {"id": "c02-mt-len-selected", "file": _F, "rule": "R6", "find": "        return sum(len(buffer) for buffer in self.buffers)", "replace": "        return len(self.buffers[self.selected_task])"},
    {"id": "c02-lap-add-twice", "file": _F, "rule": "R1", "find": "        self.priority.initialize_priority(self.insert_idx)\n        super().add_sample(**sample)", "replace": "        self.priority.initialize_priority(self.insert_idx)\n        super().add_sample(**sample)\n        if self.current_len == 1:\n            super().add_sample(**sample)"},
    {"id": "c02-mt-active-on-select", "file": _F, "rule": "R5", "find": "        if 0 <= task_id < len(self.buffers):\n            self.selected_task = task_id\n", "replace": "        if 0 <= task_id < len(self.buffers):\n            self.selected_task = task_id\n            self.active_buffers.add(task_id)\n"},
    {"id": "c02-store-by-position", "file": _F, "rule": "R1", "nth": 0, "find": "        for k, v in sample.items():\n            self.buffer[k][self.insert_idx] = v\n        self.insert_idx", "replace": "        for storage, v in zip(self.buffer.values(), sample.values(), strict=True):\n            storage[self.insert_idx] = v\n        self.insert_idx"},
    {"id": "c02-advance-before-store", "file": _F, "rule": "R1", "find": _RING, "replace": _RING.replace("        for k, v in sample.items():\n            self.buffer[k][self.insert_idx] = v\n        self.insert_idx = (self.insert_idx + 1) % self.buffer_size\n", "        self.insert_idx = (self.insert_idx + 1) % self.buffer_size\n        for k, v in sample.items():\n            self.buffer[k][self.insert_idx] = v\n")},
    {"id": "c02-advance-plus-two", "file": _F, "rule": "R1", "find": _RING, "replace": _RING.replace("(self.insert_idx + 1) % self.buffer_size", "(self.insert_idx + 2) % self.buffer_size")},
    {"id": "c02-advance-mod-len", "file": _F, "rule": "R1", "find": _RING, "replace": _RING.replace("(self.insert_idx + 1) % self.buffer_size\n        self.current_len = min", "(self.insert_idx + 1) % max(self.current_len, 1)\n        self.current_len = min")},
    {"id": "c02-len-unbounded", "file": _F, "rule": "R1", "find": _RING, "replace": _RING.replace("min(self.current_len + 1, self.buffer_size)", "self.current_len + 1")},
    {"id": "c02-len-conditional", "file": _F, "rule": "R1", "find": _RING, "replace": _RING.replace("        self.current_len = min(self.current_len + 1, self.buffer_size)", "        if self.insert_idx != 0:\n            self.current_len = min(self.current_len + 1, self.buffer_size)")},
    {"id": "c02-sample-over-capacity", "file": _F, "rule": "R3", "find": "        indices = rng.integers(0, self.current_len, batch_size)", "replace": "        indices = rng.integers(0, self.buffer_size, batch_size)"},
    {"id": "c02-sample-per-field-index", "file": _F, "rule": "R2", "find": "        indices = rng.integers(0, self.current_len, batch_size)\n        return self.Batch(\n            **{k: jnp.asarray(self.buffer[k][indices]) for k in self.buffer}\n        )", "replace": "        return self.Batch(\n            **{\n                k: jnp.asarray(\n                    self.buffer[k][rng.integers(0, self.current_len, batch_size)]\n                )\n                for k in self.buffer\n            }\n        )"},
    {"id": "c02-lap-sampler-capacity", "file": _F, "rule": "R3", "find": "        indices = self.priority.prioritized_sampling(\n            self.current_len, batch_size, rng\n        )", "replace": "        indices = self.priority.prioritized_sampling(\n            self.buffer_size, batch_size, rng\n        )"},
    {"id": "c02-sampler-no-slice", "file": _F, "rule": "R3", "find": "        priority = self.priority[:current_len]\n", "replace": "        priority = self.priority\n"},
    {"id": "c02-alloc-every-time", "file": _F, "rule": "R4", "nth": 0, "find": "        if self.current_len == 0:\n            for k, v in sample.items():", "replace": "        if self.insert_idx == 0:\n            for k, v in sample.items():"},
    {"id": "c02-mt-all-active", "file": _F, "rule": "R5", "find": "        self.active_buffers.add(self.selected_task)", "replace": "        self.active_buffers.update(range(len(self.buffers)))"},
    {"id": "c02-mt-no-validation", "file": _F, "rule": "R5", "find": "        if 0 <= task_id < len(self.buffers):\n            self.selected_task = task_id", "replace": "        if task_id < len(self.buffers):\n            self.selected_task = task_id"},
    {"id": "c02-mt-sample-any", "file": _F, "rule": "R5", "find": "        self.sampled_task_idx = rng.choice(list(self.active_buffers), size=1)[0]", "replace": "        self.sampled_task_idx = rng.choice(len(self.buffers), size=1)[0]"},
    {"id": "c02-len-capacity", "file": _F, "rule": "R6", "nth": 0, "find": "        \"\"\"Return current number of stored transitions in the replay buffer.\"\"\"\n        return self.current_len", "replace": "        \"\"\"Return current number of stored transitions in the replay buffer.\"\"\"\n        return self.buffer_size"},
    {"id": "c02-advance-reset-off-by-one", "file": _F, "rule": "R1", "find": _RING, "replace": _RING.replace("        self.insert_idx = (self.insert_idx + 1) % self.buffer_size\n", "        if self.insert_idx + 1 > self.buffer_size:\n            self.insert_idx = 0\n        else:\n            self.insert_idx += 1\n")},
    {"id": "c02-len-increment-overshoots", "file": _F, "rule": "R1", "find": _RING, "replace": _RING.replace("        self.current_len = min(self.current_len + 1, self.buffer_size)", "        if self.current_len <= self.buffer_size:\n            self.current_len += 1")},
    {"id": "c02-len-high-water-of-advanced-cursor", "file": _F, "rule": "R1", "find": _RING, "replace": _RING.replace("min(self.current_len + 1, self.buffer_size)", "max(self.current_len, self.insert_idx)")},
    {"id": "c02-store-at-current-len", "file": _F, "rule": "R1", "nth": 0, "find": "        for k, v in sample.items():\n            self.buffer[k][self.insert_idx] = v\n        self.insert_idx", "replace": "        for k, v in sample.items():\n            self.buffer[k][self.current_len] = v\n        self.insert_idx"},
    {"id": "c02-alloc-dtype-float", "file": _F, "rule": "R4", "nth": 0, "find": "                    (self.buffer_size,) + np.asarray(v).shape,\n                    dtype=self.buffer[k].dtype,\n", "replace": "                    (self.buffer_size,) + np.asarray(v).shape,\n                    dtype=float,\n"},
    {"id": "c02-alloc-one-row-short", "file": _F, "rule": "R4", "nth": 0, "find": "                    (self.buffer_size,) + np.asarray(v).shape,\n                    dtype=self.buffer[k].dtype,\n", "replace": "                    (self.buffer_size - 1,) + np.asarray(v).shape,\n                    dtype=self.buffer[k].dtype,\n"},
    {"id": "c02-alloc-guard-le-one", "file": _F, "rule": "R4", "nth": 0, "find": "        if self.current_len == 0:\n            for k, v in sample.items():", "replace": "        if self.current_len <= 1:\n            for k, v in sample.items():"},
    {"id": "c02-integers-endpoint-inclusive", "file": _F, "rule": "R3", "find": "        indices = rng.integers(0, self.current_len, batch_size)", "replace": "        indices = rng.integers(0, self.current_len, batch_size, endpoint=True)"},
    {"id": "c02-lap-sampler-insert-idx", "file": _F, "rule": "R3", "find": "        indices = self.priority.prioritized_sampling(\n            self.current_len, batch_size, rng\n        )", "replace": "        indices = self.priority.prioritized_sampling(\n            batch_size=batch_size, rng=rng, current_len=self.insert_idx\n        )"},
    {"id": "c02-mt-mark-sampled-task", "file": _F, "rule": "R5", "find": "        self.active_buffers.add(self.selected_task)", "replace": "        self.active_buffers |= {self.sampled_task_idx}"},
    {"id": "c02-mt-active-ior-on-select", "file": _F, "rule": "R5", "find": "        if 0 <= task_id < len(self.buffers):\n            self.selected_task = task_id\n", "replace": "        if 0 <= task_id < len(self.buffers):\n            self.selected_task = task_id\n            self.active_buffers |= {task_id}\n"},
    {"id": "c02-mt-init-all-active", "file": _F, "rule": "R5", "find": "        self.selected_task = 0\n        self.active_buffers = set()", "replace": "        self.selected_task = 0\n        self.active_buffers: set[int] = set(range(n_tasks))"},
    {"id": "c02-mt-len-first-member", "file": _F, "rule": "R6", "find": "        return sum(len(buffer) for buffer in self.buffers)", "replace": "        total = self.buffers[0].current_len\n        return total"},
    {"id": "c02-lap-len-capacity", "file": _F, "rule": "R6", "find": "    def update_priority(self, priority):\n        self.priority.update_priority(priority)\n\n    def reset_max_priority(self):\n        self.priority.reset_max_priority(self.current_len)\n\nclass PrioritizedReplayBuffer", "replace": "    def __len__(self):\n        return self.buffer_size\n\n    def update_priority(self, priority):\n        self.priority.update_priority(priority)\n\n    def reset_max_priority(self):\n        self.priority.reset_max_priority(self.current_len)\n\nclass PrioritizedReplayBuffer"},
    {"id": "c02-sampler-delegates-with-capacity", "file": _F, "rule": "R3", "find": _STRAT, "replace": "        drawn = self.priority.prioritized_sampling(self.buffer_size, batch_size, rng, mask)\n        return drawn\n"},
    {"id": "c02-pickle-trims-to-write-position", "file": _F, "rule": "R7", "nth": 0, "find": _GS, "replace": _gs("        d[\"buffer\"] = {name: np.array(column[: self.insert_idx]) for name, column in self.buffer.items()}\n")},
    {"id": "c02-pickle-drops-first-row", "file": _F, "rule": "R7", "nth": 0, "find": _GS, "replace": _gs("        kept = OrderedDict()\n        for name in self.buffer:\n            column = self.buffer[name]\n            kept[name] = column[1:] if len(self) else column\n        d[\"buffer\"] = kept\n")},
    {"id": "c02-shrink-to-write-position", "file": _F, "rule": "R7", "nth": 0, "find": _GS, "replace": _GS + "\n    def shrink_to_fit(self):\n        upto = self.insert_idx\n        for name in self.buffer:\n            self.buffer[name] = self.buffer[name][:upto].copy()\n"},
    {"id": "c02-mt-position-in-active-list-as-task", "file": _F, "rule": "R5", "find": "        self.sampled_task_idx = rng.choice(list(self.active_buffers), size=1)[0]", "replace": "        with_data = sorted(self.active_buffers)\n        self.sampled_task_idx = int(rng.integers(len(with_data)))"},
    {"id": "c02-mt-member-drawn-from-all-buffers", "file": _F, "rule": "R5", "find": "        self.sampled_task_idx = rng.choice(list(self.active_buffers), size=1)[0]\n\n        return self.buffers[self.sampled_task_idx].sample_batch(", "replace": "        self.sampled_task_idx = rng.choice(list(self.active_buffers), size=1)[0]\n        member = rng.choice(self.buffers)\n        return member.sample_batch("},
]
_ALLOC = "        if self.current_len == 0:\n            for k, v in sample.items():\n                assert k in self.buffer, f\"{k} not in {self.buffer.keys()}\"\n                self.buffer[k] = np.empty(\n                    (self.buffer_size,) + np.asarray(v).shape,\n                    dtype=self.buffer[k].dtype,\n                )\n        for k, v in sample.items():\n            self.buffer[k][self.insert_idx] = v\n        self.insert_idx = (self.insert_idx + 1) % self.buffer_size\n        self.current_len = min(self.current_len + 1, self.buffer_size)\n\n    def sample_batch(\n        self, batch_size: int, rng: np.random.Generator\n    ) -> tuple[jnp.ndarray]:"
BENIGN = [
    {"id": "c02-b-mt-member-recreated-from-pristine-template", "file": _F, "edits": [('        self.buffers = [replay_buffer]\n        for _ in range(n_tasks - 1):\n            self.buffers.append(copy.deepcopy(replay_buffer))\n', '        self.buffers = [replay_buffer]\n        for _ in range(n_tasks - 1):\n            self.buffers.append(copy.deepcopy(replay_buffer))\n        self._template = copy.deepcopy(replay_buffer)\n'), ('        self.buffers[self.selected_task].add_sample(*args, **kwargs)\n        self.active_buffers.add(self.selected_task)\n', '        if self.selected_task not in self.active_buffers and self.selected_task > 0:\n            self.buffers[self.selected_task] = copy.deepcopy(self._template)\n        self.buffers[self.selected_task].add_sample(*args, **kwargs)\n        self.active_buffers.add(self.selected_task)\n')]},
    {"id": "c02-b-positional-batch", "file": _F, "find": "        indices = rng.integers(0, self.current_len, batch_size)\n        return self.Batch(\n            **{k: jnp.asarray(self.buffer[k][indices]) for k in self.buffer}\n        )", "replace": "        indices = rng.integers(0, self.current_len, batch_size)\n        return self.Batch(\n            *(jnp.asarray(v[indices]) for v in self.buffer.values())\n        )"},
    {"id": "c02-b-lap-init-after", "file": _F, "find": "        self.priority.initialize_priority(self.insert_idx)\n        super().add_sample(**sample)", "replace": "        slot = self.insert_idx\n        super().add_sample(**sample)\n        self.priority.initialize_priority(slot)"},
    {"id": "c02-b-integers-keywords", "file": _F, "find": "        indices = rng.integers(0, self.current_len, batch_size)", "replace": "        indices = rng.integers(low=0, high=len(self), size=batch_size)"},
    {"id": "c02-b-integers-high-only", "file": _F, "find": "        indices = rng.integers(0, self.current_len, batch_size)", "replace": "        indices = rng.integers(self.current_len, size=batch_size)"},
    {"id": "c02-b-len-local", "file": _F, "nth": 0, "find": "        \"\"\"Return current number of stored transitions in the replay buffer.\"\"\"\n        return self.current_len", "replace": "        n = self.current_len\n        return n"},
    {"id": "c02-b-select-raise-first", "file": _F, "find": "        if 0 <= task_id < len(self.buffers):\n            self.selected_task = task_id\n        else:\n            raise ValueError(", "replace": "        if 0 <= task_id < len(self.buffers):\n            pass\n        else:\n            raise ValueError(\"invalid task\")\n        self.selected_task = task_id\n        if False:\n            raise ValueError("},
    {"id": "c02-b-mt-add-alias", "file": _F, "find": "        self.buffers[self.selected_task].add_sample(*args, **kwargs)\n        self.active_buffers.add(self.selected_task)", "replace": "        task = self.selected_task\n        buffer = self.buffers[task]\n        buffer.add_sample(*args, **kwargs)\n        self.active_buffers.add(task)"},
    {"id": "c02-b-mt-len-map", "file": _F, "find": "        return sum(len(buffer) for buffer in self.buffers)", "replace": "        return sum(map(len, self.buffers))"},
    {"id": "c02-b-gather-local-array", "file": _F, "nth": 0, "find": "            **{k: jnp.asarray(self.buffer[k][indices]) for k in self.buffer}", "replace": "            **{name: jnp.asarray(self.buffer[name][indices]) for name in self.buffer.keys()}"},
    {"id": "c02-b-alloc-helper", "file": _F, "find": _ALLOC, "replace": "        if self.current_len == 0:\n            self._allocate(sample)\n        for k, v in sample.items():\n            self.buffer[k][self.insert_idx] = v\n        self.insert_idx = (self.insert_idx + 1) % self.buffer_size\n        self.current_len = min(self.current_len + 1, self.buffer_size)\n\n    def _allocate(self, sample):\n        for k, v in sample.items():\n            assert k in self.buffer\n            self.buffer[k] = np.empty(\n                (self.buffer_size,) + np.asarray(v).shape,\n                dtype=self.buffer[k].dtype,\n            )\n\n    def sample_batch(\n        self, batch_size: int, rng: np.random.Generator\n    ) -> tuple[jnp.ndarray]:"},
    {"id": "c02-b-len-first", "file": _F, "find": _RING, "replace": _RING.replace("        self.insert_idx = (self.insert_idx + 1) % self.buffer_size\n        self.current_len = min(self.current_len + 1, self.buffer_size)", "        self.current_len = min(self.current_len + 1, self.buffer_size)\n        self.insert_idx = (self.insert_idx + 1) % self.buffer_size")},
    {"id": "c02-b-advance-commuted", "file": _F, "find": _RING, "replace": _RING.replace("(self.insert_idx + 1) % self.buffer_size", "(1 + self.insert_idx) % self.buffer_size")},
    {"id": "c02-b-advance-compare-and-reset", "file": _F, "find": _RING, "replace": _RING.replace("        self.insert_idx = (self.insert_idx + 1) % self.buffer_size\n", "        self.insert_idx += 1\n        if self.insert_idx == self.buffer_size:\n            self.insert_idx = 0\n")},
    {"id": "c02-b-advance-conditional-expression", "file": _F, "find": _RING, "replace": _RING.replace("        self.insert_idx = (self.insert_idx + 1) % self.buffer_size\n", "        nxt = self.insert_idx + 1\n        self.insert_idx = 0 if nxt >= self.buffer_size else nxt\n")},
    {"id": "c02-b-len-conditional-increment", "file": _F, "find": _RING, "replace": _RING.replace("        self.current_len = min(self.current_len + 1, self.buffer_size)", "        if self.current_len < self.buffer_size:\n            self.current_len += 1")},
    {"id": "c02-b-len-increment-then-clip", "file": _F, "find": _RING, "replace": _RING.replace("        self.current_len = min(self.current_len + 1, self.buffer_size)", "        self.current_len += 1\n        if self.current_len > self.buffer_size:\n            self.current_len = self.buffer_size")},
    {"id": "c02-b-ring-state-tuple-assignment", "file": _F, "find": _RING, "replace": _RING.replace("        self.insert_idx = (self.insert_idx + 1) % self.buffer_size\n        self.current_len = min(self.current_len + 1, self.buffer_size)", "        capacity = self.buffer_size\n        self.insert_idx, self.current_len = (self.insert_idx + 1) % capacity, min(capacity, 1 + self.current_len)")},
    {"id": "c02-b-store-through-array-alias", "file": _F, "find": _ALLOC, "replace": _ALLOC.replace("        for k, v in sample.items():\n            self.buffer[k][self.insert_idx] = v\n", "        slot = self.insert_idx\n        for name, value in sample.items():\n            column = self.buffer[name]\n            column[slot, ...] = np.asarray(value)\n")},
    {"id": "c02-b-alloc-guard-early-return-helper", "file": _F, "find": _ALLOC, "replace": "        self._ensure_allocated(sample)\n        for k, v in sample.items():\n            self.buffer[k][self.insert_idx] = v\n        self.insert_idx = (self.insert_idx + 1) % self.buffer_size\n        self.current_len = min(self.current_len + 1, self.buffer_size)\n\n    def _ensure_allocated(self, sample):\n        if len(self) > 0:\n            return\n        for k, v in sample.items():\n            shape = (self.buffer_size, *np.shape(v))\n            self.buffer[k] = np.zeros(shape=shape, dtype=self.buffer[k].dtype)\n\n    def sample_batch(\n        self, batch_size: int, rng: np.random.Generator\n    ) -> tuple[jnp.ndarray]:"},
    {"id": "c02-b-ring-in-base-class", "file": _F, "edits": [("class ReplayBuffer:\n    \"\"\"Replay buffer that returns jax arrays.", "class _Ring:\n    def add_sample(self, **sample):\n" + _ALLOC.split("\n\n    def sample_batch(")[0] + "\n\n    def __len__(self):\n        return self.current_len\n\n\nclass ReplayBuffer(_Ring):\n    \"\"\"Replay buffer that returns jax arrays."), ("    def add_sample(self, **sample):\n        \"\"\"Add transition sample to the replay buffer.\n\n        Note that the individual arguments have to be passed as keyword\n        arguments with keys matching the ones passed to the constructor or\n        the default keys respectively.\n        \"\"\"\n" + _ALLOC, "    def sample_batch(\n        self, batch_size: int, rng: np.random.Generator\n    ) -> tuple[jnp.ndarray]:"), ("    def __len__(self):\n        \"\"\"Return current number of stored transitions in the replay buffer.\"\"\"\n        return self.current_len\n\n    def __getstate__", "    def __getstate__")]},
    {"id": "c02-b-integers-local-bound-wrapped", "file": _F, "find": "        indices = rng.integers(0, self.current_len, batch_size)", "replace": "        n = self.current_len\n        drawn = rng.integers(0, n - 1, batch_size, endpoint=True)\n        indices = np.asarray(drawn)"},
    {"id": "c02-b-sampler-length-parameter-renamed", "file": _F, "edits": [("    def prioritized_sampling(\n        self,\n        current_len: int,", "    def prioritized_sampling(\n        self,\n        n_valid: int,"), ("        priority = self.priority[:current_len]\n        if mask is not None:\n            priority = priority * mask[:current_len]\n        probabilities = np.cumsum(priority)\n        random_uniforms", "        priority = self.priority[0:n_valid]\n        if mask is not None:\n            priority = priority * mask[:n_valid]\n        probabilities = np.cumsum(priority)\n        random_uniforms"), ("        self.sampled_indices = np.searchsorted(probabilities, random_uniforms)\n        return self.sampled_indices\n", "        picked = np.searchsorted(probabilities, random_uniforms)\n        self.sampled_indices = picked\n        if mask is None:\n            return picked\n        return self.sampled_indices\n")]},
    {"id": "c02-b-lap-sampler-by-keyword-local", "file": _F, "find": "        indices = self.priority.prioritized_sampling(\n            self.current_len, batch_size, rng\n        )", "replace": "        sampler = self.priority\n        indices = sampler.prioritized_sampling(rng=rng, batch_size=batch_size, current_len=len(self))"},
    {"id": "c02-b-lap-explicit-base-call", "file": _F, "find": "        self.priority.initialize_priority(self.insert_idx)\n        super().add_sample(**sample)", "replace": "        self.priority.initialize_priority(self.insert_idx)\n        ReplayBuffer.add_sample(self, **sample)"},
    {"id": "c02-b-lap-len-through-super", "file": _F, "find": "    def update_priority(self, priority):\n        self.priority.update_priority(priority)\n\n    def reset_max_priority(self):\n        self.priority.reset_max_priority(self.current_len)\n\nclass PrioritizedReplayBuffer", "replace": "    def __len__(self):\n        n = super().__len__()\n        return n\n\n    def update_priority(self, priority):\n        self.priority.update_priority(priority)\n\n    def reset_max_priority(self):\n        self.priority.reset_max_priority(self.current_len)\n\nclass PrioritizedReplayBuffer"},
    {"id": "c02-b-mt-mark-by-set-union", "file": _F, "find": "        self.active_buffers.add(self.selected_task)", "replace": "        active = self.active_buffers\n        active |= {self.selected_task}"},
    {"id": "c02-b-mt-mark-by-update", "file": _F, "find": "        self.active_buffers.add(self.selected_task)", "replace": "        self.active_buffers.update([self.selected_task])"},
    {"id": "c02-b-mt-init-annotated-renamed-parameter", "file": _F, "edits": [("    def __init__(self, replay_buffer, n_tasks: int):\n        self.buffers = [replay_buffer]\n        for _ in range(n_tasks - 1):\n            self.buffers.append(copy.deepcopy(replay_buffer))", "    def __init__(self, prototype, n_tasks: int):\n        self.buffers: list = [prototype]\n        for _ in range(n_tasks - 1):\n            clone = copy.deepcopy(prototype)\n            self.buffers.append(clone)"), ("        self.selected_task = 0\n        self.active_buffers = set()", "        self.selected_task = 0\n        self.active_buffers: set[int] = set()")]},
    {"id": "c02-b-mt-sample-batch-local-keyword-population", "file": _F, "find": "        self.sampled_task_idx = rng.choice(list(self.active_buffers), size=1)[0]\n\n        return self.buffers[self.sampled_task_idx].sample_batch(\n            *args, rng=rng, **kwargs\n        )", "replace": "        self.sampled_task_idx = rng.choice(a=list(self.active_buffers), size=1)[0]\n\n        batch = self.buffers[self.sampled_task_idx].sample_batch(\n            *args, rng=rng, **kwargs\n        )\n        return batch"},
    {"id": "c02-b-mt-len-local-total", "file": _F, "find": "        return sum(len(buffer) for buffer in self.buffers)", "replace": "        total = int(sum([buffer.current_len for buffer in self.buffers]))\n        return total"},
    {"id": "c02-b-sampler-delegates-by-keyword", "file": _F, "find": _STRAT, "replace": "        store = self.priority\n        drawn = store.prioritized_sampling(rng=rng, mask=mask, batch_size=batch_size, current_len=current_len)\n        return drawn\n"},
    {"id": "c02-b-sampler-delegates-on-one-branch", "file": _F, "find": _STRAT, "replace": "        if batch_size == 1:\n            return self.priority.prioritized_sampling(current_len, batch_size, rng, mask)\n" + _STRAT},
    {"id": "c02-b-pickle-trims-to-current-len", "file": _F, "nth": 0, "find": _GS, "replace": _gs("        n = len(self)\n        d[\"buffer\"] = OrderedDict((name, column[:n].copy()) for name, column in self.buffer.items())\n")},
    {"id": "c02-b-pickle-trims-unwrapped-to-write-position", "file": _F, "nth": 0, "find": _GS, "replace": _gs("        if self.current_len < self.buffer_size:\n            d[\"buffer\"] = {name: column[: self.insert_idx] for name, column in self.buffer.items()}\n")},
    {"id": "c02-b-pickle-trims-conditional-expression", "file": _F, "nth": 0, "find": _GS, "replace": _gs("        d[\"buffer\"] = {name: (column if self.current_len == self.buffer_size else column[: max(self.insert_idx, 1)]) for name, column in self.buffer.items()}\n")},
    {"id": "c02-b-slice-in-statistic-not-stored", "file": _F, "nth": 0, "find": _GS, "replace": _GS + "\n    def rows_before_cursor_mean(self):\n        return {name: column[: self.insert_idx].mean() for name, column in self.buffer.items()}\n"},
    {"id": "c02-b-pickle-chronological-pieces", "file": _F, "nth": 0, "find": _GS, "replace": _gs("        i = self.insert_idx\n        d[\"ordered\"] = {name: np.concatenate([column[i:], column[:i]]) for name, column in self.buffer.items()}\n        del d[\"ordered\"]\n")},
    {"id": "c02-b-mt-sample-position-of-sorted-active", "file": _F, "find": "        self.sampled_task_idx = rng.choice(list(self.active_buffers), size=1)[0]\n\n        return self.buffers[self.sampled_task_idx].sample_batch(", "replace": "        with_data = sorted(self.active_buffers)\n        self.sampled_task_idx = with_data[int(rng.integers(len(with_data)))]\n        member = self.buffers[self.sampled_task_idx]\n        return member.sample_batch("},
    {"id": "c02-b-mt-active-set-of-members", "file": _F, "edits": [("        self.buffers[self.selected_task].add_sample(*args, **kwargs)\n        self.active_buffers.add(self.selected_task)", "        member = self.buffers[self.selected_task]\n        member.add_sample(*args, **kwargs)\n        self.active_buffers.add(member)"), ("        self.sampled_task_idx = rng.choice(list(self.active_buffers), size=1)[0]\n\n        return self.buffers[self.sampled_task_idx].sample_batch(", "        pool = [b for b in self.buffers if b in self.active_buffers]\n        chosen = pool[rng.choice(len(pool))]\n        self.sampled_task_idx = self.buffers.index(chosen)\n        return chosen.sample_batch(")]},
    {"id": "c02-b-integers-min-with-capacity", "file": _F, "find": "        indices = rng.integers(0, self.current_len, batch_size)", "replace": "        indices = rng.integers(0, min(self.current_len, self.buffer_size), batch_size)"},
    {"id": "c02-b-len-min-with-capacity", "file": _F, "nth": 0, "find": "        \"\"\"Return current number of stored transitions in the replay buffer.\"\"\"\n        return self.current_len", "replace": "        return min(self.buffer_size, self.current_len)"},
    {"id": "c02-b-lap-sampler-gets-clipped-len", "file": _F, "find": "        indices = self.priority.prioritized_sampling(\n            self.current_len, batch_size, rng\n        )", "replace": "        indices = self.priority.prioritized_sampling(min(len(self), self.buffer_size), batch_size, rng)"},
    {"id": "c02-b-mt-sample-single-task-shortcut", "file": _F, "find": "        self.sampled_task_idx = rng.choice(list(self.active_buffers), size=1)[0]\n\n        return self.buffers[self.sampled_task_idx].sample_batch(", "replace": "        if len(self.active_buffers) == 1:\n            idx = next(iter(self.active_buffers))\n        else:\n            idx = rng.choice(list(self.active_buffers), size=1)[0]\n        self.sampled_task_idx = idx\n        return self.buffers[idx].sample_batch("},
    {"id": "c02-b-mt-sample-star-display-permuted", "file": _F, "find": "        self.sampled_task_idx = rng.choice(list(self.active_buffers), size=1)[0]", "replace": "        with_data = (*self.active_buffers,)\n        self.sampled_task_idx = rng.permutation(with_data)[0]"},
]
