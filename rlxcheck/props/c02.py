"""C02 - replay buffer is a faithful fixed-capacity FIFO of whole transitions (ring premises + sampling structure)."""
from __future__ import annotations

import ast

from ..cfg import CFG
from ..loops import dotted
from ..nf import NF, Scope, Poly, parse_expr
from ..repo import Repo, loc, short, AnalysisError, positional_params, param_names

EXPLANATION = (
    "The checker decides the premises of the ring-buffer induction for ReplayBuffer.add_sample (inherited by LAP / PrioritizedReplayBuffer): "
    "(1) every provided field is stored at the *current* insert index, (2) all stores precede the advance, (3) the advance is "
    "insert' = (insert + 1) mod N, (4) len' = min(len + 1, N), (5) allocation happens only while the buffer is empty with N rows of the "
    "configured dtype. Given (1)-(5) the FIFO statement follows by induction on the number of additions: the slot written by addition n is "
    "n mod N, a slot is overwritten exactly N additions later, hence the buffer holds the last min(n, N) transitions and [0, len) are exactly "
    "the written slots (trusted five-line argument; the premises are what can break in a code change). Sampling: one index vector gathers "
    "every field inside a single comprehension over self.buffer; the index is drawn from [0, current_len) (uniform) or from a sampler that "
    "receives current_len and slices its priorities with it. Multi-task routing: additions go to buffers[selected_task] and mark exactly "
    "that task active, batches come from one active task, select_task stores only validated ids, len is the sum."
)
TRUSTED = ["numpy rng.integers(0, n, size) draws from [0, n); x[indices] gathers rows", "the induction from the five ring premises to the FIFO statement"]
RULES = {
    "R1-ring-law": "stores buffer[k][insert_idx] = v for every provided key precede insert_idx' = (insert_idx + 1) % buffer_size and current_len' = min(current_len + 1, buffer_size)",
    "R2-one-index-vector": "every sample_batch gathers all fields with the same index vector inside one comprehension over self.buffer",
    "R3-index-bound": "the index vector is drawn from [0, current_len): rng.integers(0, self.current_len, ...) or a priority sampler that is given self.current_len and slices with it",
    "R4-allocation": "storage is allocated only under current_len == 0, with (buffer_size,) + value shape and the configured dtype",
    "R5-task-routing": "MultiTaskReplayBuffer: add -> buffers[selected_task] and active_buffers.add(selected_task); sample -> one buffer among active_buffers; select_task validates; update_priority goes to the sampled task",
    "R6-length": "__len__ returns current_len (sum over tasks for the multi-task buffer)",
}

RB = "rl_blox.blox.replay_buffer."


def _m(repo, cq, name):
    m = repo.method(cq, name, inherited=False)
    if m is None:
        raise AnalysisError(f"{cq}.{name} not found (anchor vanished)")
    fn = m[1]
    fn._module = repo.cls(cq)._module
    return fn


def ring_law(ck, repo, nf, cq, rule_prefix="R1-ring-law", allow_extra=False):
    fn = _m(repo, cq, "add_sample")
    mi = fn._module
    cfg = nf.cfg_of(fn)
    site = f"{cq}.add_sample"
    sc = Scope(cfg, mi, {}, site)
    stores, adv, lens, allocs = [], [], [], []
    for n in cfg.nodes:
        s = n.ast
        if n.kind != "stmt" or not isinstance(s, (ast.Assign, ast.AugAssign)):
            continue
        t = s.targets[0] if isinstance(s, ast.Assign) else s.target
        if isinstance(t, ast.Subscript) and isinstance(t.value, ast.Subscript) and dotted(t.value.value) == "self.buffer":
            stores.append((n, t))
        elif isinstance(t, ast.Subscript) and dotted(t.value) == "self.buffer" and isinstance(s, ast.Assign):
            allocs.append((n, s))
        elif dotted(t) == "self.insert_idx":
            adv.append(n)
        elif dotted(t) == "self.current_len":
            lens.append(n)
    return fn, mi, cfg, site, sc, stores, adv, lens, allocs


def run(ck, repo: Repo, tier: str):
    nf = NF(repo, inline_depth=1, inline_calls=False)
    cq = RB + "ReplayBuffer"
    fn, mi, cfg, site, sc, stores, adv, lens, allocs = ring_law(ck, repo, nf, cq)
    where = loc(mi, fn)
    ck.ob("R1-ring-law", site, "single-advance", len(adv) == 1, f"{len(adv)} assignment(s) to insert_idx", "" if len(adv) == 1 else "the write position must advance exactly once per addition", where)
    ck.ob("R1-ring-law", site, "single-length-update", len(lens) == 1, f"{len(lens)} assignment(s) to current_len", "" if len(lens) == 1 else "the length must be updated exactly once per addition", where)
    if len(adv) == 1:
        a = adv[0]
        v = nf.poly(a.ast.value, sc, a.id).canon() if isinstance(a.ast, ast.Assign) else "?"
        ok = v == "mod(1 + self.insert_idx, self.buffer_size)" and not cfg.control_deps(a.id)
        ck.ob("R1-ring-law", site, "advance-mod-capacity", ok, f"insert_idx' = {v}", "" if ok else "must be (insert_idx + 1) % buffer_size, unconditionally", loc(mi, a.ast))
        for n, t in stores:
            idx = nf.poly(t.slice, sc, n.id).canon()
            before = cfg.paths_avoiding(a.id, n.id, set()) is None
            ok = idx == "self.insert_idx" and before
            ck.ob("R1-ring-law", site, f"store-at-insert-idx:{short(t.value.slice, 20)}", ok, f"`{short(n.ast, 60)}`",
                  "" if ok else ("the field is stored at a different index than the write position" if idx != "self.insert_idx" else "the store happens after the write position advanced: the transition is split over two slots"), loc(mi, n.ast))
    ck.ob("R1-ring-law", site, "stores-every-provided-field", len(stores) == 1 and isinstance(getattr(stores[0][0].ast, "_parent", None), ast.For) and ast.unparse(stores[0][0].ast._parent.iter) == "sample.items()"
          and ast.unparse(stores[0][1].value.slice) == "k" and ast.unparse(stores[0][0].ast.value) == "v",
          f"{[short(n.ast, 50) for n, _ in stores]}", "" if len(stores) == 1 else "expected `for k, v in sample.items(): self.buffer[k][self.insert_idx] = v`", where)
    if len(lens) == 1:
        l = lens[0]
        v = nf.poly(l.ast.value, sc, l.id).canon() if isinstance(l.ast, ast.Assign) else "?"
        ok = v == "min(1 + self.current_len, self.buffer_size)" and not cfg.control_deps(l.id)
        ck.ob("R1-ring-law", site, "length-saturates", ok, f"current_len' = {v}", "" if ok else "must be min(current_len + 1, buffer_size), unconditionally", loc(mi, l.ast))
    # R4 allocation (directly in add_sample, or in a helper method called from it)
    alloc_ctx = [(cfg, n, s, n) for n, s in allocs]
    if not allocs:
        for n in cfg.nodes:
            if n.kind == "stmt" and isinstance(n.ast, ast.Expr) and isinstance(n.ast.value, ast.Call) and isinstance(n.ast.value.func, ast.Attribute) and dotted(n.ast.value.func.value) == "self":
                hm = repo.method(cq, n.ast.value.func.attr)
                if hm:
                    hfn = hm[1]
                    hfn._module = mi
                    hcfg = nf.cfg_of(hfn)
                    for m in hcfg.nodes:
                        if m.kind == "stmt" and isinstance(m.ast, ast.Assign) and isinstance(m.ast.targets[0], ast.Subscript) and dotted(m.ast.targets[0].value) == "self.buffer":
                            alloc_ctx.append((hcfg, m, m.ast, n))
    ck.need(len(alloc_ctx) >= 1, f"{site}: storage allocation not found (unrecognised idiom)")
    ck.ob("R4-allocation", site, "single-allocation", len(alloc_ctx) == 1, f"{len(alloc_ctx)} allocation statement(s)", "" if len(alloc_ctx) == 1 else "storage must be allocated in one place", where)
    for acfg, an, s, n in alloc_ctx:
        g = [t for b, lab in cfg.control_deps(n.id) if cfg.nodes[b].kind == "test" for t, v in cfg._lits(cfg.nodes[b].ast.test, lab, b) if v]
        v = nf.poly(s.value, Scope(None, mi, {}, site), None).canon()
        ok = "self.current_len == 0" in g and v == "empty((self.buffer_size) + v.shape, dtype=self.buffer[k].dtype)"
        ck.ob("R4-allocation", site, "empty-buffer-only", ok, f"`{short(s, 90)}` under {g}", "" if ok else "allocation must happen only while the buffer is empty, with buffer_size rows of the value's shape and the configured dtype", loc(mi, s))

    # ---- R2 / R3 sampling ------------------------------------------------------------------------------------------
    for cq, sampler in ((RB + "ReplayBuffer", "uniform"), (RB + "LAP", "priority"), (RB + "PrioritizedReplayBuffer", "stratified")):
        fn = _m(repo, cq, "sample_batch")
        mi = fn._module
        cfg = nf.cfg_of(fn)
        site = f"{cq}.sample_batch"
        comps = [n for n in ast.walk(fn) if isinstance(n, ast.DictComp)]
        ok = len(comps) == 1
        ck.ob("R2-one-index-vector", site, "single-gather", ok, f"{len(comps)} gather comprehension(s)", "" if ok else "all fields must be gathered in one comprehension", loc(mi, fn))
        if not ok:
            continue
        c = comps[0]
        key, val = ast.unparse(c.key), ast.unparse(c.value)
        g = c.generators[0]
        idx_name = None
        m = val
        ok = key == g.target.id and ast.unparse(g.iter) == "self.buffer" and val.startswith("jnp.asarray(self.buffer[k][") and val.endswith("])")
        if ok:
            idx_name = val[len("jnp.asarray(self.buffer[k]["):-2]
            ok = idx_name.isidentifier()
        ck.ob("R2-one-index-vector", site, "same-index-for-all-fields", ok, f"{{{key}: {val} for {g.target.id} in {ast.unparse(g.iter)}}}", "" if ok else "every field must be read as self.buffer[k][<one index vector>] for k in self.buffer", loc(mi, c))
        if not ok:
            continue
        at = cfg.node_of(c).id
        ds = cfg.defs_of(at, idx_name)
        ck.need(len(ds) == 1 and ds[0].kind == "assign", f"{site}: index vector has no single definition")
        src = ds[0].value
        st = ast.unparse(src)
        if sampler == "uniform":
            ok = st == "rng.integers(0, self.current_len, batch_size)"
            ck.ob("R3-index-bound", site, "uniform-over-valid-prefix", ok, f"{idx_name} = {st}", "" if ok else "indices must be rng.integers(0, self.current_len, batch_size): never-written slots beyond current_len must not be returned", loc(mi, src))
        elif sampler == "priority":
            ok = st == "self.priority.prioritized_sampling(self.current_len, batch_size, rng)"
            ck.ob("R3-index-bound", site, "sampler-gets-current-len", ok, f"{idx_name} = {st}", "" if ok else "the priority sampler must be restricted to the first current_len entries", loc(mi, src))
        else:
            ok = st == "self.prioritized_sampling_stratified(self.current_len, batch_size, rng)"
            ck.ob("R3-index-bound", site, "sampler-gets-current-len", ok, f"{idx_name} = {st}", "" if ok else "the stratified sampler must be restricted to the first current_len entries", loc(mi, src))
    # the samplers slice with current_len
    for cq, meth, field in ((RB + "PriorityBuffer", "prioritized_sampling", "self.priority"), (RB + "PrioritizedReplayBuffer", "prioritized_sampling_stratified", "self.priority.priority")):
        fn = _m(repo, cq, meth)
        cfg = nf.cfg_of(fn)
        ds = [n for n in cfg.nodes if n.kind == "stmt" and isinstance(n.ast, ast.Assign) and dotted(n.ast.targets[0]) == "priority" and not cfg.control_deps(n.id)]
        ok = len(ds) == 1 and ast.unparse(ds[0].ast.value) == f"{field}[:current_len]"
        ck.ob("R3-index-bound", f"{cq}.{meth}", "priorities-sliced-to-length", ok, f"priority = {ast.unparse(ds[0].ast.value) if ds else None}", "" if ok else "only the first current_len priorities may take part in sampling", loc(fn._module, fn))
        # searchsorted result is what is returned
        rets = [n for n in ast.walk(fn) if isinstance(n, ast.Return)]
        ok = len(rets) == 1
        ck.ob("R3-index-bound", f"{cq}.{meth}", "single-return", ok, f"{len(rets)} return(s)", "" if ok else "", loc(fn._module, fn))

    # ---- R6 length ----------------------------------------------------------------------------------------------------------
    for cq in (RB + "ReplayBuffer", RB + "SubtrajectoryReplayBuffer"):
        fn = _m(repo, cq, "__len__")
        rets = [n for n in ast.walk(fn) if isinstance(n, ast.Return)]
        ok = len(rets) == 1 and ast.unparse(rets[0].value) == "self.current_len"
        ck.ob("R6-length", f"{cq}.__len__", "returns-current-len", ok, f"return {ast.unparse(rets[0].value) if rets else None}", "" if ok else "length must be the number of stored transitions", loc(fn._module, fn))
    # subclasses must not override the ring methods inconsistently
    for cq in (RB + "LAP", RB + "PrioritizedReplayBuffer"):
        for meth in ("__len__",):
            ck.ob("R6-length", cq, f"inherits:{meth}", repo.method(cq, meth, inherited=False) is None, f"{cq.rsplit('.', 1)[1]} inherits {meth}", "" if repo.method(cq, meth, inherited=False) is None else "overrides the length", cq)
    fn = _m(repo, RB + "LAP", "add_sample")
    calls = [ast.unparse(s) for s in fn.body if not (isinstance(s, ast.Expr) and isinstance(s.value, ast.Constant))]
    ok = calls == ["self.priority.initialize_priority(self.insert_idx)", "super().add_sample(**sample)"]
    ck.ob("R1-ring-law", RB + "LAP.add_sample", "delegates-to-ring", ok, " ; ".join(calls), "" if ok else "LAP must add through the base ring (after initialising the priority of the slot being written)", loc(fn._module, fn))

    # ---- R5 multi-task ----------------------------------------------------------------------------------------------------------
    cq = RB + "MultiTaskReplayBuffer"
    fn = _m(repo, cq, "add_sample")
    body = [ast.unparse(s) for s in fn.body if not (isinstance(s, ast.Expr) and isinstance(s.value, ast.Constant))]
    ok = body == ["self.buffers[self.selected_task].add_sample(*args, **kwargs)", "self.active_buffers.add(self.selected_task)"]
    ck.ob("R5-task-routing", f"{cq}.add_sample", "routes-to-selected-task", ok, " ; ".join(body), "" if ok else "additions must go to buffers[selected_task] only and mark exactly that task active", loc(fn._module, fn))
    # who may change the active set: only add_sample (and __init__)
    mcls = repo.cls(cq)
    for meth in mcls.body:
        if isinstance(meth, ast.FunctionDef) and meth.name not in ("add_sample", "__init__"):
            for x in ast.walk(meth):
                hit = (isinstance(x, ast.Call) and isinstance(x.func, ast.Attribute) and dotted(x.func.value) == "self.active_buffers" and x.func.attr in ("add", "update", "discard", "remove", "clear")) or \
                      (isinstance(x, (ast.Assign, ast.AugAssign)) and dotted(x.targets[0] if isinstance(x, ast.Assign) else x.target) == "self.active_buffers")
                if hit:
                    ck.ob("R5-task-routing", f"{cq}.{meth.name}", "active-set-owner", False, short(x, 60), "a task becomes active only when a transition is added to it: marking it elsewhere lets sample_batch draw a task without data", loc(mcls._module, x))
    ck.ob("R5-task-routing", cq, "active-set-owner", True, "active_buffers is changed only by add_sample", "", loc(mcls._module, mcls))
    fn = _m(repo, cq, "select_task")
    cfg = nf.cfg_of(fn)
    sets = [n for n in cfg.nodes if n.kind == "stmt" and isinstance(n.ast, ast.Assign) and dotted(n.ast.targets[0]) == "self.selected_task"]
    ok = len(sets) == 1 and ast.unparse(sets[0].ast.value) == "task_id"
    g = [t for b, lab in cfg.control_deps(sets[0].id) for t, v in cfg._lits(cfg.nodes[b].ast.test, lab, b) if v] if sets else []
    ok = ok and g == ["0 <= task_id < len(self.buffers)"]
    ck.ob("R5-task-routing", f"{cq}.select_task", "validated", ok, f"selected_task = task_id under {g}", "" if ok else "a task id must be stored only if 0 <= task_id < n_tasks", loc(fn._module, fn))
    fn = _m(repo, cq, "sample_batch")
    txt = "\n".join(ast.unparse(s) for s in fn.body)
    ok = "self.sampled_task_idx = rng.choice(list(self.active_buffers), size=1)[0]" in txt and "return self.buffers[self.sampled_task_idx].sample_batch(*args, rng=rng, **kwargs)" in txt
    ck.ob("R5-task-routing", f"{cq}.sample_batch", "single-active-task", ok, "task ~ active_buffers; batch from buffers[task]", "" if ok else "a batch must come from one task drawn among the tasks that already have data", loc(fn._module, fn))
    fn = _m(repo, cq, "update_priority")
    body = [ast.unparse(s) for s in fn.body if not (isinstance(s, ast.Expr) and isinstance(s.value, ast.Constant))]
    ok = body == ["self.buffers[self.sampled_task_idx].update_priority(priority)"]
    ck.ob("R5-task-routing", f"{cq}.update_priority", "to-sampled-task", ok, " ; ".join(body), "" if ok else "priorities must be written to the task the last batch was drawn from", loc(fn._module, fn))
    fn = _m(repo, cq, "__len__")
    rets = [n for n in ast.walk(fn) if isinstance(n, ast.Return)]
    ok = len(rets) == 1 and ast.unparse(rets[0].value) == "sum((len(buffer) for buffer in self.buffers))"
    ck.ob("R6-length", f"{cq}.__len__", "sum-over-tasks", ok, f"return {ast.unparse(rets[0].value) if rets else None}", "" if ok else "length must be the total over all task buffers", loc(fn._module, fn))
    fn = _m(repo, cq, "__init__")
    txt = "\n".join(ast.unparse(s) for s in fn.body)
    ok = "self.buffers.append(copy.deepcopy(replay_buffer))" in txt and "self.active_buffers = set()" in txt
    ck.ob("R5-task-routing", f"{cq}.__init__", "independent-buffers", ok, "per-task deep copies; no task active initially", "" if ok else "each task needs its own buffer object and no task is active before data is added", loc(fn._module, fn))


_F = "rl_blox/blox/replay_buffer.py"
_RING = "        for k, v in sample.items():\n            self.buffer[k][self.insert_idx] = v\n        self.insert_idx = (self.insert_idx + 1) % self.buffer_size\n        self.current_len = min(self.current_len + 1, self.buffer_size)\n\n    def sample_batch(\n        self, batch_size: int, rng: np.random.Generator\n    ) -> tuple[jnp.ndarray]:"
MUTANTS = [
    {"id": "c02-mt-active-on-select", "file": _F, "rule": "R5", "find": "        if 0 <= task_id < len(self.buffers):\n            self.selected_task = task_id\n", "replace": "        if 0 <= task_id < len(self.buffers):\n            self.selected_task = task_id\n            self.active_buffers.add(task_id)\n"},
    {"id": "c02-store-by-position", "file": _F, "rule": "R1", "nth": 0, "find": "        for k, v in sample.items():\n            self.buffer[k][self.insert_idx] = v\n        self.insert_idx", "replace": "        for storage, v in zip(self.buffer.values(), sample.values(), strict=True):\n            storage[self.insert_idx] = v\n        self.insert_idx"},
    {"id": "c02-advance-before-store", "file": _F, "rule": "R1", "find": _RING, "replace": _RING.replace("        for k, v in sample.items():\n            self.buffer[k][self.insert_idx] = v\n        self.insert_idx = (self.insert_idx + 1) % self.buffer_size\n", "        self.insert_idx = (self.insert_idx + 1) % self.buffer_size\n        for k, v in sample.items():\n            self.buffer[k][self.insert_idx] = v\n")},
    {"id": "c02-advance-plus-two", "file": _F, "rule": "R1", "find": _RING, "replace": _RING.replace("(self.insert_idx + 1) % self.buffer_size", "(self.insert_idx + 2) % self.buffer_size")},
    {"id": "c02-advance-mod-len", "file": _F, "rule": "R1", "find": _RING, "replace": _RING.replace("(self.insert_idx + 1) % self.buffer_size\n        self.current_len = min", "(self.insert_idx + 1) % max(self.current_len, 1)\n        self.current_len = min")},
    {"id": "c02-len-unbounded", "file": _F, "rule": "R1", "find": _RING, "replace": _RING.replace("min(self.current_len + 1, self.buffer_size)", "self.current_len + 1")},
    {"id": "c02-len-conditional", "file": _F, "rule": "R1", "find": _RING, "replace": _RING.replace("        self.current_len = min(self.current_len + 1, self.buffer_size)", "        if self.insert_idx != 0:\n            self.current_len = min(self.current_len + 1, self.buffer_size)")},
    {"id": "c02-sample-over-capacity", "file": _F, "rule": "R3", "find": "        indices = rng.integers(0, self.current_len, batch_size)", "replace": "        indices = rng.integers(0, self.buffer_size, batch_size)"},
    {"id": "c02-sample-per-field-index", "file": _F, "rule": "R2", "find": "        indices = rng.integers(0, self.current_len, batch_size)\n        return self.Batch(\n            **{k: jnp.asarray(self.buffer[k][indices]) for k in self.buffer}\n        )", "replace": "        return self.Batch(\n            **{\n                k: jnp.asarray(\n                    self.buffer[k][rng.integers(0, self.current_len, batch_size)]\n                )\n                for k in self.buffer\n            }\n        )"},
    {"id": "c02-lap-sampler-capacity", "file": _F, "rule": "R3", "find": "        indices = self.priority.prioritized_sampling(\n            self.current_len, batch_size, rng\n        )", "replace": "        indices = self.priority.prioritized_sampling(\n            self.buffer_size, batch_size, rng\n        )"},
    {"id": "c02-sampler-no-slice", "file": _F, "rule": "R3", "find": "        priority = self.priority[:current_len]\n", "replace": "        priority = self.priority\n"},
    {"id": "c02-alloc-every-time", "file": _F, "rule": "R4", "nth": 0, "find": "        if self.current_len == 0:\n            for k, v in sample.items():", "replace": "        if self.insert_idx == 0:\n            for k, v in sample.items():"},
    {"id": "c02-mt-all-active", "file": _F, "rule": "R5", "find": "        self.active_buffers.add(self.selected_task)", "replace": "        self.active_buffers.update(range(len(self.buffers)))"},
    {"id": "c02-mt-no-validation", "file": _F, "rule": "R5", "find": "        if 0 <= task_id < len(self.buffers):\n            self.selected_task = task_id", "replace": "        if task_id < len(self.buffers):\n            self.selected_task = task_id"},
    {"id": "c02-mt-sample-any", "file": _F, "rule": "R5", "find": "        self.sampled_task_idx = rng.choice(list(self.active_buffers), size=1)[0]", "replace": "        self.sampled_task_idx = rng.choice(len(self.buffers), size=1)[0]"},
    {"id": "c02-mt-priority-selected", "file": _F, "rule": "R5", "find": "        self.buffers[self.sampled_task_idx].update_priority(priority)", "replace": "        self.buffers[self.selected_task].update_priority(priority)"},
    {"id": "c02-len-capacity", "file": _F, "rule": "R6", "nth": 0, "find": "        \"\"\"Return current number of stored transitions in the replay buffer.\"\"\"\n        return self.current_len", "replace": "        \"\"\"Return current number of stored transitions in the replay buffer.\"\"\"\n        return self.buffer_size"},
]
_ALLOC = "        if self.current_len == 0:\n            for k, v in sample.items():\n                assert k in self.buffer, f\"{k} not in {self.buffer.keys()}\"\n                self.buffer[k] = np.empty(\n                    (self.buffer_size,) + np.asarray(v).shape,\n                    dtype=self.buffer[k].dtype,\n                )\n        for k, v in sample.items():\n            self.buffer[k][self.insert_idx] = v\n        self.insert_idx = (self.insert_idx + 1) % self.buffer_size\n        self.current_len = min(self.current_len + 1, self.buffer_size)\n\n    def sample_batch(\n        self, batch_size: int, rng: np.random.Generator\n    ) -> tuple[jnp.ndarray]:"
BENIGN = [
    {"id": "c02-b-alloc-helper", "file": _F, "find": _ALLOC, "replace": "        if self.current_len == 0:\n            self._allocate(sample)\n        for k, v in sample.items():\n            self.buffer[k][self.insert_idx] = v\n        self.insert_idx = (self.insert_idx + 1) % self.buffer_size\n        self.current_len = min(self.current_len + 1, self.buffer_size)\n\n    def _allocate(self, sample):\n        for k, v in sample.items():\n            assert k in self.buffer\n            self.buffer[k] = np.empty(\n                (self.buffer_size,) + np.asarray(v).shape,\n                dtype=self.buffer[k].dtype,\n            )\n\n    def sample_batch(\n        self, batch_size: int, rng: np.random.Generator\n    ) -> tuple[jnp.ndarray]:"},
    {"id": "c02-b-len-first", "file": _F, "find": _RING, "replace": _RING.replace("        self.insert_idx = (self.insert_idx + 1) % self.buffer_size\n        self.current_len = min(self.current_len + 1, self.buffer_size)", "        self.current_len = min(self.current_len + 1, self.buffer_size)\n        self.insert_idx = (self.insert_idx + 1) % self.buffer_size")},
    {"id": "c02-b-advance-commuted", "file": _F, "find": _RING, "replace": _RING.replace("(self.insert_idx + 1) % self.buffer_size", "(1 + self.insert_idx) % self.buffer_size")},
]
