"""C02 - replay buffer is a faithful fixed-capacity FIFO of whole transitions (ring premises + sampling structure)."""
from __future__ import annotations

import ast

from ..cfg import CFG
from ..loops import dotted
from ..nf import NF, Scope, Poly, parse_expr
from ..repo import Repo, loc, short, AnalysisError, positional_params, param_names, bind_call
from ..sem import guard_literals, spec, on_every_path_once, stmt_calls, arg_of, recv_canon

EXPLANATION = (
    "The checker decides the premises of the ring-buffer induction for ReplayBuffer.add_sample (inherited by LAP / PrioritizedReplayBuffer): "
    "(1) every provided field is stored at the *current* insert index, (2) all stores precede the advance, (3) the advance is "
    "insert' = (insert + 1) mod N, (4) len' = min(len + 1, N), (5) allocation happens only while the buffer is empty with N rows of the "
    "configured dtype. Given (1)-(5) the FIFO statement follows by induction on the number of additions: the slot written by addition n is "
    "n mod N, a slot is overwritten exactly N additions later, hence the buffer holds the last min(n, N) transitions and [0, len) are exactly "
    "the written slots (trusted five-line argument; the premises are what can break in a code change). Sampling: one index vector gathers "
    "every field inside a single comprehension over self.buffer; the index is drawn from [0, current_len) (uniform) or from a sampler that "
    "receives current_len and slices its priorities with it. Multi-task routing: additions go to buffers[selected_task] and mark exactly "
    "that task active, batches come from one active task, select_task stores only validated ids, len is the sum."
)
TRUSTED = ["numpy rng.integers(0, n, size) draws from [0, n); x[indices] gathers rows", "the induction from the five ring premises to the FIFO statement"]
RULES = {
    "R1-ring-law": "stores buffer[k][insert_idx] = v for every provided key precede insert_idx' = (insert_idx + 1) % buffer_size and current_len' = min(current_len + 1, buffer_size)",
    "R2-one-index-vector": "every sample_batch gathers all fields with the same index vector inside one comprehension over self.buffer",
    "R3-index-bound": "the index vector is drawn from [0, current_len): rng.integers(0, self.current_len, ...) or a priority sampler that is given self.current_len and slices with it",
    "R4-allocation": "storage is allocated only under current_len == 0, with (buffer_size,) + value shape and the configured dtype",
    "R5-task-routing": "MultiTaskReplayBuffer: add -> buffers[selected_task] and active_buffers.add(selected_task); sample -> one buffer among active_buffers; select_task validates (the routing of priority updates is decided under C08)",
    "R6-length": "__len__ returns current_len (sum over tasks for the multi-task buffer)",
}

RB = "rl_blox.blox.replay_buffer."


def _m(repo, cq, name):
    m = repo.method(cq, name, inherited=False)
    if m is None:
        raise AnalysisError(f"{cq}.{name} not found (anchor vanished)")
    fn = m[1]
    fn._module = repo.cls(cq)._module
    return fn


def ring_law(ck, repo, nf, cq, rule_prefix="R1-ring-law", allow_extra=False):
    fn = _m(repo, cq, "add_sample")
    mi = fn._module
    cfg = nf.cfg_of(fn)
    site = f"{cq}.add_sample"
    sc = Scope(cfg, mi, {}, site)
    stores, adv, lens, allocs = [], [], [], []
    for n in cfg.nodes:
        s = n.ast
        if n.kind != "stmt" or not isinstance(s, (ast.Assign, ast.AugAssign)):
            continue
        t = s.targets[0] if isinstance(s, ast.Assign) else s.target
        if isinstance(t, ast.Subscript) and isinstance(t.value, ast.Subscript) and dotted(t.value.value) == "self.buffer":
            stores.append((n, t))
        elif isinstance(t, ast.Subscript) and dotted(t.value) == "self.buffer" and isinstance(s, ast.Assign):
            allocs.append((n, s))
        elif dotted(t) == "self.insert_idx":
            adv.append(n)
        elif dotted(t) == "self.current_len":
            lens.append(n)
    return fn, mi, cfg, site, sc, stores, adv, lens, allocs


def _ring(ck, repo, nf):
    cq = RB + "ReplayBuffer"
    fn, mi, cfg, site, sc, stores, adv, lens, allocs = ring_law(ck, repo, nf, cq)
    where = loc(mi, fn)
    kwarg = fn.args.kwarg.arg if fn.args.kwarg else None
    ck.need(kwarg is not None, f"{site}: the transition is not passed as keyword fields (unrecognised idiom)")
    if not adv or not lens:
        raise AnalysisError(f"{site}: the ring state (insert_idx / current_len) is not written by direct assignments in add_sample (unrecognised form)")
    ck.ob("R1-ring-law", site, "single-advance", len(adv) == 1, f"{len(adv)} assignment(s) to insert_idx", "" if len(adv) == 1 else "the write position must advance exactly once per addition", where)
    ck.ob("R1-ring-law", site, "single-length-update", len(lens) == 1, f"{len(lens)} assignment(s) to current_len", "" if len(lens) == 1 else "the length must be updated exactly once per addition", where)
    # stores through an alias of the storage arrays (positional pairing) are looked for explicitly
    alias_stores = []
    for n in cfg.nodes:
        s_ = n.ast
        if n.kind == "stmt" and isinstance(s_, ast.Assign) and isinstance(s_.targets[0], ast.Subscript) and isinstance(s_.targets[0].value, ast.Name):
            for d in cfg.defs_of(n.id, s_.targets[0].value.id):
                if d.kind == "for" and d.value is not None and "self.buffer" in ast.unparse(d.value):
                    alias_stores.append((n, d))
    for n, d in alias_stores:
        ck.ob("R1-ring-law", site, "store-by-key", False, f"`{short(n.ast, 60)}` with `{short(d.value, 60)}`",
              "the storage array is chosen by *position* in the iteration, not by the field name of the value: keyword arguments in another order land in the wrong field", loc(mi, n.ast))
    if len(adv) == 1:
        a = adv[0]
        v = nf.poly(a.ast.value, sc, a.id).canon() if isinstance(a.ast, ast.Assign) else "?"
        ok = v == "mod(1 + self.insert_idx, self.buffer_size)" and not cfg.control_deps(a.id)
        ck.ob("R1-ring-law", site, "advance-mod-capacity", ok, f"insert_idx' = {v}", "" if ok else "must be (insert_idx + 1) % buffer_size, unconditionally", loc(mi, a.ast))
        for n, t in stores:
            idx = nf.poly(t.slice, Scope(None, mi, {}, site), None).canon()
            before = cfg.paths_avoiding(a.id, n.id, set()) is None
            if isinstance(t.slice, ast.Name):
                # a local that holds the write position: it must have been read before the advance
                ds = cfg.defs_of(n.id, t.slice.id)
                if len(ds) == 1 and ds[0].kind == "assign" and dotted(ds[0].value) == "self.insert_idx":
                    idx = "self.insert_idx"
                    before = cfg.paths_avoiding(a.id, ds[0].node, set()) is None
            ok = idx == "self.insert_idx" and before
            ck.ob("R1-ring-law", site, f"store-at-insert-idx:{short(t.value.slice, 20)}", ok, f"`{short(n.ast, 60)}`",
                  "" if ok else ("the field is stored at a different index than the write position" if idx != "self.insert_idx" else "the store happens after the write position advanced: the transition is split over two slots"), loc(mi, n.ast))
    # every provided field is stored under its own name
    n_named = 0
    for n, t in stores:
        kexpr, vexpr = t.value.slice, n.ast.value
        okk = False
        if isinstance(kexpr, ast.Name) and isinstance(vexpr, ast.Name):
            dk, dv = cfg.defs_of(n.id, kexpr.id), cfg.defs_of(n.id, vexpr.id)
            if len(dk) == 1 and len(dv) == 1 and dk[0].kind == "for" and dv[0].kind == "for" and dk[0].node == dv[0].node and dk[0].path == (0,) and dv[0].path == (1,) \
                    and isinstance(dk[0].value, ast.Call) and isinstance(dk[0].value.func, ast.Attribute) and dk[0].value.func.attr == "items" and dotted(dk[0].value.func.value) == kwarg:
                okk = True
        if isinstance(vexpr, ast.Subscript) and dotted(vexpr.value) == kwarg and ast.dump(vexpr.slice) == ast.dump(kexpr):
            okk = True
        n_named += int(okk)
        if not okk:
            raise AnalysisError(f"{site}: store `{short(n.ast, 60)}` pairs storage and value in a way this check does not recognise")
    if not alias_stores:
        ck.ob("R1-ring-law", site, "stores-every-provided-field", n_named >= 1, f"{[short(n.ast, 50) for n, _ in stores]}", "" if n_named else "the transition is never written into the storage", where)
    if len(lens) == 1:
        l = lens[0]
        v = nf.poly(l.ast.value, sc, l.id).canon() if isinstance(l.ast, ast.Assign) else "?"
        # the length update may read insert_idx only if that is provably the pre-advance value; the canonical form does not read it at all
        ok = v == "min(1 + self.current_len, self.buffer_size)" and not cfg.control_deps(l.id)
        ck.ob("R1-ring-law", site, "length-saturates", ok, f"current_len' = {v}", "" if ok else "must be min(current_len + 1, buffer_size), unconditionally", loc(mi, l.ast))
    # R4 allocation (directly in add_sample, or in a helper method called from it)
    alloc_ctx = [(cfg, n, s, n) for n, s in allocs]
    if not allocs:
        for n in cfg.nodes:
            if n.kind == "stmt" and isinstance(n.ast, ast.Expr) and isinstance(n.ast.value, ast.Call) and isinstance(n.ast.value.func, ast.Attribute) and dotted(n.ast.value.func.value) == "self":
                hm = repo.method(cq, n.ast.value.func.attr)
                if hm:
                    hfn = hm[1]
                    hfn._module = mi
                    hcfg = nf.cfg_of(hfn)
                    for m in hcfg.nodes:
                        if m.kind == "stmt" and isinstance(m.ast, ast.Assign) and isinstance(m.ast.targets[0], ast.Subscript) and dotted(m.ast.targets[0].value) == "self.buffer":
                            alloc_ctx.append((hcfg, m, m.ast, n))
    ck.need(len(alloc_ctx) >= 1, f"{site}: storage allocation not found (unrecognised idiom)")
    ck.ob("R4-allocation", site, "single-allocation", len(alloc_ctx) == 1, f"{len(alloc_ctx)} allocation statement(s)", "" if len(alloc_ctx) == 1 else "storage must be allocated in one place", where)
    EMPTY = {spec(nf, mi, "self.current_len == 0"), spec(nf, mi, "not self.current_len"), spec(nf, mi, "len(self) == 0"), spec(nf, mi, "self.current_len < 1"), "not(self.current_len)"}
    for acfg, an, s, n in alloc_ctx:
        g = guard_literals(nf, cfg, mi, n.id)
        if acfg is not cfg:
            g = g + [x for x in guard_literals(nf, acfg, mi, an.id) if x not in g]   # guards inside the allocation helper count as well
        v = nf.poly(s.value, Scope(None, mi, {}, site), None).canon()
        okg = any(x in EMPTY for x in g)
        # value: np.empty / np.zeros of shape (buffer_size,) + <shape of the provided value>, dtype of the configured storage of the same key
        call = s.value
        okv = False
        if isinstance(call, ast.Call) and dotted(call.func) in ("np.empty", "numpy.empty", "np.zeros", "numpy.zeros", "np.empty_like") and call.args:
            asc = Scope(acfg, mi, {}, site)
            shp = nf.poly(call.args[0], asc, an.id)
            dt = next((k_.value for k_ in call.keywords if k_.arg == "dtype"), call.args[1] if len(call.args) > 1 else None)
            dts = nf.poly(dt, asc, an.id).canon() if dt is not None else ""
            key_txt = nf.poly(s.targets[0].slice, asc, an.id).canon()
            terms = sorted(a_ for a_ in shp.atoms())
            lead = [a_ for a_ in terms if a_.startswith("(")]
            tail = [a_ for a_ in terms if a_.endswith(".shape")]
            ok_shape = len(shp.terms) == 2 and len(lead) == 1 and lead[0] == "(self.buffer_size)" and len(tail) == 1
            ok_dtype = dts == f"self.buffer[{key_txt}].dtype"
            okv = ok_shape and ok_dtype
            if not okv and len(shp.terms) == 2 and len(lead) == 1 and len(tail) == 1 and not ok_shape:
                pass   # wrong leading dimension: violation below
            elif not okv and ok_shape and dts and not ok_dtype:
                pass   # wrong dtype: violation below
            elif not okv:
                raise AnalysisError(f"{site}: allocation `{short(s, 80)}` not recognised")
        else:
            raise AnalysisError(f"{site}: allocation `{short(s, 80)}` not recognised")
        why = ""
        if not okg:
            if any("insert_idx" in x for x in g) or not g:
                why = f"storage is (re)allocated under {g or 'no condition'}: every wrap-around / addition discards the stored transitions"
            else:
                raise AnalysisError(f"{site}: allocation guard {g} not recognised")
        elif not okv:
            why = "allocation must create buffer_size rows of the value's shape with the configured dtype"
        ck.ob("R4-allocation", site, "empty-buffer-only", okg and okv, f"`{short(s, 90)}` under {g}", why, loc(mi, s))


def _gather(ck, repo, nf):
    """R2 / R3: one index vector for all fields, drawn from the valid prefix."""
    for cq, sampler in ((RB + "ReplayBuffer", "uniform"), (RB + "LAP", "priority"), (RB + "PrioritizedReplayBuffer", "stratified")):
        fn = _m(repo, cq, "sample_batch")
        mi = fn._module
        cfg = nf.cfg_of(fn)
        site = f"{cq}.sample_batch"
        from ..sem import field_gathers, storage_rebindings
        fg = field_gathers(fn)
        ck.need(fg, f"{site}: no per-field gather `self.buffer[k][indices]` inside an iteration over self.buffer found (unrecognised idiom)")
        gathers = [g_["sub"] for g_ in fg]
        idx_exprs = {ast.dump(g_["index"]): g_["index"] for g_ in fg}
        loop_vars = set().union(*[g_["vars"] for g_ in fg])
        one = len(idx_exprs) == 1
        ix = next(iter(idx_exprs.values()))
        fresh = any(isinstance(x, ast.Call) for x in ast.walk(ix))
        key_dep = any(isinstance(x, ast.Name) and x.id in loop_vars for x in ast.walk(ix))
        ok = one and not fresh and not key_dep
        ck.ob("R2-one-index-vector", site, "same-index-for-all-fields", ok, f"fields gathered at {[short(v, 40) for v in idx_exprs.values()]}",
              "" if ok else "every field of a batch row must be read with the same, once-drawn index vector: an index computed per field (fresh draw / field-dependent) mixes transitions", loc(mi, ix))
        # how does a gathered column meet its field of the Batch?
        pairings = {g_["pairing"] for g_ in fg}
        if None in pairings:
            raise AnalysisError(f"{site}: how the gathered columns are paired with the fields of the batch is not recognised")
        if "position" in pairings:
            # positional: column order == iteration order of self.buffer; the Batch type was derived from the dict's keys when the object was
            # built, so the dict must never be replaced by one with another key order
            reb = storage_rebindings(repo, cq)
            bad_reb = []
            for mq_, st_ in reb:
                v_ = st_.value
                keeps = any(isinstance(c_, (ast.DictComp, ast.GeneratorExp, ast.ListComp)) and any(dotted(g2.iter) == "self.buffer" or (isinstance(g2.iter, ast.Call) and isinstance(g2.iter.func, ast.Attribute) and dotted(g2.iter.func.value) == "self.buffer") for g2 in c_.generators) for c_ in ast.walk(v_))
                if not keeps:
                    bad_reb.append((mq_, st_))
            okp = not bad_reb
            if bad_reb:
                # where do the new dict's keys come from?  (a local filled in a loop over something else than self.buffer)
                mq_, st_ = bad_reb[0]
                src_ = None
                if isinstance(st_.value, ast.Name):
                    mfn = repo.method(mq_.rsplit(".", 1)[0], mq_.rsplit(".", 1)[1], inherited=False)
                    for lp in ast.walk(mfn[1]) if mfn else []:
                        if isinstance(lp, ast.For) and any(isinstance(a_, ast.Assign) and isinstance(a_.targets[0], ast.Subscript) and dotted(a_.targets[0].value) == st_.value.id for a_ in ast.walk(lp)):
                            src_ = lp.iter
                if src_ is None or "self.buffer" in ast.unparse(src_):
                    raise AnalysisError(f"{site}: the batch is built positionally and `{short(st_, 60)}` replaces the storage dict - whether the key order is kept is not decided")
                ck.ob("R2-one-index-vector", site, "columns-meet-their-fields", False, f"positional batch `{short(fg[0]['owner'], 50)}`; `{short(st_, 50)}` in {mq_.rsplit('.', 1)[1]} rebuilds the dict in the order of `{short(src_, 30)}`",
                      "the batch fields are filled by position in the iteration order of self.buffer, but the storage dict is re-created with the key order of the first added sample's keywords: with another keyword order every field of a sampled row carries another field's data", loc(mi, fg[0]["owner"]))
            else:
                ck.ob("R2-one-index-vector", site, "columns-meet-their-fields", True, "positional batch; the storage dict is never replaced after construction (key order == Batch field order)", "", loc(mi, fg[0]["owner"]))
        if not ok or not isinstance(ix, ast.Name):
            if ok:
                raise AnalysisError(f"{site}: index expression `{short(ix)}` is not a variable (unrecognised idiom)")
            continue
        at = cfg.node_of(gathers[0]).id
        ds = cfg.defs_of(at, ix.id)
        ck.need(len(ds) == 1 and ds[0].kind == "assign" and isinstance(ds[0].value, ast.Call), f"{site}: index vector has no single defining call")
        src = ds[0].value
        LEN = "self.current_len"
        sc0 = Scope(None, mi, {}, site)
        if sampler == "uniform":
            f = src.func
            ck.need(isinstance(f, ast.Attribute) and f.attr in ("integers", "randint", "choice"), f"{site}: index vector drawn by `{short(src, 50)}` (unrecognised idiom)")
            if f.attr == "choice":
                hi, lo = arg_of(src, 0, "a"), None
            elif len(src.args) >= 2 or any(k.arg == "high" for k in src.keywords):
                lo, hi = arg_of(src, 0, "low"), arg_of(src, 1, "high")
            else:
                lo, hi = None, arg_of(src, 0, "low")
            his = nf.poly(hi, sc0, None).canon() if hi is not None else "?"
            los = nf.poly(lo, sc0, None).canon() if lo is not None else "0"
            ok = his in (LEN, "len(self)") and los == "0"
            ck.ob("R3-index-bound", site, "uniform-over-valid-prefix", ok, f"{ix.id} = {short(src, 60)}: range [{los}, {his})",
                  "" if ok else "indices must be drawn from [0, current_len): slots beyond current_len were never written (and a positive lower bound never returns the oldest transitions)", loc(mi, src))
        else:
            callee = repo.method(RB + "PriorityBuffer", "prioritized_sampling")[1] if sampler == "priority" else repo.method(cq, "prioritized_sampling_stratified")[1]
            want_recv = "self.priority.prioritized_sampling" if sampler == "priority" else "self.prioritized_sampling_stratified"
            ck.need(dotted(src.func) == want_recv, f"{site}: index vector drawn by `{short(src, 50)}` (unrecognised idiom)")
            b = bind_call(callee, src, skip_self=True)
            got = nf.poly(b["current_len"], sc0, None).canon() if "current_len" in b else "?"
            ok = got in (LEN, "len(self)")
            ck.ob("R3-index-bound", site, "sampler-gets-current-len", ok, f"{ix.id} = {short(src, 70)}: current_len <- {got}", "" if ok else "the priority sampler must be restricted to the first current_len entries", loc(mi, src))
    # the samplers restrict the priorities to [:current_len]: every occurrence of the stored priorities in the sampled distribution is sliced
    from ..sympath import enumerate_paths, PathEval
    for cq, meth, field in ((RB + "PriorityBuffer", "prioritized_sampling", "self.priority"), (RB + "PrioritizedReplayBuffer", "prioritized_sampling_stratified", "self.priority.priority")):
        fn = _m(repo, cq, meth)
        mi = fn._module
        cfg = nf.cfg_of(fn)
        rets = [n for n in cfg.nodes if n.kind == "stmt" and isinstance(n.ast, ast.Return)]
        ck.ob("R3-index-bound", f"{cq}.{meth}", "single-return", len(rets) == 1, f"{len(rets)} return(s)", "" if len(rets) == 1 else "the sampler must have one exit", loc(mi, fn))
        if len(rets) != 1:
            continue
        env = {p: Poly.atom(p, {p}, {p}) for p in positional_params(fn)}
        bad, seen = [], 0
        for p in enumerate_paths(cfg, cfg.entry, {rets[0].id}):
            pe = PathEval(nf, cfg, mi, f"{cq}.{meth}", env).run(p[:-1])
            txt = pe.ev(rets[0].ast.value).canon()
            if txt.startswith("self.") and txt in pe.store:
                txt = pe.store[txt].canon()
            txt2 = txt
            for k, v in pe.store.items():
                if k in txt2:
                    txt2 = txt2.replace(k, v.canon())
            seen += txt2.count(field + "[")
            rest = txt2.replace(field + "[:current_len]", "")
            if field in rest.replace(field + ".", "§.") if field == "self.priority" else field in rest:
                bad.append(txt2[:120])
        ok = not bad and seen > 0
        if seen == 0 and not bad:
            raise AnalysisError(f"{cq}.{meth}: stored priorities do not occur in the returned indices (unrecognised idiom)")
        ck.ob("R3-index-bound", f"{cq}.{meth}", "priorities-sliced-to-length", ok, f"every use of {field} in the sampled distribution is {field}[:current_len]", "" if ok else f"an unsliced use of the priority store takes part in sampling ({bad[:1]}): never-written slots can be drawn", loc(mi, fn))


def _lengths(ck, repo, nf):
    for cq in (RB + "ReplayBuffer", RB + "SubtrajectoryReplayBuffer"):
        fn = _m(repo, cq, "__len__")
        mi = fn._module
        cfg = nf.cfg_of(fn)
        rets = [n for n in cfg.nodes if n.kind == "stmt" and isinstance(n.ast, ast.Return)]
        vals = {nf.poly(r.ast.value, Scope(cfg, mi, {}, cq), r.id).canon() for r in rets}
        ok = vals == {"self.current_len"}
        ck.ob("R6-length", f"{cq}.__len__", "returns-current-len", ok, f"return {sorted(vals)}", "" if ok else "length must be the number of stored transitions", loc(mi, fn))
    for cq in (RB + "LAP", RB + "PrioritizedReplayBuffer"):
        own = repo.method(cq, "__len__", inherited=False)
        if own is not None:
            fn = own[1]
            vals = {nf.poly(r.value, Scope(None, repo.cls(cq)._module, {}, cq), None).canon() for r in ast.walk(fn) if isinstance(r, ast.Return)}
            ok = vals <= {"self.current_len", "super().__len__()"}
            ck.ob("R6-length", cq, "inherits:__len__", ok, f"{cq.rsplit('.', 1)[1]}.__len__ returns {sorted(vals)}", "" if ok else "overrides the length with something else than the number of stored transitions", cq)
        else:
            ck.ob("R6-length", cq, "inherits:__len__", True, f"{cq.rsplit('.', 1)[1]} inherits __len__", "", cq)
    # LAP adds through the base ring: exactly one super().add_sample(**sample) on every path, no ring state written here
    fn = _m(repo, RB + "LAP", "add_sample")
    mi = fn._module
    cfg = nf.cfg_of(fn)
    kwarg = fn.args.kwarg.arg if fn.args.kwarg else None
    sup = stmt_calls(cfg, lambda c: ast.unparse(c.func) == "super().add_sample")
    fwd = all(len(c.args) == 0 and len(c.keywords) == 1 and c.keywords[0].arg is None and dotted(c.keywords[0].value) == kwarg for _, c in sup)
    once = on_every_path_once(cfg, [n.id for n, _ in sup])
    ring_writes = [short(n.ast, 50) for n in cfg.nodes if n.kind == "stmt" and isinstance(n.ast, (ast.Assign, ast.AugAssign)) and any(
        (dotted(t) in ("self.insert_idx", "self.current_len")) or (isinstance(t, ast.Subscript) and (dotted(t.value) or "").startswith("self.buffer")) or (isinstance(t, ast.Subscript) and isinstance(t.value, ast.Subscript) and dotted(t.value.value) == "self.buffer")
        for t in (n.ast.targets if isinstance(n.ast, ast.Assign) else [n.ast.target]))]
    ok = once and fwd and not ring_writes
    why = ""
    if not once:
        why = "the transition must be added to the base ring exactly once on every path"
    elif not fwd:
        why = "the transition fields must be forwarded unchanged (**sample)"
    elif ring_writes:
        why = f"LAP.add_sample writes ring state itself: {ring_writes}"
    ck.ob("R1-ring-law", RB + "LAP.add_sample", "delegates-to-ring", ok, f"{len(sup)} super().add_sample call(s); ring writes {ring_writes}", why, loc(mi, fn))


def _multitask(ck, repo, nf):
    cq = RB + "MultiTaskReplayBuffer"
    fn = _m(repo, cq, "add_sample")
    mi = fn._module
    cfg = nf.cfg_of(fn)
    sc0 = Scope(None, mi, {}, cq)
    SEL = "self.selected_task"
    adds = stmt_calls(cfg, lambda c: isinstance(c.func, ast.Attribute) and c.func.attr == "add_sample")
    ck.need(adds, f"{cq}.add_sample: no member add_sample call (anchor vanished)")
    tgt_ok, fwd_ok = True, True
    for n, c in adds:
        ok_r = nf.poly(c.func.value, Scope(cfg, mi, {}, cq), n.id).canon() == f"self.buffers[{SEL}]"
        tgt_ok &= ok_r
        va, kw = fn.args.vararg.arg if fn.args.vararg else None, fn.args.kwarg.arg if fn.args.kwarg else None
        fwd_ok &= [ast.unparse(a) for a in c.args] == ([f"*{va}"] if va else []) and [(k.arg, dotted(k.value)) for k in c.keywords] == ([(None, kw)] if kw else [])
    once = on_every_path_once(cfg, [n.id for n, _ in adds])
    ok = tgt_ok and fwd_ok and once
    why = "" if ok else ("additions must go to buffers[selected_task] only" if not tgt_ok else "the transition must be forwarded unchanged" if not fwd_ok else "exactly one member buffer receives the transition on every path")
    ck.ob("R5-task-routing", f"{cq}.add_sample", "routes-to-selected-task", ok, "; ".join(short(c, 70) for _, c in adds), why, loc(mi, fn))
    marks = stmt_calls(cfg, lambda c: isinstance(c.func, ast.Attribute) and dotted(c.func.value) == "self.active_buffers")
    okm = False
    if len(marks) == 1 and marks[0][1].func.attr == "add" and len(marks[0][1].args) == 1:
        marked = nf.poly(marks[0][1].args[0], Scope(cfg, mi, {}, cq), marks[0][0].id).canon()
        # the task is identified by its index or, equivalently, by its member buffer
        if marked in (SEL, f"self.buffers[{SEL}]"):
            okm = on_every_path_once(cfg, [marks[0][0].id])
            if not okm:
                # `if x not in s: s.add(x)` is the unconditional add: the only way around the add is the arm on which x is a member already
                deps = cfg.control_deps(marks[0][0].id)
                member_guard = []
                for b_, lab_ in deps:
                    t_ = getattr(cfg.nodes[b_].ast, "test", None)
                    neg_ = False
                    while isinstance(t_, ast.UnaryOp) and isinstance(t_.op, ast.Not):
                        t_, neg_ = t_.operand, not neg_
                    if isinstance(t_, ast.Compare) and len(t_.ops) == 1 and isinstance(t_.ops[0], (ast.In, ast.NotIn)) and dotted(t_.comparators[0]) == "self.active_buffers" \
                            and nf.poly(t_.left, Scope(cfg, mi, {}, cq), b_).canon() == marked and ((isinstance(t_.ops[0], ast.NotIn) != neg_) == lab_):
                        member_guard.append(b_)
                if deps and len(member_guard) == len(deps):
                    # every path from the entry reaches the membership test exactly once
                    okm = on_every_path_once(cfg, [member_guard[-1]])
        elif "selected_task" in marked:
            raise AnalysisError(f"{cq}.add_sample: the active set receives `{marked[:60]}` (unrecognised form)")
    ck.ob("R5-task-routing", f"{cq}.add_sample", "marks-selected-task-active", okm, "; ".join(short(c, 60) for _, c in marks), "" if okm else "exactly the task that received the transition becomes active (anything else lets sample_batch draw a task without data, or never draw one that has data)", loc(mi, fn))
    # who may change the active set: only add_sample (and __init__)
    mcls = repo.cls(cq)
    for meth in mcls.body:
        if isinstance(meth, ast.FunctionDef) and meth.name not in ("add_sample", "__init__"):
            for x in ast.walk(meth):
                hit = (isinstance(x, ast.Call) and isinstance(x.func, ast.Attribute) and dotted(x.func.value) == "self.active_buffers" and x.func.attr in ("add", "update", "discard", "remove", "clear", "pop", "difference_update", "intersection_update")) or \
                      (isinstance(x, (ast.Assign, ast.AugAssign)) and dotted(x.targets[0] if isinstance(x, ast.Assign) else x.target) == "self.active_buffers")
                if hit:
                    ck.ob("R5-task-routing", f"{cq}.{meth.name}", "active-set-owner", False, short(x, 60), "a task becomes active only when a transition is added to it: marking it elsewhere lets sample_batch draw a task without data", loc(mcls._module, x))
    ck.ob("R5-task-routing", cq, "active-set-owner", True, "active_buffers is changed only by add_sample", "", loc(mcls._module, mcls))
    # select_task validates
    fn = _m(repo, cq, "select_task")
    cfg = nf.cfg_of(fn)
    tid = [p for p in positional_params(fn) if p != "self"][0]
    sets = [n for n in cfg.nodes if n.kind == "stmt" and isinstance(n.ast, ast.Assign) and dotted(n.ast.targets[0]) == SEL]
    ck.need(len(sets) >= 1, f"{cq}.select_task: no assignment of selected_task")
    for st in sets:
        g = set(guard_literals(nf, cfg, mi, st.id, inline=True))
        val = nf.poly(st.ast.value, Scope(cfg, mi, {}, cq), st.id).canon()
        lower = {spec(nf, mi, f"0 <= {tid}"), spec(nf, mi, f"-1 < {tid}")}
        upper = {spec(nf, mi, f"{tid} < len(self.buffers)"), spec(nf, mi, f"{tid} <= len(self.buffers) - 1")}
        rng_form = spec(nf, mi, f"{tid} in range(len(self.buffers))")
        ok = val == tid and ((g & lower and g & upper) or rng_form in g)
        ck.ob("R5-task-routing", f"{cq}.select_task", "validated", ok, f"selected_task = {val} under {sorted(g)}", "" if ok else "a task id must be stored only if 0 <= task_id < n_tasks (otherwise additions go to the wrong task via negative indexing, or fail later)", loc(mi, st.ast))
    # sample_batch: one member among the active ones
    fn = _m(repo, cq, "sample_batch")
    cfg = nf.cfg_of(fn)
    samples = [(n_, c_) for n_, c_ in stmt_calls(cfg, lambda c: isinstance(c.func, ast.Attribute) and c.func.attr == "sample_batch") if recv_canon(nf, cfg, mi, n_, c_).startswith("self.buffers[")]
    ck.need(len(samples) == 1, f"{cq}.sample_batch: expected one member sample_batch call")
    n, c = samples[0]
    rv_ = c.func.value
    if isinstance(rv_, ast.Name):
        ds_ = cfg.defs_of(n.id, rv_.id)
        ck.need(len(ds_) == 1 and ds_[0].kind == "assign" and isinstance(ds_[0].value, ast.Subscript), f"{cq}.sample_batch: member alias `{rv_.id}` not recognised")
        rv_ = ds_[0].value
    ixe = rv_.slice
    # the index value: through attribute store / local
    src = None
    if isinstance(ixe, ast.Attribute) and dotted(ixe.value) == "self":
        w = [m for m in cfg.nodes if m.kind == "stmt" and isinstance(m.ast, ast.Assign) and any(dotted(t) == dotted(ixe) for t in m.ast.targets)]
        if len(w) == 1 and cfg.dominates(w[0].id, n.id):
            src = (w[0].ast.value, w[0].id)
    elif isinstance(ixe, ast.Name):
        ds = cfg.defs_of(n.id, ixe.id)
        if len(ds) == 1 and ds[0].kind == "assign":
            src = (ds[0].value, ds[0].node)
    ck.need(src is not None, f"{cq}.sample_batch: the sampled member index `{short(ixe)}` has no single dominating definition (unrecognised idiom)")
    choice = [x for x in ast.walk(src[0]) if isinstance(x, ast.Call) and isinstance(x.func, ast.Attribute) and x.func.attr in ("choice", "integers", "randint")]
    ck.need(len(choice) == 1, f"{cq}.sample_batch: member index `{short(src[0], 60)}` is not one random draw (unrecognised idiom)")
    pop = nf.poly(choice[0].args[0], Scope(cfg, mi, {}, cq), src[1]).canon() if choice[0].args else "?"
    from_active = "self.active_buffers" in pop and "self.buffers" not in pop.replace("self.active_buffers", "")
    from_all = "self.buffers" in pop.replace("self.active_buffers", "") or "n_tasks" in pop
    if not from_active and not from_all:
        raise AnalysisError(f"{cq}.sample_batch: population `{pop}` of the member draw not recognised")
    ck.ob("R5-task-routing", f"{cq}.sample_batch", "single-active-task", from_active, f"member ~ {short(choice[0], 70)}; batch from buffers[{short(ixe)}]",
          "" if from_active else "the member must be drawn among the tasks that already have data (active_buffers), not among all tasks", loc(mi, choice[0]))
    isret = isinstance(n.ast, ast.Return)
    if not isret:
        raise AnalysisError(f"{cq}.sample_batch: member batch is post-processed before it is returned (unrecognised idiom)")
    ck.ob("R5-task-routing", f"{cq}.sample_batch", "returns-member-batch", True, f"return {short(c, 70)}", "", loc(mi, c))
    # __len__ : total over members
    fn = _m(repo, cq, "__len__")
    rets = [r for r in ast.walk(fn) if isinstance(r, ast.Return)]
    ck.need(len(rets) == 1, f"{cq}.__len__: expected one return")
    rv = rets[0].value
    tot = False
    if isinstance(rv, ast.Call) and dotted(rv.func) == "sum" and rv.args:
        a0 = rv.args[0]
        if isinstance(a0, (ast.GeneratorExp, ast.ListComp)) and len(a0.generators) == 1 and dotted(a0.generators[0].iter) == "self.buffers" and not a0.generators[0].ifs and isinstance(a0.generators[0].target, ast.Name):
            t = a0.generators[0].target.id
            tot = ast.unparse(a0.elt) in (f"len({t})", f"{t}.current_len", f"{t}.__len__()")
        if isinstance(a0, ast.Call) and dotted(a0.func) == "map" and len(a0.args) == 2 and dotted(a0.args[0]) == "len" and dotted(a0.args[1]) == "self.buffers":
            tot = True
    if not tot and "self.buffers[" not in ast.unparse(rv) and "selected_task" not in ast.unparse(rv):
        raise AnalysisError(f"{cq}.__len__: `{short(rv, 60)}` not recognised as the total over the member buffers")
    ck.ob("R6-length", f"{cq}.__len__", "sum-over-tasks", tot, f"return {short(rv, 70)}", "" if tot else "length must be the total over all task buffers, not that of one member", loc(fn._module, fn))
    # __init__: independent member buffers, nothing active
    fn = _m(repo, cq, "__init__")
    cfg = nf.cfg_of(fn)
    rb = [p for p in positional_params(fn) if p != "self"][0]
    apps = stmt_calls(cfg, lambda c: isinstance(c.func, ast.Attribute) and dotted(c.func.value) == "self.buffers" and c.func.attr in ("append", "extend", "insert"))
    inits = [m for m in cfg.nodes if m.kind == "stmt" and isinstance(m.ast, ast.Assign) and dotted(m.ast.targets[0]) == "self.buffers"]
    aliased = []
    def _members(v):
        """[(element expr, repeated?)] of a list-valued expression, or None when its construction is not read."""
        if isinstance(v, ast.List):
            return [(e, False) for e in v.elts]
        if isinstance(v, ast.ListComp) and len(v.generators) == 1:
            return [(v.elt, True)]
        if isinstance(v, ast.BinOp) and isinstance(v.op, ast.Add):
            a_, b_ = _members(v.left), _members(v.right)
            return None if a_ is None or b_ is None else a_ + b_
        if isinstance(v, ast.BinOp) and isinstance(v.op, ast.Mult):
            for side in (v.left, v.right):
                ms = _members(side)
                if ms is not None:
                    return [(e, True) for e, _r in ms]
            return None
        if isinstance(v, ast.Call) and dotted(v.func) == "list" and len(v.args) == 1 and isinstance(v.args[0], (ast.GeneratorExp, ast.ListComp)):
            return [(v.args[0].elt, True)]
        return None

    def _fresh(e):
        return isinstance(e, ast.Call) and dotted(e.func) in ("copy.deepcopy", "deepcopy")
    for m in inits:
        v = m.ast.value
        ms = _members(v)
        if ms is None:
            raise AnalysisError(f"{cq}.__init__: member construction `{short(v, 60)}` not recognised")
        bare = [(e, r_) for e, r_ in ms if dotted(e) == rb]
        other = [e for e, r_ in ms if dotted(e) != rb and not _fresh(e)]
        if other:
            raise AnalysisError(f"{cq}.__init__: member construction `{short(v, 60)}` not recognised")
        # the same object in two slots: a repeated bare element, or more than one bare occurrence (the caller's buffer may be one member)
        if any(r_ for _e, r_ in bare) or len(bare) > 1:
            aliased.append(short(m.ast, 60))
    for _, c in apps:
        a = c.args[-1] if c.args else None
        if dotted(a) == rb:
            aliased.append(short(c, 60))
        elif not (isinstance(a, ast.Call) and dotted(a.func) in ("copy.deepcopy", "deepcopy")):
            raise AnalysisError(f"{cq}.__init__: member construction `{short(c, 60)}` not recognised")
    act = [m for m in cfg.nodes if m.kind == "stmt" and isinstance(m.ast, ast.Assign) and dotted(m.ast.targets[0]) == "self.active_buffers"]
    empty = len(act) == 1 and ast.unparse(act[0].ast.value) in ("set()", "set([])", "set(())")
    if len(act) == 1 and not empty and not isinstance(act[0].ast.value, (ast.Call, ast.Set, ast.SetComp)):
        raise AnalysisError(f"{cq}.__init__: initial active set `{short(act[0].ast.value)}` not recognised")
    ok = not aliased and empty
    ck.ob("R5-task-routing", f"{cq}.__init__", "independent-buffers", ok, f"members: first = {rb}, others deep copies; active_buffers initially {short(act[0].ast.value) if act else None}",
          "" if ok else (f"{aliased} shares one buffer object between tasks: additions to one task appear in the others" if aliased else "no task may be active before data has been added to it"), loc(fn._module, fn))


def run(ck, repo: Repo, tier: str):
    nf = NF(repo, inline_depth=1, inline_calls=False)
    for group in (_ring, _gather, _lengths, _multitask):
        ck.guard(group, ck, repo, nf)


_F = "rl_blox/blox/replay_buffer.py"
_RING = "        for k, v in sample.items():\n            self.buffer[k][self.insert_idx] = v\n        self.insert_idx = (self.insert_idx + 1) % self.buffer_size\n        self.current_len = min(self.current_len + 1, self.buffer_size)\n\n    def sample_batch(\n        self, batch_size: int, rng: np.random.Generator\n    ) -> tuple[jnp.ndarray]:"
MUTANTS = [
    {"id": "c02-positional-batch-storage-rebuilt", "file": _F, "rule": "R2", "edits": [("        indices = rng.integers(0, self.current_len, batch_size)\n        return self.Batch(\n            **{k: jnp.asarray(self.buffer[k][indices]) for k in self.buffer}\n        )", "        indices = rng.integers(0, self.current_len, batch_size)\n        return self.Batch(\n            *(jnp.asarray(v[indices]) for v in self.buffer.values())\n        )"), ("        if self.current_len == 0:\n            for k, v in sample.items():\n                assert k in self.buffer, f\"{k} not in {self.buffer.keys()}\"\n                self.buffer[k] = np.empty(\n                    (self.buffer_size,) + np.asarray(v).shape,\n                    dtype=self.buffer[k].dtype,\n                )\n        for k, v in sample.items():\n            self.buffer[k][self.insert_idx] = v\n        self.insert_idx =", "        if self.current_len == 0:\n            storage = OrderedDict()\n            for k, v in sample.items():\n                storage[k] = np.empty(\n                    (self.buffer_size,) + np.asarray(v).shape,\n                    dtype=self.buffer[k].dtype,\n                )\n            self.buffer = storage\n        for k, v in sample.items():\n            self.buffer[k][self.insert_idx] = v\n        self.insert_idx =")]},
    {"id": "c02-integers-low-one", "file": _F, "rule": "R3", "find": "        indices = rng.integers(0, self.current_len, batch_size)", "replace": "        indices = rng.integers(1, self.current_len, batch_size)"},
    {"id": "c02-mt-shared-buffers", "file": _F, "rule": "R5", "find": "            self.buffers.append(copy.deepcopy(replay_buffer))", "replace": "            self.buffers.append(replay_buffer)"},
    {"id": "c02-mt-add-to-first", "file": _F, "rule": "R5", "find": "        self.buffers[self.selected_task].add_sample(*args, **kwargs)", "replace": "        self.buffers[0].add_sample(*args, **kwargs)"},
    {"id": "c02-mt-len-selected", "file": _F, "rule": "R6", "find": "        return sum(len(buffer) for buffer in self.buffers)", "replace": "        return len(self.buffers[self.selected_task])"},
    {"id": "c02-lap-add-twice", "file": _F, "rule": "R1", "find": "        self.priority.initialize_priority(self.insert_idx)\n        super().add_sample(**sample)", "replace": "        self.priority.initialize_priority(self.insert_idx)\n        super().add_sample(**sample)\n        if self.current_len == 1:\n            super().add_sample(**sample)"},
    {"id": "c02-mt-active-on-select", "file": _F, "rule": "R5", "find": "        if 0 <= task_id < len(self.buffers):\n            self.selected_task = task_id\n", "replace": "        if 0 <= task_id < len(self.buffers):\n            self.selected_task = task_id\n            self.active_buffers.add(task_id)\n"},
    {"id": "c02-store-by-position", "file": _F, "rule": "R1", "nth": 0, "find": "        for k, v in sample.items():\n            self.buffer[k][self.insert_idx] = v\n        self.insert_idx", "replace": "        for storage, v in zip(self.buffer.values(), sample.values(), strict=True):\n            storage[self.insert_idx] = v\n        self.insert_idx"},
    {"id": "c02-advance-before-store", "file": _F, "rule": "R1", "find": _RING, "replace": _RING.replace("        for k, v in sample.items():\n            self.buffer[k][self.insert_idx] = v\n        self.insert_idx = (self.insert_idx + 1) % self.buffer_size\n", "        self.insert_idx = (self.insert_idx + 1) % self.buffer_size\n        for k, v in sample.items():\n            self.buffer[k][self.insert_idx] = v\n")},
    {"id": "c02-advance-plus-two", "file": _F, "rule": "R1", "find": _RING, "replace": _RING.replace("(self.insert_idx + 1) % self.buffer_size", "(self.insert_idx + 2) % self.buffer_size")},
    {"id": "c02-advance-mod-len", "file": _F, "rule": "R1", "find": _RING, "replace": _RING.replace("(self.insert_idx + 1) % self.buffer_size\n        self.current_len = min", "(self.insert_idx + 1) % max(self.current_len, 1)\n        self.current_len = min")},
    {"id": "c02-len-unbounded", "file": _F, "rule": "R1", "find": _RING, "replace": _RING.replace("min(self.current_len + 1, self.buffer_size)", "self.current_len + 1")},
    {"id": "c02-len-conditional", "file": _F, "rule": "R1", "find": _RING, "replace": _RING.replace("        self.current_len = min(self.current_len + 1, self.buffer_size)", "        if self.insert_idx != 0:\n            self.current_len = min(self.current_len + 1, self.buffer_size)")},
    {"id": "c02-sample-over-capacity", "file": _F, "rule": "R3", "find": "        indices = rng.integers(0, self.current_len, batch_size)", "replace": "        indices = rng.integers(0, self.buffer_size, batch_size)"},
    {"id": "c02-sample-per-field-index", "file": _F, "rule": "R2", "find": "        indices = rng.integers(0, self.current_len, batch_size)\n        return self.Batch(\n            **{k: jnp.asarray(self.buffer[k][indices]) for k in self.buffer}\n        )", "replace": "        return self.Batch(\n            **{\n                k: jnp.asarray(\n                    self.buffer[k][rng.integers(0, self.current_len, batch_size)]\n                )\n                for k in self.buffer\n            }\n        )"},
    {"id": "c02-lap-sampler-capacity", "file": _F, "rule": "R3", "find": "        indices = self.priority.prioritized_sampling(\n            self.current_len, batch_size, rng\n        )", "replace": "        indices = self.priority.prioritized_sampling(\n            self.buffer_size, batch_size, rng\n        )"},
    {"id": "c02-sampler-no-slice", "file": _F, "rule": "R3", "find": "        priority = self.priority[:current_len]\n", "replace": "        priority = self.priority\n"},
    {"id": "c02-alloc-every-time", "file": _F, "rule": "R4", "nth": 0, "find": "        if self.current_len == 0:\n            for k, v in sample.items():", "replace": "        if self.insert_idx == 0:\n            for k, v in sample.items():"},
    {"id": "c02-mt-all-active", "file": _F, "rule": "R5", "find": "        self.active_buffers.add(self.selected_task)", "replace": "        self.active_buffers.update(range(len(self.buffers)))"},
    {"id": "c02-mt-no-validation", "file": _F, "rule": "R5", "find": "        if 0 <= task_id < len(self.buffers):\n            self.selected_task = task_id", "replace": "        if task_id < len(self.buffers):\n            self.selected_task = task_id"},
    {"id": "c02-mt-sample-any", "file": _F, "rule": "R5", "find": "        self.sampled_task_idx = rng.choice(list(self.active_buffers), size=1)[0]", "replace": "        self.sampled_task_idx = rng.choice(len(self.buffers), size=1)[0]"},
    {"id": "c02-len-capacity", "file": _F, "rule": "R6", "nth": 0, "find": "        \"\"\"Return current number of stored transitions in the replay buffer.\"\"\"\n        return self.current_len", "replace": "        \"\"\"Return current number of stored transitions in the replay buffer.\"\"\"\n        return self.buffer_size"},
]
_ALLOC = "        if self.current_len == 0:\n            for k, v in sample.items():\n                assert k in self.buffer, f\"{k} not in {self.buffer.keys()}\"\n                self.buffer[k] = np.empty(\n                    (self.buffer_size,) + np.asarray(v).shape,\n                    dtype=self.buffer[k].dtype,\n                )\n        for k, v in sample.items():\n            self.buffer[k][self.insert_idx] = v\n        self.insert_idx = (self.insert_idx + 1) % self.buffer_size\n        self.current_len = min(self.current_len + 1, self.buffer_size)\n\n    def sample_batch(\n        self, batch_size: int, rng: np.random.Generator\n    ) -> tuple[jnp.ndarray]:"
BENIGN = [
    {"id": "c02-b-positional-batch", "file": _F, "find": "        indices = rng.integers(0, self.current_len, batch_size)\n        return self.Batch(\n            **{k: jnp.asarray(self.buffer[k][indices]) for k in self.buffer}\n        )", "replace": "        indices = rng.integers(0, self.current_len, batch_size)\n        return self.Batch(\n            *(jnp.asarray(v[indices]) for v in self.buffer.values())\n        )"},
    {"id": "c02-b-lap-init-after", "file": _F, "find": "        self.priority.initialize_priority(self.insert_idx)\n        super().add_sample(**sample)", "replace": "        slot = self.insert_idx\n        super().add_sample(**sample)\n        self.priority.initialize_priority(slot)"},
    {"id": "c02-b-integers-keywords", "file": _F, "find": "        indices = rng.integers(0, self.current_len, batch_size)", "replace": "        indices = rng.integers(low=0, high=len(self), size=batch_size)"},
    {"id": "c02-b-integers-high-only", "file": _F, "find": "        indices = rng.integers(0, self.current_len, batch_size)", "replace": "        indices = rng.integers(self.current_len, size=batch_size)"},
    {"id": "c02-b-len-local", "file": _F, "nth": 0, "find": "        \"\"\"Return current number of stored transitions in the replay buffer.\"\"\"\n        return self.current_len", "replace": "        n = self.current_len\n        return n"},
    {"id": "c02-b-select-raise-first", "file": _F, "find": "        if 0 <= task_id < len(self.buffers):\n            self.selected_task = task_id\n        else:\n            raise ValueError(", "replace": "        if 0 <= task_id < len(self.buffers):\n            pass\n        else:\n            raise ValueError(\"invalid task\")\n        self.selected_task = task_id\n        if False:\n            raise ValueError("},
    {"id": "c02-b-mt-add-alias", "file": _F, "find": "        self.buffers[self.selected_task].add_sample(*args, **kwargs)\n        self.active_buffers.add(self.selected_task)", "replace": "        task = self.selected_task\n        buffer = self.buffers[task]\n        buffer.add_sample(*args, **kwargs)\n        self.active_buffers.add(task)"},
    {"id": "c02-b-mt-len-map", "file": _F, "find": "        return sum(len(buffer) for buffer in self.buffers)", "replace": "        return sum(map(len, self.buffers))"},
    {"id": "c02-b-gather-local-array", "file": _F, "nth": 0, "find": "            **{k: jnp.asarray(self.buffer[k][indices]) for k in self.buffer}", "replace": "            **{name: jnp.asarray(self.buffer[name][indices]) for name in self.buffer.keys()}"},
    {"id": "c02-b-alloc-helper", "file": _F, "find": _ALLOC, "replace": "        if self.current_len == 0:\n            self._allocate(sample)\n        for k, v in sample.items():\n            self.buffer[k][self.insert_idx] = v\n        self.insert_idx = (self.insert_idx + 1) % self.buffer_size\n        self.current_len = min(self.current_len + 1, self.buffer_size)\n\n    def _allocate(self, sample):\n        for k, v in sample.items():\n            assert k in self.buffer\n            self.buffer[k] = np.empty(\n                (self.buffer_size,) + np.asarray(v).shape,\n                dtype=self.buffer[k].dtype,\n            )\n\n    def sample_batch(\n        self, batch_size: int, rng: np.random.Generator\n    ) -> tuple[jnp.ndarray]:"},
    {"id": "c02-b-len-first", "file": _F, "find": _RING, "replace": _RING.replace("        self.insert_idx = (self.insert_idx + 1) % self.buffer_size\n        self.current_len = min(self.current_len + 1, self.buffer_size)", "        self.current_len = min(self.current_len + 1, self.buffer_size)\n        self.insert_idx = (self.insert_idx + 1) % self.buffer_size")},
    {"id": "c02-b-advance-commuted", "file": _F, "find": _RING, "replace": _RING.replace("(self.insert_idx + 1) % self.buffer_size", "(1 + self.insert_idx) % self.buffer_size")},
]
