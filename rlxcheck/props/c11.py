"""C11 - step budget, episode discipline, step accounting, warm-up gates, scheduler protocol."""
from __future__ import annotations

import ast
from fractions import Fraction

from ..cfg import CFG
from ..counting import explore, path_to
from ..loops import ENV_LOOPS, VECTOR_LOOPS, find_env_loop, dotted
from ..nf import NF, Scope, Poly, parse_expr
from ..repo import Repo, loc, short, AnalysisError, param_names
from ..resolve import Resolver

EXPLANATION = (
    "Path counting on the statement CFG. R1 explores the product of the CFG with the integer difference "
    "(env.step calls executed) - (reported counter - start) for each counter-returning routine, including the zero-trip "
    "and break paths, and requires 0 at every return. R2 checks the budget guard (strict comparison against the budget "
    "parameter, one step per guard evaluation) and the episode-limit exit (episode counter equals the number of finished "
    "episodes at the `>= total_episodes` test, which leads out of the loop). R3 prunes the CFG by the truth table of "
    "(terminated, truncated) and requires that env.step is not reachable from env.step without a reset once the episode "
    "has ended. R4 requires every learning call to be control dependent on `counter >= learning_starts`. R5 checks the "
    "select/feedback protocol of the task selectors, the D-UCB arm choice form and, symbolically, that per-task step "
    "totals and the global counter receive the same increments on every path of the SMT / active-MT schedulers."
)
TRUSTED = [
    "gymnasium protocol (step tuple order; an episode has ended iff terminated or truncated)",
    "RecordEpisodeStatistics.length_queue holds the lengths of the episodes finished during the wrapped call",
    "vector environments auto-reset",
]
RULES = {
    "R1-count": "executed env steps - (returned counter - starting counter) == 0 on every path to a return (break, zero-trip, normal exit)",
    "R2-budget": "the loop that executes env.step is guarded by `counter < budget` (strict) or a range over the budget, one step per guard evaluation",
    "R2-episodes": "the `total_episodes` exit tests `finished episodes >= total_episodes` with the episode counter equal to the number of finished episodes, and leaves the loop",
    "R3-done-reset": "for every (terminated, truncated) row with an ended episode, env.step is not reachable from env.step without env.reset",
    "R4-warmup": "every learning call of a routine with a documented `learning_starts` is control dependent on `counter >= learning_starts`",
    "R5-scheduler": "selector overrides call the base protocol method on all paths and return self.tasks[...]; D-UCB plays round-robin first, then argmax(mean+padding); "
                    "SMT/AMT add identical step counts to the per-task total and the global counter on every path; sub-calls receive the loop budget and counter",
}

COUNTER_FIELDS = ("global_step", "steps_trained")
COUNTER_ROUTINES = [
    "rl_blox.algorithm.dqn.train_dqn", "rl_blox.algorithm.nature_dqn.train_nature_dqn", "rl_blox.algorithm.ddqn.train_ddqn",
    "rl_blox.algorithm.ddpg.train_ddpg", "rl_blox.algorithm.td3.train_td3", "rl_blox.algorithm.td3_lap.train_td3_lap",
    "rl_blox.algorithm.sac.train_sac", "rl_blox.algorithm.td7.train_td7", "rl_blox.algorithm.mrq.train_mrq",
]
# loops whose budget is counted in env steps and checked once per step
STEP_BUDGET = COUNTER_ROUTINES + [
    "rl_blox.algorithm.per.train_ddqn_per", "rl_blox.algorithm.pets.train_pets", "rl_blox.algorithm.q_learning.train_q_learning",
    "rl_blox.algorithm.sarsa.train_sarsa", "rl_blox.algorithm.double_q_learning.train_double_q_learning",
    "rl_blox.algorithm.monte_carlo.train_monte_carlo", "rl_blox.algorithm.dynaq.train_dynaq",
]
BUDGET_PARAMS = ("total_timesteps",)
MT_LOOPS = {
    "rl_blox.algorithm.smt.smt_stage1": "b1",
    "rl_blox.algorithm.smt.smt_stage2": "b_total",
    "rl_blox.algorithm.active_mt.train_active_mt": "total_timesteps",
    "rl_blox.algorithm.uniform_task_sampling.train_uts": "total_timesteps",
}


def _result_field(fn, names):
    """(return node, expr) of the namedtuple field in ``names`` of the function's result."""
    for n in ast.walk(fn):
        if isinstance(n, ast.Return) and isinstance(n.value, ast.Call) and isinstance(n.value.func, ast.Call) and dotted(n.value.func.func) == "namedtuple":
            nt = n.value.func
            if len(nt.args) == 2 and isinstance(nt.args[1], (ast.List, ast.Tuple)):
                fields = [e.value for e in nt.args[1].elts if isinstance(e, ast.Constant)]
                for f, v in zip(fields, n.value.args):
                    if f in names:
                        return n, v, f
    return None, None, None


def _name_plus_const(e):
    if isinstance(e, ast.Name):
        return e.id, 0
    if isinstance(e, ast.BinOp) and isinstance(e.left, ast.Name) and isinstance(e.right, ast.Constant) and isinstance(e.right.value, int):
        if isinstance(e.op, ast.Add):
            return e.left.id, e.right.value
        if isinstance(e.op, ast.Sub):
            return e.left.id, -e.right.value
    return None, None


def _range_args(it):
    """For `range/trange(a, b)` or `(b)` return (a expr | None, b expr)."""
    if isinstance(it, ast.Call) and dotted(it.func).split(".")[-1] in ("range", "trange", "tqdm") and it.args:
        if dotted(it.func).endswith("tqdm") and isinstance(it.args[0], ast.Call):
            return _range_args(it.args[0])
        if len(it.args) == 1:
            return None, it.args[0]
        return it.args[0], it.args[1]
    return None, None


# ---------------------------------------------------------------------------------------------------
def r1_count(ck, repo, L, start_param="global_step"):
    """Explore CFG x {d_v} where d_v = (env steps executed) - (v - start) for every tracked integer variable v
    (the returned counter, for-range targets, copies `v = w + k`).  All d_v stay bounded on a correct loop."""
    fn, cfg, S = L.fn, L.cfg, L.step_node
    site = L.qual
    rnode, rexpr, fld = _result_field(fn, COUNTER_FIELDS)
    ck.need(rnode is not None, f"{site}: no result field {COUNTER_FIELDS} (anchor vanished)")
    c, kret = _name_plus_const(rexpr)
    ck.need(c is not None, f"{site}: returned counter `{short(rexpr)}` is not `name +/- const` (unrecognised idiom)")
    ck.need(start_param in param_names(fn), f"{site}: no `{start_param}` parameter")
    ret_id = cfg.node_of(rnode).id
    # tracked variables: closure of c under `v = w + k` copies and for-range targets
    tracked = {c}
    start_redefined = any(d.name == start_param and d.kind != "param" for n in cfg.nodes for d in n.defs)
    if start_redefined:
        tracked.add(start_param)  # e.g. `for global_step in trange(global_step, ...)`: the parameter doubles as loop index
    changed = True
    while changed:
        changed = False
        for n in cfg.nodes:
            for d in n.defs:
                if d.name in tracked and d.kind == "assign":
                    nm, k = _name_plus_const(d.value)
                    if nm is not None and (nm != start_param or start_redefined) and nm not in tracked:
                        tracked.add(nm)
                        changed = True
    order = sorted(tracked)
    idx = {v: i for i, v in enumerate(order)}
    events = {}
    for n in cfg.nodes:
        for d in n.defs:
            if d.name not in tracked or d.kind == "param":
                continue
            s = n.ast
            if d.kind == "aug" and isinstance(s.op, (ast.Add, ast.Sub)) and isinstance(s.value, ast.Constant) and isinstance(s.value.value, int):
                events.setdefault(n.id, []).append(("inc", d.name, s.value.value if isinstance(s.op, ast.Add) else -s.value.value))
            elif d.kind == "assign":
                nm, k = _name_plus_const(d.value)
                if nm == start_param and (start_param not in tracked or not cfg.enclosing_loops(n.id)):
                    ck.need(not cfg.enclosing_loops(n.id), f"{site}: `{d.name} = {short(d.value)}` inside a loop (unrecognised idiom)")
                    events.setdefault(n.id, []).append(("set", d.name, k))
                elif nm in tracked:
                    events.setdefault(n.id, []).append(("copy", d.name, nm, k))
                else:
                    raise AnalysisError(f"{site}: counter `{d.name}` assigned `{short(d.value)}` (unrecognised idiom)")
            elif d.kind == "for":
                a, b = _range_args(d.value)
                nm, k = _name_plus_const(a) if a is not None else (None, None)
                ck.need(a is not None and nm == start_param, f"{site}: counter loop `{short(s.iter)}` does not start at `{start_param}` (unrecognised idiom)")
                events.setdefault(n.id, []).append(("for", d.name, k))
            else:
                raise AnalysisError(f"{site}: unrecognised definition of counter `{d.name}`: {short(n.ast)}")
    init = tuple(0 if v == start_param else None for v in order)

    def transfer(nid, succ, lab, st):
        ds, entered, stepped, broke = st
        ds = list(ds)
        if nid == S:
            ds = [None if x is None else x + 1 for x in ds]
            stepped = True
        node = cfg.nodes[nid]
        if isinstance(node.ast, ast.Break) and node.kind == "stmt":
            broke = True
        for ev in events.get(nid, []):
            i = idx[ev[1]]
            if ev[0] == "inc":
                ds[i] = None if ds[i] is None else ds[i] - ev[2]
            elif ev[0] == "set":
                ds[i] = -ev[2]  # before any step: e = 0
            elif ev[0] == "copy":
                w = ds[idx[ev[2]]]
                ds[i] = None if w is None else w - ev[3]
            elif ev[0] == "for" and lab is True:
                if nid not in entered:
                    e_now = ds[i] if ds[i] is not None else 0  # v == start param: d_v = e ; otherwise e = 0 (S inside the loop)
                    ds[i] = e_now - ev[2]
                    entered = entered | {nid}
                else:
                    ds[i] = ds[i] - 1
        return (tuple(ds), entered, stepped, broke)

    def bound(st):
        return all(x is None or -4 <= x <= 4 for x in st[0])

    parent, problems = explore(cfg, (init, frozenset(), False, False), transfer, bound=bound)
    finals = {}
    ci = idx[c]
    for (nid, st), par in parent.items():
        if nid == ret_id:
            d = st[0][ci] if st[0][ci] is not None else 0
            kind0 = "zero-trip" if not st[2] else ("break" if st[3] else "loop-exit")
            finals.setdefault((d - kret, kind0), (nid, st))
    ck.count("R1-states", len(parent))
    for (delta, _k), key in sorted(finals.items()):
        path = [k[0] for k in path_to(parent, key)]
        kind = _k
        ok = delta == 0
        why = "" if ok else (f"on the {kind} path the routine reports `{short(rexpr)}` = start + executed {'+' if -delta > 0 else '-'} {abs(delta)} "
                             f"(executed - (reported - start) = {delta})")
        wit = None if ok else _compress(cfg, path)
        ck.ob("R1-count", site, f"{kind}:delta={delta}", ok, f"return field {fld} = `{short(rexpr)}` on {kind} path", why, loc(L.mi, rnode), wit)
    for nid, st, text, key in problems[:2]:
        ck.ob("R1-count", site, "drift", False, f"counter `{c}`", text + " - the counter is not advanced once per env.step", loc(L.mi, cfg.nodes[nid].ast), _compress(cfg, [k[0] for k in path_to(parent, key)]))


def _path_kind(cfg, L, path, for_hdr):
    has_step = L.step_node in path
    brk = any(isinstance(cfg.nodes[p].ast, ast.Break) for p in path)
    if not has_step:
        return "zero-trip"
    return "break" if brk else "loop-exit"


def _compress(cfg, path, keep=14):
    d = cfg.describe_path(path)
    # drop repeated loop iterations: keep the tail
    return d if len(d) <= keep else d[:3] + ["..."] + d[-(keep - 4):]


# ---------------------------------------------------------------------------------------------------
def r2_budget(ck, repo, L):
    cfg, site = L.cfg, L.qual
    hdr = cfg.nodes[L.outer_header]
    s = hdr.ast
    where = loc(L.mi, s)
    budgets = [p for p in param_names(L.fn) if p in BUDGET_PARAMS]
    ck.need(budgets, f"{site}: no budget parameter {BUDGET_PARAMS}")
    B = budgets[0]
    if isinstance(s, ast.While):
        t = s.test
        ok, why = False, f"loop guard `{short(t)}` is not `<counter> < {B}`"
        if isinstance(t, ast.Compare) and len(t.ops) == 1:
            l, r, op = t.left, t.comparators[0], t.ops[0]
            if isinstance(op, (ast.Gt, ast.GtE)):
                l, r = r, l
                op = ast.Lt() if isinstance(op, ast.Gt) else ast.LtE()
            if isinstance(l, ast.Name) and isinstance(r, ast.Name) and r.id == B:
                if isinstance(op, ast.Lt):
                    ok, why = True, ""
                else:
                    why = f"budget guard `{short(t)}` is not strict: one step beyond the budget is executed"
        if not ok and not (isinstance(t, ast.Compare) and len(t.ops) == 1 and any(isinstance(x, ast.Name) and x.id == B for x in ast.walk(t))):
            # `while True: if not counter < budget: break ...`: the guard sits in the body; it must hold on every path to env.step
            from ..sem import guard_literals
            nfq = NF(repo, inline_calls=False)
            lits = guard_literals(nfq, cfg, L.mi, L.step_node)
            import re as _re
            strict = [g for g in lits if _re.fullmatch(rf"Lt\([A-Za-z_][A-Za-z_0-9]*, {B}\)", g)]
            loose = [g for g in lits if _re.fullmatch(rf"LtE\([A-Za-z_][A-Za-z_0-9]*, {B}\)", g)]
            if strict:
                ok, why = True, ""
                t = ast.parse(strict[0].replace("Lt(", "").replace(")", "").replace(", ", " < "), mode="eval").body
            elif loose:
                ok, why = False, f"budget guard `{loose[0]}` is not strict: one step beyond the budget is executed"
            else:
                raise AnalysisError(f"{site}: no comparison of a counter with `{B}` guards env.step (loop guard `{short(s.test)}`: unrecognised form)")
        ck.ob("R2-budget", site, "while-guard", ok, f"while {short(s.test)}" + (f" / {short(t)}" if t is not s.test else ""), why, where)
    elif isinstance(s, ast.For):
        a, b = _range_args(s.iter)
        ok = isinstance(b, ast.Name) and b.id == B
        ck.ob("R2-budget", site, "for-range", ok, f"for {short(s.target)} in {short(s.iter)}", "" if ok else f"range bound is not the budget `{B}`", where)
    else:
        raise AnalysisError(f"{site}: unrecognised loop kind")
    one = L.loop_header == L.outer_header
    ck.ob("R2-budget", site, "one-step-per-guard", one, f"env.step directly in the guarded loop", "" if one else "env.step sits in an inner loop that does not re-check the step budget", where)
    # the step statement is executed at most once per iteration: no second env.step call in the body
    steps = 0
    for nid in cfg.loop_body_nodes(L.outer_header):
        n = cfg.nodes[nid]
        if n.ast is None or n.kind not in ("stmt",):
            continue
        for c in ast.walk(n.ast):
            if isinstance(c, ast.Call) and isinstance(c.func, ast.Attribute) and c.func.attr == "step" and dotted(c.func.value) == L.env:
                steps += 1
    ck.ob("R2-budget", site, "single-step-call", steps == 1, f"{steps} env.step call(s) per iteration", "" if steps == 1 else "more than one env.step per budget check", where)


def _done_test(cfg, L):
    """The If node that is True exactly when the episode ended (three rows True, (F,F) False)."""
    tv, uv = L.pos.get(2), L.pos.get(3)
    out = []
    for nid in cfg.loop_body_nodes(L.outer_header):
        n = cfg.nodes[nid]
        if n.kind != "test" or not isinstance(n.ast, ast.If):
            continue
        rows = []
        for a, b in ((True, False), (False, True), (True, True), (False, False)):
            rows.append(cfg.eval3(n.ast.test, {tv: a, uv: b}, nid))
        names = {x.id for x in ast.walk(n.ast.test) if isinstance(x, ast.Name)}
        if rows == [True, True, True, False]:
            out.append((nid, True))
        elif rows == [False, False, False, True]:
            out.append((nid, False))   # `if not done: ... continue`: the episode-end code is the False arm
        elif rows[2] is True and rows[3] is False and ({tv, uv} & names or rows[0] is not None):
            out.append((nid, True))  # e.g. `if terminated:` - incomplete test, judged by R3; still the episode-end branch for counting
        elif rows[2] is False and rows[3] is True and ({tv, uv} & names or rows[0] is not None):
            out.append((nid, False))
    return sorted(out)


def r2_episodes(ck, repo, L):
    cfg, site, fn = L.cfg, L.qual, L.fn
    if "total_episodes" not in param_names(fn):
        return
    tests = []
    for n in cfg.nodes:
        if n.kind == "test" and isinstance(n.ast, ast.If):
            for x in ast.walk(n.ast.test):
                if isinstance(x, ast.Compare) and any(isinstance(y, ast.Name) and y.id == "total_episodes" for y in ast.walk(x)) and not any(isinstance(o, (ast.Is, ast.IsNot)) for o in x.ops):
                    tests.append((n, x))
    if not tests:
        # episode-budget idiom (CMA-ES): `for _ in range(total_episodes)` with one episode per outer iteration
        hdr = cfg.nodes[L.outer_header].ast
        a, b = _range_args(hdr.iter) if isinstance(hdr, ast.For) else (None, None)
        ck.need(isinstance(b, ast.Name) and b.id == "total_episodes", f"{site}: `total_episodes` parameter but neither a comparison nor a range over it (anchor vanished)")
        ck.ob("R2-episodes", site, "for-range", True, f"for ... in {short(hdr.iter)}", "", loc(L.mi, hdr))
        tv, uv = L.pos.get(2), L.pos.get(3)
        for x, y in ((True, False), (False, True), (True, True)):
            p = cfg.paths_avoiding(L.step_node, L.step_node, {L.outer_header}, assume={tv: x, uv: y})
            ck.ob("R2-episodes", site, f"one-episode-per-iteration:{x},{y}", p is None, f"terminated={x},truncated={y}: next env.step only in the next outer iteration",
                  "" if p is None else "an ended episode is continued inside the same outer iteration: more episodes than requested are run", loc(L.mi, L.step_stmt),
                  cfg.describe_path(p) if p else None)
        return
    done_nodes = _done_test(cfg, L)
    ck.need(len(done_nodes) >= 1, f"{site}: cannot identify the episode-end test")
    for n, cmp in tests:
        where = loc(L.mi, n.ast)
        l, r, op = cmp.left, cmp.comparators[0], cmp.ops[0]
        if isinstance(r, ast.Name) and r.id == "total_episodes" and isinstance(l, ast.Name):
            epi, opn = l.id, type(op).__name__
        elif isinstance(l, ast.Name) and l.id == "total_episodes" and isinstance(r, ast.Name):
            epi, opn = r.id, {"Lt": "Gt", "LtE": "GtE", "Gt": "Lt", "GtE": "LtE"}.get(type(op).__name__, type(op).__name__)
        else:
            raise AnalysisError(f"{site}: unrecognised episode-limit comparison `{short(cmp)}`")
        # which arm of the test leaves the loop?  the comparison is read with the polarity it has on that arm (De Morgan / negated forms)
        leaves = {lab: cfg.paths_avoiding(n.id, L.step_node, set(), first_label=lab) is None for lab in (True, False)}
        if leaves[True] == leaves[False]:
            raise AnalysisError(f"{site}: cannot tell which arm of `{short(n.ast.test, 60)}` ends the run (unrecognised form)")
        exit_lab = True if leaves[True] else False
        pol = None
        for txt_, truth_ in cfg._lits(n.ast.test, exit_lab, n.id):
            try:
                e_ = ast.parse(txt_, mode="eval").body
            except SyntaxError:
                continue
            if ast.dump(e_) == ast.dump(cmp):
                pol = truth_
        if pol is None:
            raise AnalysisError(f"{site}: the episode-limit comparison `{short(cmp)}` is not decided by the exit arm of `{short(n.ast.test, 60)}` (unrecognised form)")
        if not pol:
            opn = {"Lt": "GtE", "LtE": "Gt", "Gt": "LtE", "GtE": "Lt", "Eq": "NotEq", "NotEq": "Eq"}.get(opn, opn)
        ok = opn in ("GtE", "Eq")
        ck.ob("R2-episodes", site, "comparison", ok, f"`{short(cmp)}` ({'holds' if pol else 'fails'} on the exit arm)", "" if ok else f"the run ends when `{epi} {opn} total_episodes`: the routine runs past the requested number of episodes (or never stops)", where)
        # episode counter == finished episodes at the test
        events = {}
        for m in cfg.nodes:
            for d in m.defs:
                if d.name != epi or d.kind == "param":
                    continue
                s = m.ast
                if d.kind == "aug" and isinstance(s.op, ast.Add) and isinstance(s.value, ast.Constant):
                    events[m.id] = ("inc", s.value.value)
                elif d.kind == "assign" and isinstance(d.value, ast.Constant) and isinstance(d.value.value, int):
                    events[m.id] = ("set", d.value.value)
                else:
                    raise AnalysisError(f"{site}: unrecognised definition of episode counter `{epi}`: {short(s)}")
        ctrl = [(b, lab) for b, lab in cfg.control_deps(n.id) if (b, lab) in done_nodes]
        the_done, done_lab = ctrl[0] if ctrl else min(done_nodes)

        # one finished episode per step whose episode ended: counted at the first episode-end branch taken after the step; branches
        # over the same (or derived) conditions stay correlated along a path (`episode_over` tested twice)
        from ..cfg import _idents
        tv_, uv_ = L.pos.get(2), L.pos.get(3)
        tracked = {tv_, uv_}
        for _ in range(4):
            for m in cfg.nodes:
                if m.kind == "stmt" and isinstance(m.ast, ast.Assign) and len(m.ast.targets) == 1 and isinstance(m.ast.targets[0], ast.Name) and isinstance(m.ast.value, (ast.BoolOp, ast.UnaryOp, ast.Name)):
                    if {x.id for x in ast.walk(m.ast.value) if isinstance(x, ast.Name)} <= tracked:
                        tracked.add(m.ast.targets[0].id)
        done_set = set(done_nodes)

        def transfer(nid, succ, lab, st):
            d, lits, counted = st
            node = cfg.nodes[nid]
            if nid == L.step_node:
                counted, lits = False, frozenset()
            if node.kind == "test" and hasattr(node.ast, "test") and lab in (True, False):
                v = cfg.eval3(node.ast.test, dict(lits), nid)
                if v is not None and v != lab:
                    return None
                newl = [(k, vv) for k, vv in cfg._lits(node.ast.test, lab, nid) if _idents(k) <= tracked]
                if any((k, not vv) in lits for k, vv in newl):
                    return None
                lits = lits | frozenset(newl)
                if (nid, lab) in done_set and not counted:
                    d, counted = d + 1, True
            ev = events.get(nid)
            if ev:
                d = d - ev[1] if ev[0] == "inc" else -ev[1]
            lits = frozenset((k, vv) for k, vv in cfg.propagate(succ, lits) if _idents(k) <= tracked)
            return (d, lits, counted)

        # `set` happens before the loop with zero finished episodes, so d = -k there
        parent, problems = explore(cfg, (0, frozenset(), False), transfer, bound=lambda st_: -4 <= st_[0] <= 4)
        vals = sorted({st[0] for (nid, st) in parent if nid == n.id})
        ok2 = vals == [0] and not problems
        ck.ob("R2-episodes", site, "counter-equals-finished-episodes", ok2, f"`{epi}` at `{short(cmp)}`",
              "" if ok2 else f"finished episodes - {epi} at the test is {vals} (expected [0]): the routine stops after the wrong number of episodes", where)
        # the exit arm leaves the loop without another step
        p = cfg.paths_avoiding(n.id, L.step_node, set(), first_label=exit_lab)
        ck.ob("R2-episodes", site, "limit-exits-loop", p is None, f"{exit_lab} arm of `{short(n.ast.test)}`", "" if p is None else "env.step is still reachable after the episode limit was reached", where,
              cfg.describe_path(p) if p else None)
        # the test is inside the episode-end branch
        # semantic reading: after a step whose episode did not end the limit test is not reached before the next step, and after a step
        # that ended the episode it is
        tv_, uv_ = L.pos.get(2), L.pos.get(3)
        not_done = cfg.paths_avoiding(L.step_node, n.id, {L.step_node}, assume={tv_: False, uv_: False})
        some_done = any(cfg.paths_avoiding(L.step_node, n.id, {L.step_node}, assume={tv_: a, uv_: b}) is not None for a, b in ((True, False), (False, True)))
        inside = some_done and (not_done is None or any(dl in cfg.control_deps(n.id) for dl in done_nodes))
        ck.ob("R2-episodes", site, "tested-at-episode-end", inside, f"`{short(cmp)}` under the episode-end test", "" if inside else "episode limit is not tested when an episode ends", where)


# ---------------------------------------------------------------------------------------------------
def _done_assume(L, repo, a, b):
    """Assumptions for one (terminated, truncated) row: the two step results and every record field / copy that holds them."""
    from ..loops import Origins
    cfg = L.cfg
    tv, uv = L.pos.get(2), L.pos.get(3)
    out = {tv: a, uv: b}
    org = Origins(L)
    org.repo = repo
    for n in cfg.nodes:
        if n.kind != "test" or not hasattr(n.ast, "test"):
            continue
        for x in ast.walk(n.ast.test):
            if isinstance(x, ast.Attribute) and isinstance(x.value, ast.Name):
                o = org.of_expr(x, n.id)
                if o == {("step", 2)}:
                    out[ast.unparse(x)] = a
                elif o == {("step", 3)}:
                    out[ast.unparse(x)] = b
    return out


def _done_fields(L, repo):
    """test node -> {text of a record field read there: step position (2 / 3) it holds}."""
    from ..loops import Origins
    cfg = L.cfg
    org = Origins(L)
    org.repo = repo
    out = {}
    for n in cfg.nodes:
        if n.kind != "test" or not hasattr(n.ast, "test"):
            continue
        for x in ast.walk(n.ast.test):
            if isinstance(x, ast.Attribute) and isinstance(x.value, ast.Name):
                o = org.of_expr(x, n.id)
                if o in ({("step", 2)}, {("step", 3)}):
                    out.setdefault(n.id, {})[ast.unparse(x)] = next(iter(o))[1]
    return out


def r3_done_reset(ck, repo, L):
    cfg, site, S = L.cfg, L.qual, L.step_node
    tv, uv = L.pos.get(2), L.pos.get(3)
    ck.need(tv and uv, f"{site}: terminated/truncated results are discarded (unrecognised idiom)")
    for a, b in ((True, False), (False, True), (True, True)):
        fields = _done_fields(L, repo)
        p = cfg.paths_avoiding(S, S, set(L.resets_in), assume={tv: a, uv: b}, at_node=lambda nid_, a=a, b=b: {t_: (a if pos_ == 2 else b) for t_, pos_ in fields.get(nid_, {}).items()})
        if p is not None:
            # the witness is only as good as the tests on it: a test that reads a field of a local object (a tracker / record this
            # analysis cannot follow) and stayed undecided makes the path unreliable
            acc = _done_assume(L, repo, a, b)
            for x_ in p:
                nx = cfg.nodes[x_]
                if nx.kind == "test" and hasattr(nx.ast, "test") and cfg.eval3(nx.ast.test, acc, x_) is None and any(isinstance(y, ast.Attribute) and isinstance(y.value, ast.Name) and y.value.id not in param_names(L.fn) for y in ast.walk(nx.ast.test)):
                    raise AnalysisError(f"{site}: whether an ended episode is stepped again depends on `{short(nx.ast.test, 50)}` (state kept in an object: unrecognised form)")
        row = f"terminated={a},truncated={b}"
        ck.ob("R3-done-reset", site, row, p is None, f"{row}: step -> step without reset",
              "" if p is None else f"with {row} the loop steps the ended episode again without env.reset()", loc(L.mi, L.step_stmt),
              cfg.describe_path(p) if p else None)


# ---------------------------------------------------------------------------------------------------
def learners(repo, res: Resolver):
    """Functions that (transitively) perform a gradient-based parameter update."""
    g = res.call_graph()
    seeds = set()
    for qual, fn, mi in repo.all_functions():
        has_grad = has_upd = False
        for n in ast.walk(fn):
            if isinstance(n, ast.Call):
                r = repo.resolve_expr(mi, n.func) if isinstance(n.func, (ast.Name, ast.Attribute)) else None
                if r in ("flax.nnx.value_and_grad", "flax.nnx.grad", "jax.grad", "jax.value_and_grad"):
                    has_grad = True
                if isinstance(n.func, ast.Attribute) and n.func.attr == "update" and len(n.args) == 2:
                    has_upd = True
        if has_grad and has_upd:
            seeds.add(qual)
    out = set(seeds)
    import networkx as nx
    for s in seeds:
        if s in g:
            out |= {a for a in nx.ancestors(g, s)}
    return seeds, out


def r4_warmup(ck, repo, L, res, learn_set):
    cfg, site, fn = L.cfg, L.qual, L.fn
    if "learning_starts" not in param_names(fn):
        ck.note(f"{site}: no documented warm-up parameter - no R4 obligation")
        return
    # counter variable: loop guard / for target
    hdr = cfg.nodes[L.outer_header].ast
    cvar = None
    if isinstance(hdr, ast.While) and isinstance(hdr.test, ast.Compare):
        names = [x.id for x in (hdr.test.left, hdr.test.comparators[0]) if isinstance(x, ast.Name) and x.id not in BUDGET_PARAMS]
        cvar = names[0] if len(names) == 1 else None
    elif isinstance(hdr, ast.For) and isinstance(hdr.target, ast.Name):
        cvar = hdr.target.id
    ck.need(cvar is not None, f"{site}: cannot identify the step counter of the main loop")
    calls = []
    body = cfg.loop_body_nodes(L.outer_header)
    for nid in sorted(body):
        n = cfg.nodes[nid]
        if n.ast is None or n.kind not in ("stmt",):
            continue
        for c in ast.walk(n.ast):
            if not isinstance(c, ast.Call):
                continue
            t = res.resolve(c.func, L.mi, cfg, nid)
            q = t.qual if t else None
            if q is None and isinstance(c.func, ast.Attribute) and c.func.attr == "update" and isinstance(c.func.value, ast.Name) and c.func.value.id == "entropy_control":
                q = "rl_blox.algorithm.sac.EntropyControl.update"
            if q and (q in learn_set):
                calls.append((nid, c, q))
    ck.need(calls, f"{site}: no learning call found in the loop (unrecognised idiom)")
    for nid, c, q in calls:
        ok = False
        for b, lab in cfg.control_deps(nid):
            bn = cfg.nodes[b]
            if bn.kind != "test" or not isinstance(bn.ast, ast.If):
                continue
            for txt, truth in cfg._lits(bn.ast.test, lab, b):
                if _is_warm(txt, truth, cvar):
                    ok = True
        if not ok:
            # path reading: during warm-up (counter < learning_starts) the call must not be reachable from the loop header
            warm_cmps = {}
            for m_ in cfg.nodes:
                if m_.id not in body or m_.ast is None:
                    continue
                for x in ast.walk(m_.ast.test if m_.kind == "test" and hasattr(m_.ast, "test") else m_.ast):
                    if isinstance(x, ast.Compare) and len(x.ops) == 1:
                        l_, r_ = x.left, x.comparators[0]
                        names_ = {getattr(l_, "id", None), getattr(r_, "id", None)}
                        if names_ == {cvar, "learning_starts"}:
                            opn_ = type(x.ops[0]).__name__
                            if isinstance(l_, ast.Name) and l_.id == "learning_starts":
                                opn_ = {"Lt": "Gt", "LtE": "GtE", "Gt": "Lt", "GtE": "LtE"}.get(opn_, opn_)
                            # truth value of `counter <op> learning_starts` while counter < learning_starts
                            val_ = {"Lt": True, "LtE": True, "Gt": False, "GtE": False, "Eq": False, "NotEq": True}.get(opn_)
                            if val_ is not None:
                                warm_cmps[ast.unparse(x)] = val_
            p_ = None
            if warm_cmps:
                p_ = cfg.paths_avoiding(L.outer_header, nid, {L.outer_header}, assume=warm_cmps, first_label=True)
                if p_ is None:
                    ok = True
        wit = None
        if not ok:
            tg = _trip_gate(cfg, nid, cvar, L.outer_header)
            if tg is True:
                ok = True
            elif tg is None:
                raise AnalysisError(f"{site}: the number of updates per step `{short(c, 40)}` runs under is computed in a way this rule does not read (cannot decide the warm-up gate)")
            elif p_ is not None:
                # a witness path during warm-up: trustworthy when every test on it that involves the counter / learning_starts was decided
                undecided = []
                acc = dict(warm_cmps)
                for a_, b_ in zip(p_, p_[1:]):
                    na = cfg.nodes[a_]
                    if na.kind == "test" and hasattr(na.ast, "test"):
                        names_ = {x.id for x in ast.walk(na.ast.test) if isinstance(x, ast.Name)}
                        if names_ & {cvar, "learning_starts"} and cfg.eval3(na.ast.test, acc, a_) is None and not (names_ & {cvar}) <= names_ - {"learning_starts"} - {cvar} | {cvar} and "learning_starts" in names_:
                            undecided.append(short(na.ast.test, 40))
                if undecided:
                    raise AnalysisError(f"{site}: whether `{short(c, 40)}` runs during warm-up depends on {undecided[:2]} (cannot decide the warm-up gate)")
                wit = cfg.describe_path(p_)
        ck.ob("R4-warmup", site, f"gate:{q.rsplit('.', 1)[1]}", ok, f"`{short(c, 60)}`",
              "" if ok else f"learning call is not guarded by `{cvar} >= learning_starts` although `learning_starts` is documented as the warm-up: updates start too early",
              loc(L.mi, c), wit)


def _trip_gate(cfg, nid, cvar, outer):
    """Warm-up through the number of updates: the call sits in `for _ in range(N)` and N is 0 unless counter >= learning_starts.
    True: gated; False: the inner loops have trip counts that do not depend on the warm-up; None: cannot tell."""
    verdict = False
    for h in cfg.enclosing_loops(nid):
        if h == outer:
            break
        hn = cfg.nodes[h]
        if hn.kind != "for":
            continue
        it = hn.ast.iter
        if not (isinstance(it, ast.Call) and dotted(it.func) in ("range", "trange") and len(it.args) == 1 and isinstance(it.args[0], ast.Name)):
            continue
        defs = cfg.defs_of(h, it.args[0].id)
        if not defs or any(d.kind == "param" for d in defs):
            continue
        all_ok = True
        for d in defs:
            v = d.value if d.kind == "assign" else None
            if isinstance(v, ast.Constant) and v.value == 0:
                continue
            if isinstance(v, ast.IfExp):
                zero_else = isinstance(v.orelse, ast.Constant) and v.orelse.value == 0
                zero_body = isinstance(v.body, ast.Constant) and v.body.value == 0
                lits_t = cfg._lits(v.test, True, d.node) if zero_else else cfg._lits(v.test, False, d.node) if zero_body else []
                if any(_is_warm(t_, tr_, cvar) for t_, tr_ in lits_t):
                    continue
            # a non-zero definition under a warm-up branch
            lits = [(t_, tr_) for b, lab in cfg.control_deps(d.node) if cfg.nodes[b].kind == "test" and isinstance(cfg.nodes[b].ast, ast.If) for t_, tr_ in cfg._lits(cfg.nodes[b].ast.test, lab, b)]
            if any(_is_warm(t_, tr_, cvar) for t_, tr_ in lits):
                continue
            all_ok = False
            if v is not None and not isinstance(v, (ast.Name, ast.Constant, ast.Attribute)):
                verdict = None
        if all_ok:
            return True
    return verdict


def _is_warm(txt, truth, cvar):
    try:
        e = ast.parse(txt, mode="eval").body
    except SyntaxError:
        return False
    if not (isinstance(e, ast.Compare) and len(e.ops) == 1):
        return False
    l, r, op = e.left, e.comparators[0], type(e.ops[0]).__name__
    if isinstance(l, ast.Name) and l.id == "learning_starts" and isinstance(r, ast.Name) and r.id == cvar:
        l, r = r, l
        op = {"Lt": "Gt", "LtE": "GtE", "Gt": "Lt", "GtE": "LtE"}.get(op, op)
    if not (isinstance(l, ast.Name) and l.id == cvar and isinstance(r, ast.Name) and r.id == "learning_starts"):
        return False
    if not truth:
        op = {"Lt": "GtE", "LtE": "Gt", "Gt": "LtE", "GtE": "Lt"}.get(op, op)
    return op in ("GtE", "Gt")


# ---------------------------------------------------------------------------------------------------
def r5_selectors(ck, repo):
    base = "rl_blox.blox.multitask.TaskSelector"
    subs = repo.subclasses(base)
    ck.floor("selector-subclasses", len(subs), 2)
    for cq in subs:
        c = repo.cls(cq)
        mi = c._module
        for meth in ("select", "feedback"):
            m = repo.method(cq, meth, inherited=False)
            if m is None:
                continue
            fn = m[1]
            cfg = CFG(fn)
            sup = set()
            for n in cfg.nodes:
                if n.ast is None or n.kind != "stmt":
                    continue
                for x in ast.walk(n.ast):
                    if isinstance(x, ast.Call) and isinstance(x.func, ast.Attribute) and x.func.attr == meth and isinstance(x.func.value, ast.Call) and dotted(x.func.value.func) == "super":
                        sup.add(n.id)
            p = cfg.paths_avoiding(cfg.entry, cfg.exit, sup)
            ck.ob("R5-scheduler", f"{cq}.{meth}", "calls-base-protocol", p is None, f"super().{meth}() on every path",
                  "" if p is None else f"a path through {meth}() skips the base-class protocol flag (select/feedback alternation is no longer enforced)", loc(mi, fn),
                  cfg.describe_path(p) if p else None)
            if meth == "select":
                for n in cfg.nodes:
                    if isinstance(n.ast, ast.Return) and n.kind == "stmt":
                        v = n.ast.value
                        ok = isinstance(v, ast.Subscript) and dotted(v.value) == "self.tasks"
                        ck.ob("R5-scheduler", f"{cq}.{meth}", "returns-valid-task", ok, f"return {short(v) if v is not None else None}",
                              "" if ok else "select() does not return an element of self.tasks", loc(mi, n.ast))
    # base protocol itself
    for meth, flag_before, flag_after in (("select", False, True), ("feedback", True, False)):
        m = repo.method(base, meth, inherited=False)
        ck.need(m is not None, f"{base}.{meth} not found")
        fn = m[1]
        asserts = [n for n in ast.walk(fn) if isinstance(n, ast.Assert)]
        sets = [n for n in ast.walk(fn) if isinstance(n, ast.Assign) and dotted(n.targets[0]) == "self.waiting_for_reward"]
        want_assert = "not self.waiting_for_reward" if not flag_before else "self.waiting_for_reward"
        ok = len(asserts) == 1 and ast.unparse(asserts[0].test) == want_assert and len(sets) == 1 and isinstance(sets[0].value, ast.Constant) and sets[0].value.value is flag_after \
            and asserts[0].lineno < sets[0].lineno
        ck.ob("R5-scheduler", f"{base}.{meth}", "protocol-flag", ok, f"assert {want_assert}; self.waiting_for_reward = {flag_after}",
              "" if ok else "the select/feedback alternation flag is not asserted and flipped as documented", loc(fn._module, fn))


def r5_ducb(ck, repo, nf: NF):
    """choose_arm: per path the recorded arm is the round-robin arm iff len(rewards) < 2*n_arms and the arg-max of (discounted mean +
    padding) otherwise (selector truth table over path evaluation: arm order, guard clauses and helper structure do not matter)."""
    from ..sympath import enumerate_paths, PathEval
    from ..sem import selector_table
    q = "rl_blox.blox.mapb.DUCB.choose_arm"
    fn = repo.func(q)
    mi = fn._module
    cfg = nf.cfg_of(fn)
    nfp = NF(repo, inline_depth=1, inline_calls=False)
    rets = [n for n in cfg.nodes if n.kind == "stmt" and isinstance(n.ast, ast.Return)]
    stops = {r.id for r in rets} or {cfg.exit}
    items, kinds, unrecorded = [], {}, 0
    want_init = "mod(len(self.rewards), self.n_arms)"
    for pth in enumerate_paths(cfg, cfg.entry, stops, max_paths=2000):
        # paths that skip a loop over the arms entirely (zero arms) are not behaviours of a bandit with n_arms >= 1
        if any(cfg.nodes[nid].kind == "for" and lab is False and not any(n2 == nid and l2 is True for n2, l2 in pth) for nid, lab in pth):
            continue
        pe = PathEval(nfp, cfg, mi, q, {}).run(pth[:-1])
        rec = [v.canon() for _, k, v in pe.appended if k == "self.chosen_arms"]
        last = cfg.nodes[pth[-1][0]]
        rv = pe.ev(last.ast.value).canon() if last.kind == "stmt" and isinstance(last.ast, ast.Return) and last.ast.value is not None else None
        if len(rec) != 1 or (rv is not None and rv != rec[0]):
            unrecorded += 1
            continue
        a = rec[0]
        if a == want_init:
            kind = "init"
        elif a.startswith("argmax(") and "_discounted_empirical_mean" in a and "_padding_function" in a:
            kind = "ucb"
            kinds.setdefault("ucb", set()).add(a)
        elif a.startswith("argmin(") or (a.startswith("argmax(") and ("_discounted_empirical_mean" not in a or "_padding_function" not in a)) or a.startswith("mod(") or "len(self.rewards)" in a:
            kind = "other:" + a[:60]
        else:
            raise AnalysisError(f"{q}: chosen arm `{a[:90]}` is neither the round-robin arm nor argmax(mean + padding) in a form this check reads")
        conds = [(cfg.nodes[nid].ast.test, nid, lab) for nid, lab in pth[:-1] if cfg.nodes[nid].kind == "test" and lab in (True, False) and isinstance(cfg.nodes[nid].ast, ast.If) and "verbose" not in ast.unparse(cfg.nodes[nid].ast.test)]
        items.append((conds, kind))
    ck.ob("R5-scheduler", q, "records-choice", unrecorded == 0, "the returned arm is appended to chosen_arms on every path", "" if unrecorded == 0 else "a path returns an arm without recording it (or records another one)", loc(mi, fn))
    bad = sorted({k for _, k in items if k.startswith("other:")})
    ck.ob("R5-scheduler", q, "round-robin-arm", not any(b.startswith("other:mod(") or "len(self.rewards)" in b for b in bad), f"initial arm = {want_init}", "" if not bad else f"initial rounds do not play every arm in turn (expected {want_init}); got {bad[:1]}", loc(mi, fn))
    okucb = "ucb" in kinds and not any(b.startswith("other:arg") for b in bad)
    if okucb:
        # the sum must be mean + padding (not a difference): the argmax argument has two positive terms
        u = sorted(kinds["ucb"])[0]
        inner = nfp.meta.get(u, {}).get("args", [None])[0]
        def _coef(name):
            cs = [c for m_, c in inner.terms.items() if any(name in a_ for a_, _ in m_)]
            return cs
        okucb = inner is not None and _coef("_discounted_empirical_mean") == [1] and _coef("_padding_function") == [1] \
            and all(any(n_ in a_ for a_, _ in m_ for n_ in ("_discounted_empirical_mean", "_padding_function")) or all(a_ == "()" for a_, _ in m_) for m_ in inner.terms)
    ck.ob("R5-scheduler", q, "ucb-argmax", okucb, f"arm = {sorted(kinds.get('ucb', ['?']))[0][:100]}", "" if okucb else "after the initial rounds the arm is not argmax(discounted mean + padding)", loc(mi, fn))
    items2 = [(c, k if not k.startswith("other:") else "ucb") for c, k in items]
    pred = parse_expr("len(self.rewards) < 2 * self.n_arms")
    first_test = next((nid for conds_, _ in items2 for _, nid, _ in conds_), None)
    ck.need(first_test is not None, f"{q}: no branch between initial rounds and index policy (unrecognised idiom)")
    verdict, info = selector_table(nfp, mi, cfg, items2, pred, "init", "ucb", pred_at=first_test)
    if verdict is None:
        # a threshold test on the same quantity with another (polynomially different) threshold is a definite deviation
        thr = set()
        for conds_, _ in items2:
            for t_, nid_, _ in conds_:
                if isinstance(t_, ast.Compare) and len(t_.ops) == 1:
                    sc_ = Scope(cfg, mi, {}, q)
                    l_, r_ = nfp.poly(t_.left, sc_, nid_).canon(), nfp.poly(t_.comparators[0], sc_, nid_).canon()
                    if l_ == "len(self.rewards)":
                        thr.add(r_)
                    elif r_ == "len(self.rewards)":
                        thr.add(l_)
        if thr and "2*self.n_arms" not in thr and all("self.n_arms" in t_ or t_.lstrip("-").isdigit() for t_ in thr):
            verdict, info = False, f"threshold {sorted(thr)} instead of 2*self.n_arms"
        else:
            raise AnalysisError(f"{q}: initial-rounds test not comparable with len(rewards) < 2*n_arms: {info}")
    ck.ob("R5-scheduler", q, "initial-rounds-guard", verdict, "round-robin iff len(self.rewards) < 2*self.n_arms (truth table over the branch conditions)", "" if verdict else f"every arm must be played twice before the index policy takes over: round-robin exactly while len(rewards) < 2*n_arms; differs in the world {info}", loc(mi, fn))
    # reward(): append then refresh frequencies
    rq = "rl_blox.blox.mapb.DUCB.reward"
    rf = repo.func(rq)
    rcfg = nf.cfg_of(rf)
    apps = [n for n in rcfg.nodes if n.kind == "stmt" and isinstance(n.ast, ast.Expr) and isinstance(n.ast.value, ast.Call) and dotted(n.ast.value.func) == "self.rewards.append"]
    refresh = [n for n in rcfg.nodes if n.kind == "stmt" and n.ast is not None and any(isinstance(c, ast.Call) and dotted(c.func) == "self._episode_finished" for c in ast.walk(n.ast))]
    if not refresh:
        # the refresh may have been inlined: any write of the discounted frequencies counts
        refresh = [n for n in rcfg.nodes if n.kind == "stmt" and n.ast is not None and "self.discounted_frequencies" in ast.unparse(n.ast) and isinstance(n.ast, (ast.Assign, ast.AugAssign))]
    ok = len(apps) == 1 and bool(refresh) and all(rcfg.paths_avoiding(r.id, apps[0].id, set()) is None for r in refresh) and rcfg.paths_avoiding(rcfg.entry, rcfg.exit, {apps[0].id}) is None
    ck.ob("R5-scheduler", rq, "reward-then-refresh", ok, f"{len(apps)} append(s), {len(refresh)} refresh statement(s)", "" if ok else "reward() must record the reward and then refresh the discounted frequencies", loc(rf._module, rf))


def r5_ducb_mean(ck, repo, nf: NF):
    """Sibling agreement: the discounted mean is sum_{s in W, arm(s)=i} w(s) r(s) / N(i) with N(i) = sum_{s in W, arm(s)=i} w(s):
    numerator (in _discounted_empirical_mean) and normaliser (maintained by _episode_finished) must use the same window W and weights w."""
    C = "rl_blox.blox.mapb.DUCB"
    mq, eq, pq = C + "._discounted_empirical_mean", C + "._episode_finished", C + "._padding_function"
    mf, ef, pf = repo.func(mq), repo.func(eq), repo.func(pq)
    mi = mf._module
    SV = Poly.atom("§s", {"§s"}, {"§s"})
    ecfg = nf.cfg_of(ef)
    _loops = [n for n in ecfg.nodes if n.kind == "for" and isinstance(n.ast.target, ast.Name)]
    if len(_loops) == 1:
        # the loop variable of the normaliser's history loop is the shared symbol for `history position`
        _body = [n for n in ecfg.nodes if n.kind == "stmt" and _loops[0].id in ecfg.enclosing_loops(n.id)]
        if _body:
            SV = nf.name(_loops[0].ast.target.id, Scope(ecfg, mi, {}, eq), _body[0].id)
    # ---- numerator -------------------------------------------------------------------------------------
    cfg = nf.cfg_of(mf)
    comps = [(n, c) for n in cfg.nodes if n.kind == "stmt" and n.ast is not None for c in ast.walk(n.ast) if isinstance(c, (ast.ListComp, ast.GeneratorExp))]
    ck.need(len(comps) == 1 and len(comps[0][1].generators) == 1 and isinstance(comps[0][1].generators[0].target, ast.Name), f"{mq}: numerator is not a single comprehension over the history (unrecognised idiom)")
    node, comp = comps[0]
    gen = comp.generators[0]
    var = gen.target.id
    sc = Scope(cfg, mi, {var: SV}, mq)
    arm = positional_params_(mf)[0] if positional_params_(mf) else "arm_idx"
    num_range = nf.poly(gen.iter, sc, node.id).canon()
    conds = [nf.poly(c, sc, node.id).canon() for c in gen.ifs]
    want_cond = nf.poly(parse_expr(f"self.chosen_arms[{var}] == {arm}"), sc, node.id).canon()
    ok = conds == [want_cond]
    ck.ob("R5-scheduler", mq, "mean-filters-arm", ok, f"if {conds}", "" if ok else f"the numerator must sum exactly the rewards of the evaluated arm ({want_cond})", loc(mi, comp))
    elt = nf.poly(comp.elt, sc, node.id)
    rets = [n for n in cfg.nodes if n.kind == "stmt" and isinstance(n.ast, ast.Return)]
    ck.need(len(rets) == 1, f"{mq}: expected one return")
    got = nf.poly(rets[0].ast.value, Scope(cfg, mi, {}, mq), rets[0].id).canon()
    comp_atom = nf.poly(comp, Scope(cfg, mi, {}, mq), node.id).canon()
    want = nf.poly(parse_expr(f"np.sum(__c) / self.discounted_frequencies[{arm}]"), Scope(None, mi, {"__c": nf.poly(comp, Scope(cfg, mi, {}, mq), node.id)}, mq), None).canon()
    ck.ob("R5-scheduler", mq, "mean-normalised-by-frequency", got == want, got[:150], "" if got == want else f"the discounted mean must be the weighted reward sum divided by the arm's discounted frequency N(i): {want[:150]}", loc(mi, rets[0].ast))
    # ---- normaliser ---------------------------------------------------------------------------------------
    ecfg = nf.cfg_of(ef)
    F = "self.discounted_frequencies"
    writes = [n for n in ecfg.nodes if n.kind == "stmt" and isinstance(n.ast, (ast.Assign, ast.AugAssign)) and dotted(((n.ast.targets[0] if isinstance(n.ast, ast.Assign) else n.ast.target).value) if isinstance((n.ast.targets[0] if isinstance(n.ast, ast.Assign) else n.ast.target), ast.Subscript) else (n.ast.targets[0] if isinstance(n.ast, ast.Assign) else n.ast.target)) == F]
    loops_ = [n for n in ecfg.nodes if n.kind == "for"]
    den_range = den_w = None
    form = None
    if len(writes) == 2 and isinstance(writes[0].ast, ast.Assign) and ast.unparse(writes[0].ast.targets[0]) == F + "[:]" and isinstance(writes[0].ast.value, ast.Constant) and writes[0].ast.value.value == 0 \
            and isinstance(writes[1].ast, ast.AugAssign) and isinstance(writes[1].ast.op, ast.Add) and len(loops_) == 1 and loops_[0].id in ecfg.enclosing_loops(writes[1].id) and not ecfg.enclosing_loops(writes[0].id) \
            and isinstance(loops_[0].ast.target, ast.Name):
        # windowed recomputation:  N[:] = 0; for s in W: N[arm(s)] += w(s)
        form = "windowed-recomputation"
        lv = loops_[0].ast.target.id
        esc = Scope(ecfg, mi, {}, eq)
        den_range = nf.poly(loops_[0].ast.iter, esc, loops_[0].id).canon()
        den_w = nf.poly(writes[1].ast.value, esc, writes[1].id)
        ix = nf.poly(writes[1].ast.target.slice, esc, writes[1].id).canon()
        okix = ix == nf.poly(parse_expr(f"self.chosen_arms[{lv}]"), esc, writes[1].id).canon()
        ck.ob("R5-scheduler", eq, "frequency-of-chosen-arm", okix, f"N[{ix}] += w", "" if okix else "each history entry must add its weight to the arm chosen at that entry", loc(mi, writes[1].ast))
    elif len(writes) == 2 and all(isinstance(w.ast, ast.AugAssign) for w in writes) and not loops_ \
            and isinstance(writes[0].ast.op, ast.Mult) and isinstance(writes[0].ast.target, ast.Attribute) and isinstance(writes[1].ast.op, ast.Add) and ecfg.dominates(writes[0].id, writes[1].id):
        # recurrence  N <- g N + e_{last arm}: closed form  N(i) = sum_{s in [0,t)} g^(t-1-s) [arm(s) = i]   (unbounded window)
        esc = Scope(ecfg, mi, {}, eq)
        g = nf.poly(writes[0].ast.value, esc, writes[0].id)
        inc = nf.poly(writes[1].ast.value, esc, writes[1].id).canon()
        ix = nf.poly(writes[1].ast.target.slice, esc, writes[1].id).canon()
        if inc == "1" and ix == nf.poly(parse_expr("self.chosen_arms[-1]"), esc, None).canon():
            form = "recurrence"
            tl = nf.poly(parse_expr("len(self.chosen_arms)"), Scope(None, mi, {}, eq), None)
            den_range = nf.poly(parse_expr("range(0, len(self.chosen_arms))"), Scope(None, mi, {}, eq), None).canon()
            den_w = nf.poly(parse_expr("__g ** (__t - 1 - __s)"), Scope(None, mi, {"__g": g, "__t": tl, "__s": SV}, eq), None)
    if form is None:
        raise AnalysisError(f"{eq}: the maintenance of the discounted frequencies matches neither the windowed recomputation nor the recurrence idiom: sibling agreement with the discounted mean cannot be decided")
    rng_norm = lambda r: r.replace("range(0, ", "range(")
    okr = rng_norm(num_range) == rng_norm(den_range)
    ck.ob("R5-scheduler", C, "mean-window-agreement", okr, f"numerator over {num_range}; frequencies ({form}) over {den_range}",
          "" if okr else "the discounted reward sum and the discounted frequency it is divided by range over different parts of the history: the ratio is not a weighted mean (it leaves the reward range once the histories differ)", loc(mi, ef))
    rw = nf.poly(parse_expr(f"self.rewards[{var}]"), sc, node.id)
    okw = (elt - den_w * rw).is_zero()
    ck.ob("R5-scheduler", C, "mean-weight-agreement", okw, f"numerator term {elt.canon()[:110]}; frequency weight {den_w.canon()[:80]}",
          "" if okw else "the numerator must weight reward s by the same discount that entry s contributes to the arm's discounted frequency", loc(mi, comp))
    # total frequency and padding
    tot = [n for n in ecfg.nodes if n.kind == "stmt" and isinstance(n.ast, ast.Assign) and dotted(n.ast.targets[0]) == "self.total_frequency"]
    ok = len(tot) == 1 and nf.poly(tot[0].ast.value, Scope(None, mi, {}, eq), None).canon() == f"sum({F})" and all(ecfg.paths_avoiding(tot[0].id, w.id, set()) is None for w in writes) and not ecfg.control_deps(tot[0].id)
    ck.ob("R5-scheduler", eq, "total-frequency", ok, short(tot[0].ast, 80) if tot else "missing", "" if ok else "n_t must be the sum of the refreshed discounted frequencies", loc(mi, ef))
    pcfg = nf.cfg_of(pf)
    prets = [n for n in pcfg.nodes if n.kind == "stmt" and isinstance(n.ast, ast.Return)]
    parm = positional_params_(pf)[0] if positional_params_(pf) else "arm_idx"
    got = nf.poly(prets[0].ast.value, Scope(pcfg, mi, {}, pq), prets[0].id).canon()
    want = nf.poly(parse_expr(f"2 * self.upper_bound * np.sqrt(self.zeta * np.log(self.total_frequency) / self.discounted_frequencies[{parm}])"), Scope(None, mi, {}, pq), None).canon()
    ck.ob("R5-scheduler", pq, "padding-formula", got == want, got, "" if got == want else f"exploration bonus must be 2B*sqrt(zeta*log(n_t)/N_t(i)) = {want}", loc(mi, pf))


def positional_params_(fn):
    return [a.arg for a in fn.args.args if a.arg != "self"]


def r5_budget_symbolic(ck, repo, nf: NF, qual: str, budget: str):
    """Per-task totals and global counter receive the same increments on every path (symbolic difference)."""
    fn = repo.func(qual)
    mi = fn._module
    cfg = nf.cfg_of(fn)
    sc = Scope(cfg, mi, {}, qual)
    G = "global_step"
    site = qual
    # the main while loop
    hdrs = [n for n in cfg.nodes if n.kind == "test" and isinstance(n.ast, ast.While) and not cfg.control_deps(n.id)]
    ck.need(len(hdrs) == 1, f"{site}: expected one top-level while loop")
    H = hdrs[0]
    t = H.ast.test
    # the scheduler's step counter is the variable its main loop compares with the budget (its local name does not matter)
    if isinstance(t, ast.Compare) and len(t.ops) == 1 and isinstance(t.left, ast.Name) and dotted(t.comparators[0]) == budget:
        G = t.left.id
    elif isinstance(t, ast.Compare) and len(t.ops) == 1 and isinstance(t.comparators[0], ast.Name) and dotted(t.left) == budget:
        G = t.comparators[0].id
        t = ast.Compare(left=t.comparators[0], ops=[{ast.Gt: ast.Lt, ast.GtE: ast.LtE, ast.Lt: ast.Gt, ast.LtE: ast.GtE}.get(type(t.ops[0]), type(t.ops[0]))()], comparators=[t.left])
    else:
        raise AnalysisError(f"{site}: the main loop guard `{short(t)}` does not compare a counter with `{budget}` (unrecognised form)")
    ok = isinstance(t, ast.Compare) and isinstance(t.ops[0], ast.Lt) and dotted(t.left) == G and dotted(t.comparators[0]) == budget
    ck.ob("R2-budget", site, "while-guard", ok, f"while {short(t)}", "" if ok else f"scheduler loop guard is not `{G} < {budget}` (strict)", loc(mi, H.ast))
    # sub-call receives the same budget and the current counter
    for n in cfg.nodes:
        if n.ast is None or n.kind != "stmt":
            continue
        for c in ast.walk(n.ast):
            if isinstance(c, ast.Call) and isinstance(c.func, ast.Name) and c.func.id == "train_st":
                kw = {k.arg: k.value for k in c.keywords}
                ssc = Scope(cfg, mi, {}, qual)
                ssc.opaque_names = {G, budget}
                okb = nf.poly(kw["total_timesteps"], ssc, n.id).canon() == budget if kw.get("total_timesteps") is not None else False
                okc = nf.poly(kw["global_step"], ssc, n.id).canon() == G if kw.get("global_step") is not None else False
                ck.ob("R5-scheduler", site, "subcall-budget", okb, f"train_st(total_timesteps={short(kw['total_timesteps']) if 'total_timesteps' in kw else None})",
                      "" if okb else f"the single-task routine is not given the scheduler's remaining budget `{budget}`", loc(mi, c))
                ck.ob("R5-scheduler", site, "subcall-counter", okc, f"train_st(global_step={short(kw['global_step']) if 'global_step' in kw else None})",
                      "" if okc else "the single-task routine does not start from the scheduler's global step counter", loc(mi, c))


def r5_budget_exact(ck, repo, nf: NF, qual: str, budget: str):
    """Between one single-task call and the next scheduling decision the counters move by exactly the executed steps.

    Abstract interpretation of the segment  S (train_st call) -> {next S, scheduler loop header, return}: the state is the
    environment of the *relevant* locals (those flowing into the global counter / per-task totals) as polynomials over
    G0 (counter value handed to train_st), Q (sum of the recorded episode lengths) and the budget, plus the accumulated
    per-task increment dT and which side of the early-termination test was taken.  Irrelevant branches do not split states.
    Obligations at the segment ends:  normal side: dG == Q and dT == Q;  early side (train_st ran into the budget, so it
    executed budget - G0 steps): G0 + dT == budget and, when the scheduler continues or returns the counter, G == budget."""
    from .. import sympath
    fn = repo.func(qual)
    mi = fn._module
    cfg = nf.cfg_of(fn)
    G = "global_step"
    T = "training_steps"
    site = qual
    hdrs = [n for n in cfg.nodes if n.kind == "test" and isinstance(n.ast, ast.While) and not cfg.control_deps(n.id)]
    ck.need(len(hdrs) == 1, f"{site}: expected one top-level while loop")
    H = hdrs[0]
    t_ = H.ast.test
    if isinstance(t_, ast.Compare) and len(t_.ops) == 1 and isinstance(t_.left, ast.Name) and isinstance(t_.comparators[0], ast.Name) and budget in (t_.left.id, t_.comparators[0].id):
        G = t_.left.id if t_.comparators[0].id == budget else t_.comparators[0].id      # the counter the loop compares with the budget
    # per-task totals: the subscripted container that is advanced by the recorded episode lengths (its local name does not matter)
    tcands = {dotted(m.ast.target.value) for m in cfg.nodes if m.kind == "stmt" and isinstance(m.ast, ast.AugAssign) and isinstance(m.ast.target, ast.Subscript) and dotted(m.ast.target.value)}
    if T not in tcands and len(tcands) == 1:
        T = next(iter(tcands))
    S = [n for n in cfg.nodes if n.kind == "stmt" and n.ast is not None and any(isinstance(c, ast.Call) and isinstance(c.func, ast.Name) and c.func.id == "train_st" for c in ast.walk(n.ast))]
    ck.need(len(S) == 1, f"{site}: expected exactly one train_st call")
    S = S[0]

    def is_T(t):
        return isinstance(t, ast.Subscript) and dotted(t.value) == T

    # relevant locals: everything that flows into G or T
    rel = {G}
    changed = True
    stmts = [n for n in cfg.nodes if n.kind == "stmt" and isinstance(n.ast, (ast.Assign, ast.AugAssign))]
    while changed:
        changed = False
        for n in stmts:
            tg = n.ast.targets[0] if isinstance(n.ast, ast.Assign) else n.ast.target
            if (isinstance(tg, ast.Name) and tg.id in rel) or is_T(tg):
                for x in ast.walk(n.ast.value):
                    if isinstance(x, ast.Name) and x.id not in rel and any(isinstance(m.ast, (ast.Assign, ast.AugAssign)) and isinstance((m.ast.targets[0] if isinstance(m.ast, ast.Assign) else m.ast.target), ast.Name)
                                                                            and (m.ast.targets[0] if isinstance(m.ast, ast.Assign) else m.ast.target).id == x.id and H.id in cfg.enclosing_loops(m.id) for m in stmts):
                        rel.add(x.id)
                        changed = True
    # the early-termination test
    early_tests = {}
    for n in cfg.nodes:
        if n.kind == "test" and isinstance(n.ast, ast.If) and isinstance(n.ast.test, ast.Compare) and len(n.ast.test.ops) == 1 and isinstance(n.ast.test.ops[0], (ast.NotEq, ast.Eq, ast.Lt)):
            txt = ast.unparse(n.ast.test)
            if "return_queue" in txt and "scheduling_interval" in txt and "len(" in txt:
                early_tests[n.id] = not isinstance(n.ast.test.ops[0], ast.Eq)   # branch label that means `ran into the budget`
    ck.need(len(early_tests) == 1, f"{site}: cannot identify the early-termination test (len(return_queue) vs scheduling_interval); found {len(early_tests)}")
    POLYS = _PolyTable()
    g0 = Poly.atom("G0", {"G0"}, {"G0"})
    zero = Poly({})
    B = Poly.atom(budget, {budget}, {budget})

    def pack(env, dT, early):
        return (tuple(sorted((k, POLYS.put(v)) for k, v in env.items())), POLYS.put(dT), early)

    def unpack(st):
        return {k: POLYS.get(v) for k, v in st[0]}, POLYS.get(st[1]), st[2]
    stops = {S.id, H.id, cfg.exit} | {n.id for n in cfg.nodes if n.kind == "stmt" and isinstance(n.ast, ast.Return)}
    visited_nodes = set()

    def transfer(nid, succ, lab, st):
        n = cfg.nodes[nid]
        if st == "init":
            if nid != S.id:
                return None
            env0_ = {G: g0}
            # locals that hold a copy of the counter at the call (parameter copies of expanded helpers)
            scS = Scope(cfg, mi, {}, qual)
            gS = nf.name(G, scS, S.id).canon()
            for x_ in rel:
                if x_ != G:
                    try:
                        if nf.name(x_, scS, S.id).canon() == gS:
                            env0_[x_] = g0
                    except Exception:
                        pass
            return pack(env0_, zero, None)
        if nid in stops:
            return None
        visited_nodes.add(nid)
        env, dT, early = unpack(st)
        if nid in early_tests and lab in (True, False):
            early = (lab == early_tests[nid])
        s = n.ast
        if n.kind == "stmt" and isinstance(s, (ast.Assign, ast.AugAssign)):
            tg = s.targets[0] if isinstance(s, ast.Assign) else s.target
            tgs = s.targets if isinstance(s, ast.Assign) else [s.target]
            if any(is_T(t) for t in tgs) or any(isinstance(t, ast.Name) and t.id in rel for t in tgs):
                pe = sympath.PathEval(nf, cfg, mi, qual, env)
                v = pe.ev(s.value)
                if is_T(tg):
                    if not (isinstance(s, ast.AugAssign) and isinstance(s.op, (ast.Add, ast.Sub))):
                        raise AnalysisError(f"{site}: per-task totals are overwritten (`{short(s, 60)}`): accounting idiom not recognised")
                    dT = dT + v if isinstance(s.op, ast.Add) else dT - v
                else:
                    if isinstance(s, ast.AugAssign):
                        cur = env.get(tg.id, Poly.atom(tg.id, {tg.id}, {tg.id}))
                        v = nf._binop_polys(cur, v, s.op)
                    env = dict(env)
                    env[tg.id] = v
            elif any(isinstance(t, (ast.Tuple, ast.List)) and any(isinstance(e, ast.Name) and e.id in rel for e in t.elts) for t in tgs):
                t0 = tgs[0]
                if isinstance(s, ast.Assign) and len(tgs) == 1 and isinstance(s.value, (ast.Tuple, ast.List)) and len(s.value.elts) == len(t0.elts):
                    # element-wise `a, b = (x, y)` (e.g. produced by helper expansion)
                    pe = sympath.PathEval(nf, cfg, mi, qual, env)
                    vals = [pe.ev(v_) for v_ in s.value.elts]
                    env = dict(env)
                    for e_, v_ in zip(t0.elts, vals):
                        if isinstance(e_, ast.Name) and e_.id in rel:
                            env[e_.id] = v_
                else:
                    raise AnalysisError(f"{site}: `{short(s, 60)}` rebinds a step counter by unpacking: accounting idiom not recognised")
        return pack(env, dT, early)

    parent, problems = explore(cfg, "init", transfer, start=S.id, max_states=20000)
    pe0 = sympath.PathEval(nf, cfg, mi, qual, {})
    Q = pe0.ev(parse_expr("sum(env_with_stats.length_queue)"))
    ends = {}
    for key in parent:
        nid, st = key
        if st == "init" or nid not in stops:
            continue
        ends.setdefault((nid, st), key)
    ck.need(ends, f"{site}: no segment end reached from the train_st call")
    ck.count("R5-segment-states", len(parent))
    seen = set()
    for (nid, st), key in sorted(ends.items(), key=lambda kv: (kv[0][0], str(kv[0][1]))):
        env, dT, early = unpack(st)
        node = cfg.nodes[nid]
        kind = "next-call" if nid == S.id else "loop-header" if nid == H.id else "return"
        gend = env.get(G, g0)
        path = [k[0] for k in path_to(parent, key)]
        if early is None:
            sig = (kind, "unclassified")
            if sig not in seen:
                seen.add(sig)
                ck.ob("R5-scheduler", site, f"budget-exact:{kind}:classified", False, "a path from the single-task call to the next scheduling decision bypasses the early-termination test",
                      "the per-task totals cannot account for a call that ran into the budget on this path", loc(mi, node.ast) if node.ast is not None else loc(mi, fn), _compress(cfg, path))
            continue
        if not early:
            # the executed steps of a completed call are the recorded episode lengths: sum(<statistics wrapper>.length_queue); the
            # wrapper's local name is whatever the code (or an expanded helper) calls it
            import re as _re
            qa = sorted({a_ for p_ in (gend - g0, dT) for a_ in p_.atoms() if _re.match(r"^sum\(.*length_queue\)$", a_)})
            if len(qa) == 1:
                Q = Poly.atom(qa[0], {qa[0]}, {qa[0]})
            elif len(qa) > 1:
                raise AnalysisError(f"{site}: several episode-length sums {qa} in the step accounting (unrecognised idiom)")
            okg = (gend - g0 - Q).is_zero()
            okt = (dT - Q).is_zero()
            sig = (kind, "normal", (gend - g0).canon(), dT.canon())
            if sig in seen:
                continue
            seen.add(sig)
            ck.ob("R5-scheduler", site, f"budget-exact:{kind}:normal", okg and okt, f"dG = {(gend - g0).canon() or '0'}, dT = {dT.canon() or '0'} (Q = {Q.canon()})",
                  "" if okg and okt else f"after a call that finished its episodes the global counter and the per-task total must both advance by the recorded episode lengths Q = {Q.canon()}",
                  loc(mi, node.ast) if node.ast is not None else loc(mi, fn), None if okg and okt else _compress(cfg, path))
        else:
            okt = (g0 + dT - B).is_zero()
            ret_uses_g = node.kind == "stmt" and isinstance(node.ast, ast.Return) and node.ast.value is not None and any(isinstance(x, ast.Name) and x.id == G for x in ast.walk(node.ast.value))
            needs_g = kind in ("next-call", "loop-header") or ret_uses_g
            okg = (gend - B).is_zero() or not needs_g
            sig = (kind, "early", gend.canon(), dT.canon())
            if sig in seen:
                continue
            seen.add(sig)
            ck.ob("R5-scheduler", site, f"budget-exact:{kind}:early", okg and okt, f"G = {gend.canon()}, G0 + dT = {(g0 + dT).canon()} (budget {budget})",
                  "" if okg and okt else (f"a call that ran into the budget executed {budget} - G0 steps: the per-task totals must grow by exactly that (G0 + dT == {budget})" if not okt else f"after the budget is exhausted the global counter must equal {budget} (it is {gend.canon()}): the scheduler would overrun or report a wrong count"),
                  loc(mi, node.ast) if node.ast is not None else loc(mi, fn), None if okg and okt else _compress(cfg, path))
    # every write of the counters inside the scheduler loop lies on an analysed segment
    body = cfg.loop_body_nodes(H.id)
    for n in stmts:
        if n.id not in body:
            continue
        tg = n.ast.targets[0] if isinstance(n.ast, ast.Assign) else n.ast.target
        if (isinstance(tg, ast.Name) and tg.id == G) or is_T(tg):
            ok = n.id in visited_nodes
            ck.ob("R5-scheduler", site, f"budget-exact:write-on-segment:{short(n.ast, 40)}", ok, f"`{short(n.ast, 60)}` follows the single-task call", "" if ok else "a counter is modified before the single-task call of its iteration: not covered by the executed-steps accounting", loc(mi, n.ast))


def _stable(txt):
    """Finding keys must not contain CFG node numbers (φ atoms carry them)."""
    import re
    return re.sub(r"@[0-9,]+", "", txt)


class _PolyTable:
    def __init__(self):
        self.by_txt = {}

    def put(self, p: Poly) -> str:
        t = p.canon()
        self.by_txt[t] = p
        return t

    def get(self, t: str) -> Poly:
        return self.by_txt[t]


# ---------------------------------------------------------------------------------------------------
def run(ck, repo: Repo, tier: str):
    cfgs = {}
    res = Resolver(repo)
    nf = NF(repo)
    loops = {q: find_env_loop(repo, q, cfgs) for q in ENV_LOOPS}
    ck.floor("env-loops", len(loops), 21)
    seeds, learn_set = learners(repo, res)
    ck.floor("update-routines", len(seeds), 12)
    ck.extra["update_routines"] = sorted(seeds)
    ck.extra["call_graph"] = dict(res.cg_stats)
    for q in COUNTER_ROUTINES:
        ck.guard(r1_count, ck, repo, loops[q], "global_step")
    ck.floor("counter-routines", len(COUNTER_ROUTINES), 9)
    for q in STEP_BUDGET:
        ck.guard(r2_budget, ck, repo, loops[q])
    for q, L in loops.items():
        ck.guard(r2_episodes, ck, repo, L)
        if q not in VECTOR_LOOPS:
            ck.guard(r3_done_reset, ck, repo, L)
        if q in STEP_BUDGET:
            ck.guard(r4_warmup, ck, repo, L, res, learn_set)
    ck.note("batch collectors (reinforce.sample_trajectories, a2c/ppo collect_trajectories) check their budget once per batch by documented design: no R2 verdict")
    ck.guard(r5_selectors, ck, repo)
    ck.guard(r5_ducb, ck, repo, nf)
    ck.guard(r5_ducb_mean, ck, repo, nf)
    for q, b in MT_LOOPS.items():
        ck.guard(r5_budget_symbolic, ck, repo, nf, q, b)
        if not q.endswith("train_uts"):
            ck.guard(r5_budget_exact, ck, repo, nf, q, b)


# ---- self-validation variants (thorough tier) ------------------------------------------------------------
_A = "rl_blox/algorithm/"
MUTANTS = [
    {"id": "c11-td3-guard-le", "file": _A + "td3.py", "rule": "R2-budget", "find": "    while step < total_timesteps:", "replace": "    while step <= total_timesteps:"},
    {"id": "c11-td3-double-inc", "file": _A + "td3.py", "rule": "R1", "find": "        bar.update()\n        step += 1\n", "replace": "        bar.update()\n        step += 1\n        if termination:\n            step += 1\n"},
    {"id": "c11-td3-return-minus-one", "file": _A + "td3.py", "rule": "R1", "find": "        replay_buffer,\n        step,\n    )", "replace": "        replay_buffer,\n        step - 1,\n    )"},
    {"id": "c11-td3-break-before-inc", "file": _A + "td3.py", "rule": "R1", "find": "                step += 1\n                break\n", "replace": "                break\n"},
    {"id": "c11-td3-reset-on-terminated-only", "file": _A + "td3.py", "rule": "R3", "find": "        if termination or truncated:\n            if logger is not None:\n                logger.record_stat(\"return\"", "replace": "        if termination:\n            if logger is not None:\n                logger.record_stat(\"return\""},
    {"id": "c11-td3-gate-gt", "file": _A + "td3.py", "rule": "R4", "find": "        if step >= learning_starts:\n            for _ in range(gradient_steps):", "replace": "        if step >= batch_size:\n            for _ in range(gradient_steps):"},
    {"id": "c11-td3-episodes-gt", "file": _A + "td3.py", "rule": "R2-episodes", "find": "episode_idx >= total_episodes", "replace": "episode_idx > total_episodes"},
    {"id": "c11-td3-episodes-inc-after", "file": _A + "td3.py", "rule": "R2-episodes", "find": "            episode_idx += 1\n            if total_episodes is not None and episode_idx >= total_episodes:\n                step += 1\n                break\n",
     "replace": "            if total_episodes is not None and episode_idx >= total_episodes:\n                step += 1\n                break\n            episode_idx += 1\n"},
    {"id": "c11-sac-continue-skips-inc", "file": _A + "sac.py", "rule": "R1", "find": "        else:\n            obs = next_obs\n\n        progress.update()\n        step += 1\n", "replace": "        else:\n            obs = next_obs\n            if step < learning_starts:\n                continue\n\n        progress.update()\n        step += 1\n"},
    {"id": "c11-ddpg-return-plus1", "file": _A + "ddpg.py", "rule": "R1", "find": "        replay_buffer,\n        steps_trained,\n    )", "replace": "        replay_buffer,\n        global_step + 1,\n    )"},
    {"id": "c11-dqn-return-plus1", "file": _A + "dqn.py", "rule": "R1", "find": ")(q_net, optimizer, replay_buffer, step)", "replace": ")(q_net, optimizer, replay_buffer, step + 1)"},
    {"id": "c11-nature-gate-batch-only", "file": _A + "nature_dqn.py", "rule": "R4", "find": "        if step >= learning_starts and step > batch_size:", "replace": "        if step > batch_size:"},
    {"id": "c11-per-gate-or", "file": _A + "per.py", "rule": "R4", "find": "        if step >= learning_starts and step > batch_size:", "replace": "        if step >= learning_starts or step > batch_size:"},
    {"id": "c11-rollout-precedence", "file": "rl_blox/util/experiment_helper.py", "rule": "R3", "find": "while not (terminated or truncated):", "replace": "while not terminated or truncated:"},
    {"id": "c11-mrq-no-reset", "file": _A + "mrq.py", "rule": "R3", "find": "            obs, _ = env.reset()\n            steps_per_episode = 0\n            accumulated_reward = 0.0\n        else:\n            obs = next_obs\n\n        progress.update()", "replace": "            steps_per_episode = 0\n            accumulated_reward = 0.0\n        obs = next_obs\n\n        progress.update()"},
    {"id": "c11-cmaes-done-on-termination-only", "file": _A + "cmaes.py", "rule": "R", "find": "            done = termination or truncation", "replace": "            done = termination"},
    {"id": "c11-selector-no-super", "file": "rl_blox/blox/multitask.py", "rule": "R5", "find": "    def select(self) -> int:\n        super().select()\n        self.i += 1", "replace": "    def select(self) -> int:\n        self.i += 1"},
    {"id": "c11-selector-feedback-early-return", "file": "rl_blox/blox/multitask.py", "rule": "R5", "find": "            self.ducb.chosen_arms = self.ducb.chosen_arms[:-1]\n", "replace": "            self.ducb.chosen_arms = self.ducb.chosen_arms[:-1]\n            self.last_rewards[self.chosen_arm].append(reward)\n            return\n"},
    {"id": "c11-selector-raw-index", "file": "rl_blox/blox/multitask.py", "rule": "R5", "find": "        return self.tasks[self.i % len(self.tasks)]", "replace": "        return self.i % len(self.tasks)"},
    {"id": "c11-ducb-init-rounds", "file": "rl_blox/blox/mapb.py", "rule": "R5", "find": "        if len(self.rewards) < 2 * self.n_arms:", "replace": "        if len(self.rewards) < self.n_arms - 1:"},
    {"id": "c11-ducb-recurrence-vs-window", "file": "rl_blox/blox/mapb.py", "rule": "R5", "find": "        self.discounted_frequencies[:] = 0.0\n        t = len(self.chosen_arms)\n        for s in range(max(0, t - 250), t):\n            self.discounted_frequencies[self.chosen_arms[s]] += self.gamma ** (\n                t - 1 - s\n            )\n", "replace": "        self.discounted_frequencies *= self.gamma\n        self.discounted_frequencies[self.chosen_arms[-1]] += 1.0\n"},
    {"id": "c11-ducb-numerator-window", "file": "rl_blox/blox/mapb.py", "rule": "R5", "find": "                for s in range(max(0, t - 250), t)\n", "replace": "                for s in range(max(0, t - 100), t)\n"},
    {"id": "c11-ducb-weight-offset", "file": "rl_blox/blox/mapb.py", "rule": "R5", "find": "                self.gamma ** (t - 1 - s) * self.rewards[s]", "replace": "                self.gamma ** (t - s) * self.rewards[s]"},
    {"id": "c11-ducb-mean-unnormalised", "file": "rl_blox/blox/mapb.py", "rule": "R5", "find": "        return discounted_rewards / self.discounted_frequencies[arm_idx]", "replace": "        return discounted_rewards / self.total_frequency"},
    {"id": "c11-ducb-padding-no-log", "file": "rl_blox/blox/mapb.py", "rule": "R5", "find": "                * np.log(self.total_frequency)\n", "replace": "                * self.total_frequency\n"},
    {"id": "c11-ducb-frequency-wrong-arm", "file": "rl_blox/blox/mapb.py", "rule": "R5", "find": "            self.discounted_frequencies[self.chosen_arms[s]] += self.gamma ** (", "replace": "            self.discounted_frequencies[self.chosen_arms[t - 1 - s]] += self.gamma ** ("},
    {"id": "c11-ducb-minus-padding", "file": "rl_blox/blox/mapb.py", "rule": "R5", "find": "            ducb = mean + padding", "replace": "            ducb = mean - padding"},
    {"id": "c11-ducb-argmin", "file": "rl_blox/blox/mapb.py", "rule": "R5", "find": "            arm_idx = np.argmax(ducb)", "replace": "            arm_idx = np.argmin(ducb)"},
    {"id": "c11-smt-early-overshoot", "file": _A + "smt.py", "rule": "R5", "nth": 0, "find": "            steps = sum(env_with_stats.length_queue)\n            training_steps[task_id] += steps\n            global_step += steps\n            progress.update(steps)\n\n            if len(env_with_stats.return_queue) != scheduling_interval:\n                # early termination because we reached step limit\n                unlogged_steps = b1 - global_step\n                global_step = b1\n                training_steps[task_id] += unlogged_steps\n                progress.update(unlogged_steps)\n",
     "replace": "            steps = sum(env_with_stats.length_queue)\n            if len(env_with_stats.return_queue) != scheduling_interval:\n                steps += b1 - global_step\n            training_steps[task_id] += steps\n            global_step += steps\n            progress.update(steps)\n"},
    {"id": "c11-amt-early-counts-from-zero", "file": _A + "active_mt.py", "rule": "R5", "find": "            unlogged_steps = total_timesteps - global_step\n", "replace": "            unlogged_steps = total_timesteps - sum(env_with_stats.length_queue)\n"},
    {"id": "c11-smt2-early-keeps-counter", "file": _A + "smt.py", "rule": "R5", "find": "                unlogged_steps = b_total - global_step\n                global_step = b_total\n", "replace": "                unlogged_steps = b_total - global_step\n"},
    {"id": "c11-smt-double-count", "file": _A + "smt.py", "rule": "R5", "nth": 0, "find": "                unlogged_steps = b1 - global_step\n                global_step = b1\n", "replace": "                global_step = b1\n                unlogged_steps = b1 - global_step\n"},
    {"id": "c11-smt-missing-task-steps", "file": _A + "smt.py", "rule": "R5", "find": "            steps = sum(env_with_stats.length_queue)\n            training_steps[task_id] += steps\n            global_step += steps\n            progress.update(steps)\n\n            if len(env_with_stats.return_queue) != scheduling_interval:\n                # early termination because we reached step limit\n                unlogged_steps = b_total - global_step",
     "replace": "            steps = sum(env_with_stats.length_queue)\n            global_step += steps\n            progress.update(steps)\n\n            if len(env_with_stats.return_queue) != scheduling_interval:\n                # early termination because we reached step limit\n                unlogged_steps = b_total - global_step"},
    {"id": "c11-amt-wrong-budget", "file": _A + "active_mt.py", "rule": "R5", "find": "            total_timesteps=total_timesteps,\n            total_episodes=scheduling_interval,", "replace": "            total_timesteps=total_timesteps + global_step,\n            total_episodes=scheduling_interval,"},
    {"id": "c11-amt-guard-le", "file": _A + "active_mt.py", "rule": "R2", "find": "    while global_step < total_timesteps:", "replace": "    while global_step <= total_timesteps:"},
    {"id": "c11-uts-counter-not-passed", "file": _A + "uniform_task_sampling.py", "rule": "R5", "find": "            global_step=global_step,\n", "replace": "            global_step=0,\n"},
    {"id": "c11-qlearning-two-steps", "file": _A + "q_learning.py", "rule": "R2", "find": "        next_action = greedy_policy(q_table, next_observation)\n", "replace": "        next_action = greedy_policy(q_table, next_observation)\n        if epsilon > 1.0:\n            env.step(int(next_action))\n"},
]
BENIGN = [
    {"id": "c11-b-td3-rename-counter", "file": _A + "td3.py", "all": True, "find": "episode_idx", "replace": "n_episodes_done"},
    {"id": "c11-b-td3-inc-before-bar", "file": _A + "td3.py", "find": "        bar.update()\n        step += 1\n", "replace": "        step += 1\n        bar.update()\n"},
    {"id": "c11-b-td3-flipped-guard", "file": _A + "td3.py", "find": "    while step < total_timesteps:", "replace": "    while total_timesteps > step:"},
    {"id": "c11-b-td3-gate-flipped", "file": _A + "td3.py", "find": "        if step >= learning_starts:\n            for _ in range(gradient_steps):", "replace": "        if learning_starts <= step:\n            for _ in range(gradient_steps):"},
    {"id": "c11-b-nature-episode-from-zero", "file": _A + "nature_dqn.py", "find": "    episode = 1\n    accumulated_reward = 0.0\n\n    step = global_step", "replace": "    episode = 1\n    accumulated_reward = 0.0\n    n_updates = 0\n\n    step = global_step"},
    {"id": "c11-b-sac-done-var", "file": _A + "sac.py", "find": "        if termination or truncation:\n            if logger is not None:\n                logger.record_stat(\"return\"", "replace": "        done = termination or truncation\n        if done:\n            if logger is not None:\n                logger.record_stat(\"return\""},
    {"id": "c11-b-ddpg-gate-extra", "file": _A + "ddpg.py", "find": "        if global_step >= learning_starts:\n            for _ in range(gradient_steps):", "replace": "        if global_step >= learning_starts and len(replay_buffer) >= batch_size:\n            for _ in range(gradient_steps):"},
    {"id": "c11-b-rollout-done-var", "file": "rl_blox/util/experiment_helper.py", "find": "    while not (terminated or truncated):", "replace": "    while not terminated and not truncated:"},
    {"id": "c11-b-smt-early-one-shot", "file": _A + "smt.py", "nth": 0, "find": "            steps = sum(env_with_stats.length_queue)\n            training_steps[task_id] += steps\n            global_step += steps\n            progress.update(steps)\n\n            if len(env_with_stats.return_queue) != scheduling_interval:\n                # early termination because we reached step limit\n                unlogged_steps = b1 - global_step\n                global_step = b1\n                training_steps[task_id] += unlogged_steps\n                progress.update(unlogged_steps)\n",
     "replace": "            steps = sum(env_with_stats.length_queue)\n            if len(env_with_stats.return_queue) != scheduling_interval:\n                steps = b1 - global_step\n            training_steps[task_id] += steps\n            global_step += steps\n            progress.update(steps)\n"},
    {"id": "c11-b-ducb-window-300", "file": "rl_blox/blox/mapb.py", "edits": [("                for s in range(max(0, t - 250), t)\n", "                for s in range(max(0, t - 300), t)\n"), ("        for s in range(max(0, t - 250), t):\n", "        for k in range(max(0, t - 300), t):\n"), ("            self.discounted_frequencies[self.chosen_arms[s]] += self.gamma ** (\n                t - 1 - s\n            )", "            self.discounted_frequencies[self.chosen_arms[k]] += self.gamma ** (\n                t - k - 1\n            )")]},
    {"id": "c11-b-smt-steps-local", "file": _A + "smt.py", "nth": 0, "find": "            steps = sum(env_with_stats.length_queue)\n            training_steps[task_id] += steps\n            global_step += steps\n", "replace": "            steps = sum(env_with_stats.length_queue)\n            global_step += steps\n            training_steps[task_id] += steps\n"},
]
